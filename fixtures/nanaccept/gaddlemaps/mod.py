"""Positive fixture for R6.8 (NaN energies): two loops that keep a proposal whose energy is NaN, one that does not."""
import numpy as np


class Chi2Calculator:
    def __init__(self, a):
        self.a = a

    def __call__(self, x):
        return float(np.sum(x))


def search_negative_form(pos, n):
    energy = Chi2Calculator(pos)
    e = energy(pos)
    k = 0
    while k < n:
        k += 1
        trial = pos + np.random.normal(0, 1, 3)
        e_new = energy(trial)
        if e_new > e and np.random.rand() > 0.01 * e / e_new:
            continue
        pos, e = trial, e_new
    return pos


def search_nested(pos, n):
    energy = Chi2Calculator(pos)
    e = energy(pos)
    k = 0
    while k < n:
        k += 1
        trial = pos + np.random.normal(0, 1, 3)
        e_new = energy(trial)
        ratio = e / e_new
        if ratio < 1:
            if np.random.rand() > 0.01 * ratio:
                continue
        pos = trial
        e = e_new
    return pos


def search_positive_form(pos, n):
    energy = Chi2Calculator(pos)
    e = energy(pos)
    k = 0
    while k < n:
        k += 1
        trial = pos + np.random.normal(0, 1, 3)
        e_new = energy(trial)
        if e_new <= e or np.random.rand() <= 0.01 * e / e_new:
            pos, e = trial, e_new
    return pos
