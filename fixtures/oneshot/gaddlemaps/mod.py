"""Positive fixture: one-shot iterators created once and consumed by every iteration of a loop (3 sites)."""


def helper(cands, key):
    for c in cands:
        if c.startswith(key):
            return c
    return None


def shared_filter(names, keys):
    cands = filter(lambda n: n != "x", sorted(names))
    out = {}
    for k in keys:
        out[k] = helper(cands, k)
    return out


def shared_generator(names, keys):
    cands = (n for n in names if n)
    out = []
    for k in keys:
        for c in cands:
            if c == k:
                out.append(c)
    return out


def shared_membership(names, keys):
    low = map(str.lower, names)
    return [k for k in keys if k in low]


def fine_list(names, keys):
    cands = list(filter(None, names))
    out = {}
    for k in keys:
        out[k] = helper(cands, k)
    return out


def fine_single_pass(names):
    pairs = zip(names, names[1:])
    return [a + b for a, b in pairs]


def fine_created_inside(names, keys):
    out = {}
    for k in keys:
        cands = filter(None, names)
        out[k] = helper(cands, k)
    return out
