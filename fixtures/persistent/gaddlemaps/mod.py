"""Positive fixture for the persistent-state rule: three functions that keep a table their key does not determine, and
two that must stay silent."""
import functools

_BY_IDENTITY: dict = {}
_MEMO: dict = {}
_LOG: list = []


def walk(table, start):
    """BAD: keyed by the identity of the table"""
    key = (id(table), start)
    if key not in _BY_IDENTITY:
        _BY_IDENTITY[key] = [start] + list(table[start])
    return _BY_IDENTITY[key]


class Reader:
    _texts: dict = {}

    def __init__(self, path):
        """BAD: file contents remembered per path in a class-level table"""
        if path not in self._texts:
            with open(path) as fh:
                self._texts[path] = fh.readlines()
        self.lines = list(self._texts[path])


@functools.lru_cache(maxsize=None)
def load(path):
    """BAD: memoised on the path, the value is the file's contents"""
    with open(path) as fh:
        return fh.read()


def square(n):
    """fine: keyed by the value everything is computed from"""
    if n not in _MEMO:
        _MEMO[n] = n * n
    return _MEMO[n]


def note(x):
    """fine: write-only log"""
    _LOG.append(x)
    return x
