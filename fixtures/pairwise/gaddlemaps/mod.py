"""Positive fixture for R11.8: candidate positions filtered by the gap to the previous candidate (3 sites), and a greedy scan."""
import numpy as np


def by_mask(hits, n):
    keep = np.ones(len(hits), dtype=bool)
    keep[1:] = np.diff(hits) >= n
    return hits[keep]


def by_insert(hits, n):
    return hits[np.insert(np.diff(hits) >= n, 0, True)]


def by_delete(hits, n):
    return np.delete(hits, np.flatnonzero(hits[1:] - hits[:-1] < n) + 1)


def greedy(hits, n):
    out, last = [], None
    for h in hits:
        if last is None or h - last >= n:
            out.append(h)
            last = h
    return out


def blocks(hits, n):
    # splitting at the gaps (not filtering) is fine
    return np.split(hits, np.flatnonzero(np.diff(hits) != n) + 1)
