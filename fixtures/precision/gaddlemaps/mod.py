"""Positive fixture for RP.1: reduced-precision float types and data-dependent casts must be recognised."""
import numpy as np


def restore(points, ref):
    out = np.empty((len(points), 3), dtype=np.float32)            # reduced precision     (must match)
    small = np.asarray(points).astype('f4')                       # reduced precision     (must match)
    cast = np.ascontiguousarray(points, dtype=ref.dtype)          # data-dependent cast   (must match)
    again = np.float32(points[0][0])                              # constructor           (must match)
    mask = np.ones(len(points), dtype=bool)                       # mask: must NOT match
    acc = np.zeros(3, dtype=np.float64)                           # double: must NOT match
    like = np.zeros(3, dtype=ref.dtype)                           # allocation, data-dependent: not decided, not counted
    return out, small, cast, again, mask, acc, like
