"""Positive fixture for R6.5: forbidden nondeterminism sources must be recognised."""
import random
import time
import os
import numpy as np


def ok_draw():
    return np.random.normal(0, 1, 3) + np.random.rand(3)        # allowed (global stream)


def second_stream():
    return random.random()                                        # FORBIDDEN (1)


def own_generator():
    rng = np.random.default_rng()                                 # FORBIDDEN (2)
    return rng.normal()


def clock():
    return time.time()                                            # FORBIDDEN (3)


def entropy():
    return os.urandom(4)                                          # FORBIDDEN (4)
