"""Positive fixture for R20.1 / R6.5: a loop over a set of strings must be recognised."""
from typing import Set, Tuple


def classify(files) -> Tuple[Set[str], Set[str]]:
    a = set()
    b = set()
    for name in files:
        a.add(name)
    return a, b


def discover(files):
    tops, coords = classify(files)
    picked = [(i, len(i)) for i in tops]          # hash-ordered comprehension  (must match)
    for c in coords:                               # hash-ordered loop           (must match)
        picked.append((c, 0))
    for c in sorted(coords):                       # ordered: must NOT match
        picked.append((c, 1))
    for c in sorted(coords, key=len):              # ties keep hash order: must match
        picked.append((c, 2))
    for c in sorted(coords, key=lambda x: (len(x), x)):   # total order: must NOT match
        picked.append((c, 3))
    return picked
