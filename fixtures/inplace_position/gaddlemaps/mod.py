"""Positive fixture for R18.2: in-place mutation of coordinate arrays that are not fresh."""
import numpy as np


class AtomGro:
    def __init__(self, line):
        self.position = np.array(line[4:7])
        self.velocity = None


def shift(atom: AtomGro, d: np.ndarray):
    atom.position += d                      # in-place on the atom's array            (must match)


def clip(positions: np.ndarray):
    positions[0] = 0.0                       # item store into the caller's array      (must match)


def scale(positions: np.ndarray, s: float):
    out = positions
    out *= s                                 # alias of the caller's array             (must match)
    return out


def fine(positions: np.ndarray, s: float):
    out = np.copy(positions)
    out *= s                                 # fresh: must NOT match
    out[0] = 0.0                             # fresh: must NOT match
    return out
