"""Positive fixture for R16.1b: operations that change the key order of an ordered mapping while it is filled."""
from collections import OrderedDict


class Sections(OrderedDict):
    def __init__(self, lines):
        super().__init__()
        for name in lines:
            if name not in self:
                self[name] = []
            else:
                self.move_to_end(name)                 # 1
            if name == "x":
                self[name] = self.pop(name)            # 2
