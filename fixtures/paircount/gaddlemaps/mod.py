"""Positive fixture for R8.3 (pair counting): two constructors that recognise 'all restrained' by counting pairs, one by a set."""
import numpy as np


class A:
    def __init__(self, mol1, mol2, restrictions=None):
        self.r = np.asarray(restrictions).reshape(-1, 2)
        r1 = self.r[:, 0]
        n_free = len(mol1) - len(r1)
        if n_free > 0:
            self.kind = "with"
        else:
            self.kind = "only"


class B:
    def __init__(self, mol1, mol2, restrictions=None):
        if len(restrictions) >= len(mol1):
            self.kind = "only"
        else:
            self.kind = "with"


class C:
    def __init__(self, mol1, mol2, restrictions=None):
        r1 = np.asarray(restrictions)[:, 0]
        if len(set(r1.tolist())) == len(mol1):
            self.kind = "only"
        else:
            self.kind = "with"
