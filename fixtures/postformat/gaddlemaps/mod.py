"""Positive fixture for R13.7: text substitutions applied to a formatted record."""
import re


def fmt_line(values):
    out = "{:8.3f}{:8.3f}{:8.3f}".format(*values)
    out = out.replace("-0.000", " 0.000")          # 1
    return re.sub(r"nan", "0.0", out)              # 2


def fine(values):
    return "{:8.3f}".format(values[0])
