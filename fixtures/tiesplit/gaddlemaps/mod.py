"""Positive fixture for R3.4: two tables filled from two selections of the minimum that disagree on a tie."""
import numpy as np


class Thing:
    def __init__(self):
        self._a = {}
        self._b = {}

    def fill(self, dist, names):
        for i, col in enumerate(dist.argmin(axis=1)):
            self._a[i] = names[col]
        closest = dist.min(axis=1)
        for col, name in enumerate(names):
            rows = np.flatnonzero(dist[:, col] == closest)
            self._b.update(zip(rows.tolist(), [name] * len(rows)))

    def fill_other(self, dist, names):
        best = np.argmin(dist, axis=1)
        for i in range(len(best)):
            self._b[i] = names[best[i]]
        for col, name in enumerate(names):
            for i in np.where(dist[:, col] == dist.min(axis=1))[0]:
                self._a[i] = name

    def fill_ok(self, dist, names):
        best = dist.argmin(axis=1)
        for i, col in enumerate(best):
            self._a[i] = names[col]
            self._b[i] = dist[i, col]
