"""Positive fixture for R18.7: two copies built by cloning the instance dictionary wholesale."""
import copy


class Thing:
    def __init__(self):
        self._items = []
        self._views = {}

    def view(self, k):
        self._views[k] = object()
        return self._views[k]

    def copy(self):
        new = Thing.__new__(Thing)
        new.__dict__.update(self.__dict__)
        new._items = list(self._items)
        return new

    def other_copy(self):
        new = Thing.__new__(Thing)
        new.__dict__ = dict(self.__dict__)
        return new
