"""Positive fixture for R1.5 (explicit-loop form): a nearest-anchor search that stops at the first anchor inside a
threshold which is not the all-pairs bound (two matches), next to three searches that must not match."""
from scipy.spatial.distance import euclidean, pdist


class Bonded:
    def __init__(self, pts):
        self._frames = {}
        self._radius = 0.
        self._pts = pts

    def build(self, pts, bonds):
        shortest = float("inf")
        for i, p in enumerate(pts):
            self._frames[i] = p
            shortest = min(shortest, euclidean(p, pts[bonds[i][0]]))
        self._radius = shortest / 2

    def nearest(self, q):
        cands = []
        for index in self._frames:
            dist = euclidean(q, self._pts[index])
            if dist < self._radius:
                return index
            cands.append((dist, index))
        return sorted(cands)[0][1]

    def nearest_fixed(self, q):
        cands = []
        for index in sorted(self._frames):
            d = euclidean(q, self._pts[index])
            if 0.05 > d:
                return index
            cands.append((d, index))
        return min(cands)[1]

    def nearest_exact(self, q):
        cands = []
        for index in self._frames:
            d = euclidean(q, self._pts[index])
            if d <= 0:
                return index
            cands.append((d, index))
        return min(cands)[1]


class AllPairs:
    def __init__(self, pts):
        self._frames = {}
        self._radius = 0.
        self._pts = pts

    def build(self, pts):
        for i, p in enumerate(pts):
            self._frames[i] = p
        self._radius = pdist(pts).min() / 2

    def nearest(self, q):
        cands = []
        for index in self._frames:
            dist = euclidean(q, self._pts[index])
            if dist < self._radius:
                return index
            cands.append((dist, index))
        return sorted(cands)[0][1]

    def nearest_running(self, q):
        best, best_d = None, None
        for index in self._frames:
            dist = euclidean(q, self._pts[index])
            if best_d is None or dist < best_d:
                best, best_d = index, dist
        return best
