"""Tiny AST pattern matcher with metavariables, so that rules do not depend on the names of local variables.

Pattern source is ordinary Python in which
  V_x   matches any *Name* (a variable) and binds it; a second V_x must be the same name
  E_x   matches any expression and binds it; a second E_x must unparse to the same text
  ...   as the only statement of a body matches any body
Patterns are expressions or single statements.  Matching is structural (ast.dump-like), contexts ignored.
"""
from __future__ import annotations

import ast
from typing import Dict, Iterator, List, Optional, Tuple

from .cfg import walk_no_nested


def _compile(src: str) -> ast.AST:
    mod = ast.parse(src)
    if len(mod.body) != 1:
        raise ValueError("pattern must be one statement or expression: %r" % src)
    st = mod.body[0]
    if isinstance(st, ast.Expr):
        return st.value
    return st


_cache: Dict[str, ast.AST] = {}


def compile_pattern(src: str) -> ast.AST:
    if src not in _cache:
        _cache[src] = _compile(src)
    return _cache[src]


_MIRROR = {ast.Eq: ast.Eq, ast.NotEq: ast.NotEq, ast.Lt: ast.Gt, ast.Gt: ast.Lt, ast.LtE: ast.GtE, ast.GtE: ast.LtE}
_in_mirror = [False]
_env: List[Dict[str, ast.AST]] = [{}]      # names with exactly one plain assignment in the function being searched


def single_defs(fn: ast.AST) -> Dict[str, ast.AST]:
    """name -> value for locals of `fn` that are bound exactly once, by a plain `name = value` (not parameters, loop
    targets, augmented or unpacking assignments): reading such a name is reading that value"""
    stores: Dict[str, int] = {}
    vals: Dict[str, ast.AST] = {}
    # the target of a comprehension is local to the comprehension: it is not a binding of the function's variable
    comp_targets = {id(y) for c in ast.walk(fn) if isinstance(c, ast.comprehension) for y in ast.walk(c.target)}
    for x in walk_no_nested(fn):
        if id(x) in comp_targets:
            continue
        if isinstance(x, ast.Name) and isinstance(x.ctx, (ast.Store, ast.Del)):
            stores[x.id] = stores.get(x.id, 0) + 1
        elif isinstance(x, ast.Assign) and len(x.targets) == 1 and isinstance(x.targets[0], ast.Name):
            vals[x.targets[0].id] = x.value
        elif isinstance(x, ast.AugAssign) and isinstance(x.target, ast.Name):
            stores[x.target.id] = stores.get(x.target.id, 0) + 1
    params = set()
    if isinstance(fn, (ast.FunctionDef, ast.AsyncFunctionDef)):
        a = fn.args
        params = {y.arg for y in a.posonlyargs + a.args + a.kwonlyargs}
    return {k: v for k, v in vals.items() if stores.get(k) == 1 and k not in params
            and not any(isinstance(y, ast.Name) and y.id == k for y in ast.walk(v))}


def _is_any_body(body) -> bool:
    return isinstance(body, list) and len(body) == 1 and isinstance(body[0], ast.Expr) \
        and isinstance(body[0].value, ast.Constant) and body[0].value.value is Ellipsis


def unify(p, n, b: Dict[str, object]) -> bool:
    if isinstance(p, ast.Name) and p.id.startswith("V_"):
        if not isinstance(n, ast.Name):
            return False
        if p.id in b:
            return b[p.id] == n.id
        b[p.id] = n.id
        return True
    if isinstance(p, ast.Name) and p.id.startswith("E_"):
        if not isinstance(n, ast.AST):
            return False
        txt = ast.unparse(n)
        if p.id in b:
            return b[p.id] == txt
        b[p.id] = txt
        return True
    if isinstance(p, ast.Compare) and isinstance(n, ast.Compare) and len(p.ops) == 1 and len(n.ops) == 1 \
            and type(p.ops[0]) in _MIRROR and not _in_mirror[0]:
        # a comparison pattern matches the code in either orientation (a > b == b < a)
        for cand in (p, ast.Compare(p.comparators[0], [_MIRROR[type(p.ops[0])]()], [p.left])):
            b2 = dict(b)
            _in_mirror[0] = True
            try:
                ok = unify(cand, n, b2)
            finally:
                _in_mirror[0] = False
            if ok:
                b.clear()
                b.update(b2)
                return True
        return False
    if isinstance(p, ast.AST):
        if type(p) is not type(n):
            # a local bound once by `t = E` is transparent: a structural pattern matches E where the code reads t
            if isinstance(n, ast.Name) and isinstance(n.ctx, ast.Load) and n.id in _env[-1] and not isinstance(p, ast.Name):
                b2 = dict(b)
                if unify(p, _env[-1][n.id], b2):
                    b.clear()
                    b.update(b2)
                    return True
            return False
        for field, pv in ast.iter_fields(p):
            if field in ("ctx", "lineno", "col_offset", "end_lineno", "end_col_offset", "type_comment", "kind"):
                continue
            nv = getattr(n, field, None)
            if field in ("body", "orelse", "finalbody") and _is_any_body(pv):
                continue
            if field == "orelse" and pv == [] and isinstance(p, (ast.If, ast.For, ast.While)):
                # a pattern without else matches only statements without else - unless its body is `...` (the pattern
                # is about the header only)
                if nv and not _is_any_body(p.body):
                    return False
                continue
            if not unify(pv, nv, b):
                return False
        return True
    if isinstance(p, list):
        if not isinstance(n, list) or len(p) != len(n):
            return False
        return all(unify(x, y, b) for x, y in zip(p, n))
    return p == n


def match(pattern: str, node: ast.AST, binds: Optional[Dict[str, object]] = None) -> Optional[Dict[str, object]]:
    b = dict(binds or {})
    return b if unify(compile_pattern(pattern), node, b) else None


def find(root: ast.AST, pattern: str, binds: Optional[Dict[str, object]] = None, nested: bool = False) -> List[Tuple[ast.AST, Dict[str, object]]]:
    """All sub-nodes of ``root`` matching ``pattern`` (with their bindings), in source order."""
    pat = compile_pattern(pattern)
    out = []
    it = ast.walk(root) if nested else walk_no_nested(root)
    pushed = False
    if isinstance(root, (ast.FunctionDef, ast.AsyncFunctionDef)):
        _env.append(single_defs(root))
        pushed = True
    try:
        for n in it:
            if type(n) is type(pat):
                b = dict(binds or {})
                if unify(pat, n, b):
                    out.append((n, b))
    finally:
        if pushed:
            _env.pop()
    out.sort(key=lambda x: (getattr(x[0], "lineno", 0), getattr(x[0], "col_offset", 0)))
    return out


def has(root: ast.AST, pattern: str, binds: Optional[Dict[str, object]] = None, nested: bool = False) -> bool:
    return bool(find(root, pattern, binds, nested))


def first(root: ast.AST, pattern: str, binds: Optional[Dict[str, object]] = None):
    r = find(root, pattern, binds)
    return r[0] if r else (None, None)


def _alias_value(v: ast.AST) -> bool:
    if isinstance(v, ast.Name):
        return True
    if isinstance(v, ast.Attribute):
        return _alias_value(v.value)
    if isinstance(v, ast.Subscript):
        return _alias_value(v.value) and all(isinstance(x, (ast.Name, ast.Attribute, ast.Constant, ast.Load, ast.Subscript)) for x in ast.walk(v.slice))
    return False


class _IndexedComp(ast.NodeTransformer):
    """`[E(v) for v in X[:n]][k]` (k a constant, 0 <= k < n when there is a slice; E call-free) is `E(X[k])`: picking the
    k-th element of a comprehension is computing it for the k-th item."""
    def visit_Subscript(self, node):
        self.generic_visit(node)
        v = node.value
        k = node.slice.value if isinstance(node.slice, ast.Constant) and isinstance(node.slice.value, int) and not isinstance(node.slice.value, bool) else None
        if k is None and isinstance(node.slice, ast.UnaryOp) and isinstance(node.slice.op, ast.USub) and isinstance(node.slice.operand, ast.Constant) \
                and isinstance(node.slice.operand.value, int) and not isinstance(node.slice.operand.value, bool):
            k = -node.slice.operand.value
        import copy as _c0
        # rows picked by a list of indices: A[[i, j, ...]][k] / A[[E for ...]][k] is A[<k-th index>]
        if k is not None and isinstance(v, ast.Subscript) and isinstance(v.slice, (ast.ListComp, ast.List)) and isinstance(v.value, (ast.Name, ast.Attribute)):
            inner = self.visit(ast.Subscript(_c0.deepcopy(v.slice), ast.Constant(k), ast.Load()))
            if not (isinstance(inner, ast.Subscript) and isinstance(inner.value, (ast.ListComp,))):
                return ast.copy_location(ast.Subscript(v.value, inner, ast.Load()), node)
        if k is not None and isinstance(v, ast.List) and -len(v.elts) <= k < len(v.elts) and not any(isinstance(e, ast.Starred) for e in v.elts):
            return v.elts[k]
        # np.diff(X, axis=0)[k]: the k-th difference of consecutive rows
        if k is not None and isinstance(v, ast.Call) and isinstance(v.func, ast.Attribute) and v.func.attr == "diff" and v.args \
                and (len(v.args) == 1 or (len(v.args) == 2)) and all(kw.arg == "axis" and isinstance(kw.value, ast.Constant) and kw.value.value == 0 for kw in v.keywords):
            X = v.args[0]
            hi, lo = (k + 1, k) if k >= 0 else (k, k - 1)
            a = self.visit(ast.Subscript(_c0.deepcopy(X), ast.Constant(hi), ast.Load()))
            b = self.visit(ast.Subscript(_c0.deepcopy(X), ast.Constant(lo), ast.Load()))
            return ast.copy_location(ast.BinOp(a, ast.Sub(), b), node)
        if k is None or not isinstance(v, (ast.ListComp, ast.GeneratorExp)) or len(v.generators) != 1:
            return node
        g = v.generators[0]
        names_t = None
        if isinstance(g.target, ast.Name):
            names_t = None
        elif isinstance(g.target, ast.Tuple) and all(isinstance(x, ast.Name) for x in g.target.elts):
            names_t = [x.id for x in g.target.elts]
        else:
            return node
        if g.ifs or g.is_async or any(isinstance(x, (ast.Call, ast.NamedExpr)) for x in ast.walk(v.elt)):
            return node
        it = g.iter
        if isinstance(it, ast.Subscript) and isinstance(it.slice, ast.Slice):
            sl = it.slice
            if k < 0 or sl.lower is not None or sl.step is not None or not (isinstance(sl.upper, ast.Constant) and isinstance(sl.upper.value, int) and k < sl.upper.value):
                return node
            it = it.value
        import copy as _c
        item = ast.Subscript(_c.deepcopy(it), ast.Constant(k), ast.Load())
        tname = g.target.id if names_t is None else None

        class S(ast.NodeTransformer):
            def visit_Name(self, n):
                if not isinstance(n.ctx, ast.Load):
                    return n
                if tname is not None and n.id == tname:
                    return ast.copy_location(_c.deepcopy(item), n)
                if names_t is not None and n.id in names_t:
                    return ast.copy_location(ast.Subscript(_c.deepcopy(item), ast.Constant(names_t.index(n.id)), ast.Load()), n)
                return n
        return ast.copy_location(S().visit(_c.deepcopy(v.elt)), node)


def simplify_indexed(e: ast.AST) -> ast.AST:
    return ast.fix_missing_locations(_IndexedComp().visit(e))


def unpacked_defs(fn: ast.AST) -> Dict[str, ast.AST]:
    """names bound (once) by unpacking a comprehension / generator, possibly with a starred middle:
    `a, b, *_, z = (E(v) for v in X)`  ->  a = [E..][0], b = [E..][1], z = [E..][-1]"""
    out: Dict[str, ast.AST] = {}
    stores: Dict[str, int] = {}
    for x in ast.walk(fn):
        if isinstance(x, ast.Name) and isinstance(x.ctx, (ast.Store, ast.Del)):
            stores[x.id] = stores.get(x.id, 0) + 1
    for st in ast.walk(fn):
        if isinstance(st, ast.Assign) and len(st.targets) == 1 and isinstance(st.targets[0], ast.Tuple) \
                and isinstance(st.value, (ast.ListComp, ast.GeneratorExp)):
            elts = st.targets[0].elts
            star = [i for i, e_ in enumerate(elts) if isinstance(e_, ast.Starred)]
            if len(star) > 1:
                continue
            for i, e_ in enumerate(elts):
                if isinstance(e_, ast.Name) and stores.get(e_.id) == 1:
                    k = i if (not star or i < star[0]) else i - len(elts)
                    out[e_.id] = ast.Subscript(st.value, ast.Constant(k), ast.Load())
    return out


def expand_single_defs(fn: ast.AST, e: ast.AST, depth: int = 4, skip=(), aliases_only: bool = False) -> ast.AST:
    """`e` with every read of a local that `fn` binds exactly once replaced by the value it is bound to (recursively):
    the expression the code computes, written without its temporaries.  For matching only."""
    import copy
    env = single_defs(fn)

    class X(ast.NodeTransformer):
        def __init__(self, d):
            self.d = d

        def visit_Name(self, n):
            if isinstance(n.ctx, ast.Load) and n.id in env and n.id not in skip and self.d > 0 \
                    and (not aliases_only or _alias_value(env[n.id])):
                return X(self.d - 1).visit(copy.deepcopy(env[n.id]))
            return n

        def visit_Lambda(self, n):
            return n
    return simplify_indexed(X(depth).visit(copy.deepcopy(e)))
