"""Provenance and write-effect summaries (interprocedural, bottom-up with substitution).

Provenance of a value inside a function:
  ("param", name)      the caller's object bound to that parameter (or reachable from it)
  ("self",)            the receiver (or reachable from it: attributes, items, iteration elements)
  ("fresh", origin)    allocated in this function (constructor, .copy(), numpy allocation, literal, arithmetic)
  ("global", name)
  ("unknown", text)
An effect is a write to storage reachable from a root:
  Effect(kind, root, target, func, node, via)    kind in ATTR_STORE / ITEM_STORE / AUG_INPLACE / MUT_CALL
``target`` names what is written ("AtomGro.position", "ExchangeMap._refsystems[...]", "list.append on ...").
"""
from __future__ import annotations

import ast
from dataclasses import dataclass, field
from typing import Dict, FrozenSet, List, Optional, Set, Tuple

from .cfg import CFG, walk_no_nested, attr_chain, call_name, calls_in, parents_map
from .core import Func, Repo, norm
from .resolve import Resolver

MUTATORS = {"append", "extend", "insert", "remove", "pop", "clear", "sort", "reverse", "add", "discard",
            "update", "setdefault", "fill", "put", "resize", "itemset", "popitem", "appendleft", "popleft",
            "__setitem__", "__delitem__"}
NP_FRESH = {"array", "copy", "zeros", "ones", "empty", "zeros_like", "ones_like", "cross", "dot", "mean",
            "concatenate", "append", "insert", "outer", "eye", "diag", "transpose", "round", "sqrt", "cos", "sin",
            "sum", "linspace", "arange", "full", "stack", "vstack", "hstack", "abs", "rand", "normal", "uniform",
            "random", "choice", "randint", "inv", "norm", "matmul", "cdist", "min", "max", "argmin", "any", "all",
            "reshape_copy", "deepcopy", "tile", "repeat", "where", "union", "intersection", "sorted", "list",
            "dict", "set", "tuple", "frozenset", "str", "int", "float", "len", "format", "join", "split",
            "deque", "defaultdict", "Counter", "OrderedDict", "range", "enumerate", "zip", "reversed", "map",
            "filter", "hash", "isinstance", "type", "getattr_fresh", "euclidean", "open", "findall", "strip",
            "items", "keys", "values", "get_fresh"}
NP_VIEW = {"asarray", "ravel", "reshape", "squeeze", "view", "T", "flat", "atleast_2d"}


@dataclass(frozen=True)
class Effect:
    kind: str
    root: Tuple
    target: str
    func: str
    line: int
    text: str
    via: Tuple[str, ...] = ()
    value: Tuple = ()          # roots of the stored value (ATTR_STORE / MUT_CALL append), when known
    value_type: Optional[Tuple] = None

    def describe(self) -> str:
        r = self.root
        rt = {"param": "argument `%s`" % (r[1] if len(r) > 1 else "?"), "self": "the receiver",
              "fresh": "a fresh object (%s)" % (r[1] if len(r) > 1 else ""), "global": "global %s" % (r[1] if len(r) > 1 else ""),
              "unknown": "unknown storage (%s)" % (r[1] if len(r) > 1 else "")}[r[0]]
        via = (" via " + " -> ".join(v.split(".")[-1] for v in self.via)) if self.via else ""
        return "%s of %s on %s in %s:%d `%s`%s" % (self.kind, self.target, rt, self.func.split(".")[-1], self.line, self.text[:70], via)


class Effects:
    def __init__(self, repo: Repo, resolver: Optional[Resolver] = None, depth: int = 6, facet: str = "coord"):
        self.facet = facet               # 'coord': coordinate storage, 'top': topology storage, 'all'
        self.repo = repo
        self.R = resolver or Resolver(repo)
        self.depth = depth
        self._direct: Dict[str, List[Effect]] = {}
        self._summary: Dict[Tuple[str, int], List[Effect]] = {}
        self._prov_cache: Dict[str, "FuncProv"] = {}
        self._ret: Dict[str, Set[Tuple]] = {}
        self.max_depth_seen = 0
        # constructor aliasing first (to a fixpoint), with the caches purged in between: return summaries
        # computed while an alias set is still incomplete must not be kept
        prev = None
        for _ in range(4):
            cur = {c.qual: frozenset(self._compute_ctor_alias(c)) for c in repo.classes.values()}
            self._alias = cur
            self._ret, self._prov_cache, self._direct, self._summary = {}, {}, {}, {}
            if cur == prev:
                break
            prev = cur

    COORD_CLASSES = ("AtomGro", "Residue", "Molecule", "Atom", "System", "SystemGro")
    TOP_CLASSES = ("AtomTop", "MoleculeTop", "Molecule", "Atom", "System")

    def is_coord_type(self, t) -> bool:
        """Is a value of type t able to carry storage of the analysed facet?"""
        if not t:
            return False
        if t[0] == "cls":
            nm = t[1].split(".")[-1]
            if self.facet == "top":
                return nm in self.TOP_CLASSES
            if self.facet == "all":
                return nm in self.TOP_CLASSES or nm in self.COORD_CLASSES
            return nm in self.COORD_CLASSES
        if t[0] in ("list", "set", "iter", "tuple*"):
            return self.is_coord_type(t[1]) or t[1] is None
        if t[0] == "tuple":
            return any(self.is_coord_type(x) for x in t[1])
        if t == ("ext", "ndarray"):
            return True
        return False

    def ctor_alias_params(self, c) -> Set[str]:
        """Parameters of C.__init__ whose (facet-typed, mutable) value is kept by reference."""
        return set(getattr(self, "_alias", {}).get(c.qual, ()))

    def _compute_ctor_alias(self, c) -> Set[str]:
        init = self.repo.lookup_member(c, "__init__", "method")
        out: Set[str] = set()
        if init is None:
            return out
        env = self.R.env(init)
        for e in self.direct(init):
            if e.root[0] != "self" or e.kind not in ("ATTR_STORE", "MUT_CALL"):
                continue
            for v in e.value:
                if v[0] == "param" and v[1] in init.params:
                    pt = env.get(v[1])
                    vt = e.value_type
                    scalar = vt is not None and vt[0] == "ext" and vt[1] in ("int", "str", "float", "bool", "None")
                    if not scalar and (self.is_coord_type(pt) or pt is None):
                        out.add(v[1])
        return out

    def is_view_class(self, c) -> bool:
        """A class whose instances forward attribute stores to constructor arguments kept by reference
        (it defines a delegating __setattr__ and stores its parameters unchanged)."""
        if "__setattr__" not in c.methods or "__init__" not in c.methods:
            return False
        if not any(call_name(x) == "setattr" for x in calls_in(c.methods["__setattr__"].node)):
            return False
        init = c.methods["__init__"]
        ps = set(init.params[1:])
        direct = [s for s in walk_no_nested(init.node) if isinstance(s, ast.Assign)
                  and isinstance(s.value, ast.Name) and s.value.id in ps]
        copies = [c_ for c_ in ast.walk(init.node) if isinstance(c_, ast.Call) and isinstance(c_.func, ast.Attribute)
                  and c_.func.attr in ("copy", "deep_copy", "deepcopy")]
        return bool(direct) and not copies

    # ------------------------------------------------------------------ provenance
    def prov(self, f: Func) -> "FuncProv":
        if f.qual not in self._prov_cache:
            self._prov_cache[f.qual] = FuncProv(self, f)
        return self._prov_cache[f.qual]

    def returns(self, f: Func, _stack=()) -> Set[Tuple]:
        """Roots of the value(s) a function returns, in the callee's own terms."""
        if f.qual in self._ret:
            return self._ret[f.qual]
        if f.qual in _stack or len(_stack) > 8:
            return {("unknown", "recursion")}
        self._ret[f.qual] = {("unknown", "in progress")}
        fp = self.prov(f)
        out: Set[Tuple] = set()
        for n in walk_no_nested(f.node):
            if isinstance(n, ast.Return) and n.value is not None:
                out |= fp.of(n.value, _stack + (f.qual,))
            elif isinstance(n, (ast.Yield,)) and n.value is not None:
                out |= fp.of(n.value, _stack + (f.qual,))
        if not out:
            out = {("fresh", "None")}
        self._ret[f.qual] = out
        return out

    # ------------------------------------------------------------------ direct effects
    def direct(self, f: Func) -> List[Effect]:
        if f.qual in self._direct:
            return self._direct[f.qual]
        out: List[Effect] = []
        self._direct[f.qual] = out
        fp = self.prov(f)
        env = self.R.env(f)

        def add(kind, expr_root, target, node, value=None):
            vroots, vtype = (), None
            if value is not None:
                vroots = tuple(sorted(fp.of(value), key=str))
                vtype = self.R.expr_type(value, f, env)
            for r in fp.of(expr_root):
                out.append(Effect(kind, r, target, f.qual, getattr(node, "lineno", 0), norm(node), (), vroots, vtype))

        for st in walk_no_nested(f.node):
            targets = []
            if isinstance(st, ast.Assign):
                targets = list(st.targets)
            elif isinstance(st, ast.AugAssign):
                targets = [st.target]
            elif isinstance(st, ast.AnnAssign) and st.value is not None:
                targets = [st.target]
            elif isinstance(st, ast.Delete):
                targets = list(st.targets)
            flat = []
            for t in targets:
                if isinstance(t, (ast.Tuple, ast.List)):
                    flat += list(t.elts)
                else:
                    flat.append(t)
            for t in flat:
                if isinstance(t, ast.Attribute):
                    bt = self.R.expr_type(t.value, f, env)
                    dests = self.R.attr_store_targets(bt, t.attr) if bt and bt[0] == "cls" else []
                    val = getattr(st, "value", None) if len(flat) == 1 and not isinstance(st, ast.Delete) else None
                    if isinstance(st, ast.AugAssign):
                        # x.a op= v on an array attribute mutates the array object in place
                        at = self.R.expr_type(t, f, env)
                        if at == ("ext", "ndarray") or t.attr in ("position", "velocity"):
                            add("AUG_INPLACE", t, "array attribute .%s" % t.attr, st)
                    if not dests:
                        add("ATTR_STORE", t.value, "?.%s" % t.attr, st, val)
                    for cq, an, setter in dests:
                        if setter is None:
                            add("ATTR_STORE", t.value, "%s.%s" % (cq.split(".")[-1], an), st, val)
                        # setters are followed as calls (see calls())
                elif isinstance(t, ast.Subscript):
                    base = t.value
                    bt = self.R.expr_type(base, f, env)
                    tgt = "item of %s" % self._describe_container(base, bt)
                    add("ITEM_STORE", base, tgt, st)
                elif isinstance(t, ast.Name) and isinstance(st, ast.AugAssign):
                    bt = self.R.expr_type(t, f, env)
                    # in-place for arrays and lists; rebinding for immutables
                    if not (bt and bt[0] == "ext" and bt[1] in ("int", "float", "str", "bool", "tuple")):
                        if bt is None or bt == ("ext", "ndarray") or bt[0] in ("list", "set", "dict"):
                            if bt is None:
                                # unknown: only report when the name may alias non-fresh storage
                                pass
                            add("AUG_INPLACE", t, "array/list bound to `%s`" % t.id, st)
        for c in calls_in(f.node):
            fn = c.func
            if isinstance(fn, ast.Attribute) and fn.attr in MUTATORS \
                    and norm(fn).split(".")[0] not in ("np", "numpy", "os", "re", "warnings", "sys"):
                bt = self.R.expr_type(fn.value, f, env)
                if bt and bt[0] == "cls":
                    # package method with a mutator-like name: handled as a call
                    if self.R.find_member(bt[1], fn.attr, "method"):
                        continue
                add("MUT_CALL", fn.value, "%s() on %s" % (fn.attr, self._describe_container(fn.value, bt)), c,
                    c.args[-1] if c.args and fn.attr in ("append", "add", "insert", "extend", "appendleft") else None)
            elif isinstance(fn, ast.Name) and fn.id == "setattr" and len(c.args) >= 2:
                add("ATTR_STORE", c.args[0], "?.%s" % norm(c.args[1]), c)
            for k in c.keywords:
                if k.arg == "out":
                    add("ITEM_STORE", k.value, "out= array", c)
        return out

    def _describe_container(self, base, bt) -> str:
        ch = attr_chain(base) if isinstance(base, (ast.Attribute, ast.Name)) else None
        if isinstance(base, ast.Attribute) and bt is None:
            return "?.%s" % base.attr
        if ch:
            return ch
        return norm(base)[:40]

    # ------------------------------------------------------------------ calls with argument binding
    def calls(self, f: Func) -> List[Tuple[ast.AST, Func, Dict[str, ast.AST], Optional[ast.AST]]]:
        """(node, callee, {callee param: argument expr}, receiver expr or None) for calls, property
        reads/writes and protocol calls whose callee is a package function."""
        out = []
        env = self.R.env(f)
        for c in calls_in(f.node):
            cs, status = self.R.callees(c, f)
            recv = None
            if isinstance(c.func, ast.Attribute):
                recv = c.func.value
                # prop.fset(self, v)
                if c.func.attr in ("fset", "fget") and c.args:
                    recv = c.args[0]
            for g in cs:
                params = g.params
                args = list(c.args)
                if c.func is not None and isinstance(c.func, ast.Attribute) and c.func.attr in ("fset", "fget"):
                    args = args[1:]
                has_self = g.kind in ("method", "getter", "setter", "classmeth")
                pnames = params[1:] if has_self and params else params
                binding: Dict[str, ast.AST] = {}
                i = 0
                for a in args:
                    if isinstance(a, ast.Starred):
                        for p in pnames[i:]:
                            binding[p] = a.value
                        break
                    if i < len(pnames):
                        binding[pnames[i]] = a
                    i += 1
                for k in c.keywords:
                    if k.arg:
                        binding[k.arg] = k.value
                # constructor: the receiver is a fresh object
                r = recv
                if g.name == "__init__" and not (isinstance(c.func, ast.Attribute) and c.func.attr == "__init__"):
                    r = "fresh"
                out.append((c, g, binding, r))
        # property setters through attribute stores
        for st in walk_no_nested(f.node):
            tgts = []
            if isinstance(st, ast.Assign):
                tgts = [(t, st.value) for t in st.targets]
            elif isinstance(st, ast.AugAssign):
                tgts = [(st.target, st.value)]
            for t, v in tgts:
                if isinstance(t, ast.Attribute):
                    bt = self.R.expr_type(t.value, f, env)
                    if bt and bt[0] == "cls":
                        for cq, an, setter in self.R.attr_store_targets(bt, t.attr):
                            if setter is not None:
                                ps = [p for p in setter.params[1:]]
                                out.append((st, setter, {ps[0]: v} if ps else {}, t.value))
        # iteration / indexing / property reads call package code too (they may have effects)
        for n, gs in self.R.attr_loads(f):
            for g in gs:
                out.append((n, g, {}, n.value))
        for n in walk_no_nested(f.node):
            if isinstance(n, (ast.For, ast.comprehension)):
                it = self.R.expr_type(n.iter, f, env)
                if it and it[0] == "cls":
                    for _, m in self.R.find_member(it[1], "__iter__", "method"):
                        out.append((n.iter, m, {}, n.iter))
            elif isinstance(n, ast.Subscript) and isinstance(n.ctx, ast.Load):
                bt = self.R.expr_type(n.value, f, env)
                if bt and bt[0] == "cls":
                    for _, m in self.R.find_member(bt[1], "__getitem__", "method"):
                        out.append((n, m, {}, n.value))
            elif isinstance(n, ast.Compare):
                for side in [n.left] + list(n.comparators):
                    bt = self.R.expr_type(side, f, env)
                    if bt and bt[0] == "cls":
                        for op in n.ops:
                            mname = {ast.Eq: "__eq__", ast.NotEq: "__ne__"}.get(type(op))
                            if mname:
                                for _, m in self.R.find_member(bt[1], mname, "method"):
                                    out.append((n, m, {}, side))
        return out

    # ------------------------------------------------------------------ summaries
    def summary(self, f: Func, depth: Optional[int] = None, _stack: Tuple[str, ...] = ()) -> List[Effect]:
        """Effects of calling f, expressed on f's own roots (self / params / global / unknown);
        effects on objects that are fresh inside f are dropped."""
        depth = self.depth if depth is None else depth
        key = (f.qual, depth)
        if key in self._summary:
            return self._summary[key]
        if f.qual in _stack:
            return []
        self.max_depth_seen = max(self.max_depth_seen, len(_stack))
        out: List[Effect] = [e for e in self.direct(f)]
        if depth > 0:
            fp = self.prov(f)
            for node, g, binding, recv in self.calls(f):
                sub = self.summary(g, depth - 1, _stack + (f.qual,))
                for e in sub:
                    roots: Set[Tuple] = set()
                    if e.root[0] == "self":
                        if recv == "fresh":
                            roots = {("fresh", g.cls.name if g.cls else g.name)}
                        elif recv is None:
                            roots = {("unknown", "receiver of %s" % g.name)}
                        else:
                            roots = fp.of(recv)
                    elif e.root[0] == "param":
                        a = binding.get(e.root[1])
                        if a is None:
                            roots = {("fresh", "default argument")}
                        else:
                            roots = fp.of(a)
                    elif e.root[0] == "fresh":
                        continue
                    else:
                        roots = {e.root}
                    vr: Set[Tuple] = set()
                    for v in e.value:
                        if v[0] == "self":
                            vr |= ({("fresh", "new object")} if recv == "fresh" else
                                   (fp.of(recv) if recv is not None else {("unknown", "receiver")}))
                        elif v[0] == "param":
                            a = binding.get(v[1])
                            vr |= fp.of(a) if a is not None else {("fresh", "default")}
                        else:
                            vr.add(v)
                    for r in roots:
                        out.append(Effect(e.kind, r, e.target, e.func, e.line, e.text, (f.qual,) + e.via,
                                          tuple(sorted(vr, key=str)), e.value_type))
        # drop effects on storage fresh in f
        res = []
        seen = set()
        for e in out:
            k = (e.kind, e.root, e.target, e.func, e.line)
            if k in seen:
                continue
            seen.add(k)
            res.append(e)
        self._summary[key] = res
        return res


class FuncProv:
    """Provenance of expressions inside one function (flow-sensitive through reaching definitions)."""

    def __init__(self, E: Effects, f: Func):
        self.E, self.f = E, f
        self.cfg = CFG(f.node)
        self.rd = self.cfg.reaching_defs(f.params)
        self._memo: Dict[int, Set[Tuple]] = {}
        self.self_name = f.self_name

    def of(self, e, _stack: Tuple[str, ...] = ()) -> Set[Tuple]:
        if isinstance(e, str):
            return {("fresh", e)}
        key = id(e)
        if key in self._memo:
            return self._memo[key]
        self._memo[key] = {("unknown", "cycle")}
        r = self._of(e, _stack)
        self._memo[key] = r
        return r

    def _of(self, e: ast.AST, _stack) -> Set[Tuple]:
        f = self.f
        if isinstance(e, ast.Name):
            if e.id == self.self_name:
                return {("self",)}
            node = self.cfg.node_containing(e)
            defs = self.rd.at(node, e.id) if node is not None else []
            if not defs:
                if e.id in f.params:
                    return {("param", e.id)}
                # comprehension variables: bound by the innermost enclosing comprehension that has the name as target
                if not hasattr(self, "_pm"):
                    from .cfg import parents_map as _pmf
                    self._pm = _pmf(f.node)
                cur = e
                while id(cur) in self._pm:
                    cur = self._pm[id(cur)]
                    if isinstance(cur, (ast.ListComp, ast.SetComp, ast.GeneratorExp, ast.DictComp)):
                        for n in cur.generators:
                            if any(isinstance(x, ast.Name) and x.id == e.id for x in ast.walk(n.target)):
                                return self._elements_target(n.target, n.iter, e.id, _stack) if hasattr(self, "_elements_target") \
                                    else self._elements(n.iter, _stack)
                for n in walk_no_nested(f.node):
                    if isinstance(n, ast.comprehension) and any(isinstance(x, ast.Name) and x.id == e.id for x in ast.walk(n.target)):
                        return self._elements(n.iter, _stack)
                if f.parent is not None and e.id in f.parent.params:
                    return {("param", e.id)}
                return {("global", e.id)}
            out: Set[Tuple] = set()
            for d in defs:
                if d.kind == "entry":
                    out.add(("param", e.id))
                    continue
                a = d.ast
                if isinstance(a, ast.Assign):
                    out |= self._from_assign(a, e.id, _stack)
                elif isinstance(a, ast.AnnAssign) and a.value is not None:
                    out |= self.of(a.value, _stack)
                elif isinstance(a, ast.AugAssign):
                    # x op= v keeps the object for arrays/lists
                    if isinstance(a.target, ast.Name):
                        out |= self._prev_of_aug(a, e.id, d, _stack)
                elif isinstance(a, (ast.For, ast.AsyncFor)):
                    out |= self._elements_target(a.target, a.iter, e.id, _stack)
                elif isinstance(a, ast.With):
                    for it in a.items:
                        if it.optional_vars is not None and any(isinstance(x, ast.Name) and x.id == e.id for x in ast.walk(it.optional_vars)):
                            out |= self.of(it.context_expr, _stack)
                elif isinstance(a, (ast.Import, ast.ImportFrom, ast.FunctionDef, ast.ClassDef)):
                    out.add(("global", e.id))
                else:
                    out.add(("unknown", norm(a)[:40]))
            return out or {("unknown", e.id)}
        if isinstance(e, ast.Attribute):
            # property getter that returns fresh storage?
            env = self.E.R.env(f)
            bt = self.E.R.expr_type(e.value, f, env)
            if bt and bt[0] == "cls":
                gs = [m for k, m in self.E.R.find_member(bt[1], e.attr, "getter") if k == "getter"]
                if gs:
                    out: Set[Tuple] = set()
                    for g in gs:
                        for r in self.E.returns(g, _stack):
                            out |= self._lift(r, e.value, {}, _stack)
                    return out
            ch = attr_chain(e)
            if ch and ch.split(".")[0] in ("np", "numpy", "os", "sys", "re"):
                return {("global", ch)}
            return self.of(e.value, _stack)
        if isinstance(e, ast.Subscript):
            env = self.E.R.env(f)
            bt = self.E.R.expr_type(e.value, f, env)
            if bt and bt[0] == "cls":
                gi = self.E.R.find_member(bt[1], "__getitem__", "method")
                if gi:
                    out = set()
                    for _, g in gi:
                        for r in self.E.returns(g, _stack):
                            out |= self._lift(r, e.value, {}, _stack)
                    return out
            return self.of(e.value, _stack)
        if isinstance(e, ast.Starred):
            return self.of(e.value, _stack)
        if isinstance(e, ast.Call):
            return self._call(e, _stack)
        if isinstance(e, (ast.List, ast.Tuple, ast.Set, ast.Dict, ast.ListComp, ast.SetComp, ast.DictComp,
                          ast.GeneratorExp, ast.Constant, ast.JoinedStr, ast.BinOp, ast.UnaryOp, ast.Compare,
                          ast.BoolOp, ast.Lambda)):
            if isinstance(e, ast.BoolOp):
                out = set()
                for v in e.values:
                    out |= self.of(v, _stack)
                return out
            out = {("fresh", type(e).__name__)}
            # containers are as fresh as their elements: what is reachable from them matters
            elems = []
            if isinstance(e, (ast.List, ast.Tuple, ast.Set)):
                elems = list(e.elts)
            elif isinstance(e, (ast.ListComp, ast.SetComp, ast.GeneratorExp)):
                elems = [e.elt]
            elif isinstance(e, ast.Dict):
                elems = [v for v in e.values if v is not None]
            elif isinstance(e, ast.DictComp):
                elems = [e.value]
            env = self.E.R.env(f)
            for x in elems:
                t = self.E.R.expr_type(x, f, env)
                if t and t[0] == "ext" and t[1] in ("int", "str", "float", "bool", "None", "NoneType"):
                    continue           # immutable scalars cannot be aliased harmfully
                out |= {r for r in self.of(x, _stack) if r[0] != "fresh"}
            if isinstance(e, ast.BinOp) and isinstance(e.op, ast.Add):
                # list concatenation keeps the elements of both operands
                env = self.E.R.env(f)
                for side in (e.left, e.right):
                    t = self.E.R.expr_type(side, f, env)
                    if t and t[0] in ("list", "tuple", "tuple*"):
                        out |= {r for r in self.of(side, _stack) if r[0] != "fresh"}
            return out
        if isinstance(e, ast.IfExp):
            return self.of(e.body, _stack) | self.of(e.orelse, _stack)
        if isinstance(e, ast.NamedExpr):
            return self.of(e.value, _stack)
        return {("unknown", norm(e)[:40])}

    def _from_assign(self, a: ast.Assign, name: str, _stack) -> Set[Tuple]:
        from .cfg import base_var
        if all(isinstance(t, (ast.Subscript, ast.Attribute)) for t in a.targets):
            return set()            # weak update of a container/attribute: the object stays the same
        for t in a.targets:
            if isinstance(t, ast.Name) and t.id == name:
                return self.of(a.value, _stack)
            if isinstance(t, (ast.Tuple, ast.List)):
                for i, el in enumerate(t.elts):
                    if isinstance(el, ast.Name) and el.id == name:
                        if isinstance(a.value, (ast.Tuple, ast.List)) and len(a.value.elts) == len(t.elts):
                            return self.of(a.value.elts[i], _stack)
                        return self._elements(a.value, _stack)
                    if isinstance(el, ast.Starred) and isinstance(el.value, ast.Name) and el.value.id == name:
                        return self._elements(a.value, _stack)
        return {("unknown", norm(a)[:40])}

    def _prev_of_aug(self, a: ast.AugAssign, name: str, dnode, _stack) -> Set[Tuple]:
        defs = self.rd.at(dnode, name)
        out: Set[Tuple] = set()
        seen = {dnode.id}
        todo = list(defs)
        while todo:
            d = todo.pop()
            if d.id in seen:
                continue
            seen.add(d.id)
            if d.kind == "entry":
                out.add(("param", name))
            elif isinstance(d.ast, ast.Assign):
                out |= self._from_assign(d.ast, name, _stack)
            elif isinstance(d.ast, ast.AnnAssign) and d.ast.value is not None:
                out |= self.of(d.ast.value, _stack)
            elif isinstance(d.ast, ast.AugAssign) and isinstance(d.ast.target, ast.Name):
                todo += self.rd.at(d, name)
            elif isinstance(d.ast, (ast.For,)):
                out |= self._elements_target(d.ast.target, d.ast.iter, name, _stack)
        return out or {("unknown", name)}

    def _elements_target(self, target, it, name, _stack) -> Set[Tuple]:
        # enumerate / zip: pick the component
        if isinstance(it, ast.Call) and isinstance(it.func, ast.Name) and it.func.id in ("enumerate", "zip") \
                and isinstance(target, (ast.Tuple, ast.List)):
            comps = ([None] + list(it.args[:1])) if it.func.id == "enumerate" else list(it.args)
            for i, el in enumerate(target.elts):
                if any(isinstance(x, ast.Name) and x.id == name for x in ast.walk(el)):
                    if i < len(comps) and comps[i] is not None:
                        return self._elements(comps[i], _stack)
                    return {("fresh", "index")}
        return self._elements(it, _stack)

    def _elements(self, it: ast.AST, _stack) -> Set[Tuple]:
        """Roots of the elements obtained by iterating ``it``."""
        f = self.f
        env = self.E.R.env(f)
        if isinstance(it, ast.Call) and isinstance(it.func, ast.Name) and it.func.id in ("range",):
            return {("fresh", "int")}
        if isinstance(it, ast.Call) and isinstance(it.func, ast.Name) and it.func.id in ("sorted", "list", "reversed", "tuple", "set", "enumerate", "zip", "islice_extended"):
            out = set()
            for a in it.args[:2 if it.func.id == "zip" else 1]:
                out |= self._elements(a, _stack)
            return out
        if isinstance(it, ast.Call) and isinstance(it.func, ast.Attribute) and it.func.attr in ("items", "values", "keys"):
            return self.of(it.func.value, _stack)
        if isinstance(it, ast.Call) and norm(it.func) in ("chain.from_iterable", "itertools.chain.from_iterable") and it.args:
            # the elements of the elements: same roots as the elements (containers are as fresh as what they hold)
            inner = self._elements(it.args[0], _stack)
            return inner
        if isinstance(it, ast.Call) and norm(it.func) in ("chain", "itertools.chain"):
            out = set()
            for a in it.args:
                out |= self._elements(a, _stack)
            return out
        bt = self.E.R.expr_type(it, f, env)
        if bt and bt[0] == "cls":
            im = self.E.R.find_member(bt[1], "__iter__", "method")
            if im:
                out = set()
                for _, g in im:
                    for r in self.E.returns(g, _stack):
                        out |= self._lift(r, it, {}, _stack)
                return out
        if isinstance(it, (ast.ListComp, ast.GeneratorExp)):
            return self.of(it.elt, _stack) if False else self._comp_elt(it, _stack)
        return self.of(it, _stack)

    def _comp_elt(self, comp, _stack):
        return self.of(comp.elt, _stack)

    def _lift(self, r: Tuple, recv: Optional[ast.AST], binding: Dict[str, ast.AST], _stack) -> Set[Tuple]:
        """Translate a callee-relative root into this function's terms."""
        if r[0] == "self":
            return self.of(recv, _stack) if recv is not None else {("unknown", "receiver")}
        if r[0] == "param":
            a = binding.get(r[1])
            return self.of(a, _stack) if a is not None else {("fresh", "default")}
        return {r}

    def _call(self, c: ast.Call, _stack) -> Set[Tuple]:
        f = self.f
        nm = call_name(c)
        full = norm(c.func)
        if full.split(".")[0] in ("np", "numpy", "scipy", "os", "re", "warnings"):
            if nm in NP_VIEW and c.args:
                return self.of(c.args[0], _stack)
            return {("fresh", full)}
        if isinstance(c.func, ast.Name) and nm in ("next", "last", "first") and c.args:
            return self._elements(c.args[0], _stack)
        if isinstance(c.func, ast.Name) and nm in ("getattr",) and c.args:
            return self.of(c.args[0], _stack)
        if nm == "__new__":
            return {("fresh", "__new__")}
        if full in ("chain.from_iterable", "itertools.chain.from_iterable", "chain", "itertools.chain", "iter", "enumerate", "zip",
                    "reversed", "islice", "itertools.islice", "islice_extended"):
            # a lazy view over its arguments' elements: fresh itself, but what it yields is what they hold
            return {("fresh", full)} | {r for r in self._elements(c, _stack) if r[0] != "fresh"}
        cs, status = self.E.R.callees(c, f)
        if cs:
            out: Set[Tuple] = set()
            for g in cs:
                if g.name == "__init__" and not (isinstance(c.func, ast.Attribute) and c.func.attr == "__init__"):
                    if g.cls is not None and self.E.is_view_class(g.cls):
                        # a view object: attribute stores on it land on the wrapped arguments
                        env = self.E.R.env(f)
                        for a in list(c.args) + [k.value for k in c.keywords]:
                            t = self.E.R.expr_type(a, f, env)
                            if t is None or self.E.is_coord_type(t):
                                out |= self.of(a, _stack)
                        if not out:
                            out.add(("fresh", g.cls.name))
                    else:
                        out.add(("fresh", g.cls.name if g.cls else "object"))
                        if g.cls is not None:
                            alias = self.E.ctor_alias_params(g.cls)
                            ps = g.params[1:]
                            for i, a in enumerate(c.args):
                                if isinstance(a, ast.Starred):
                                    break
                                if i < len(ps) and ps[i] in alias:
                                    out |= {r for r in self.of(a, _stack) if r[0] != "fresh"}
                            for k in c.keywords:
                                if k.arg in alias:
                                    out |= {r for r in self.of(k.value, _stack) if r[0] != "fresh"}
                    continue
                if g.qual in _stack:
                    out.add(("unknown", "recursion"))
                    continue
                recv = c.func.value if isinstance(c.func, ast.Attribute) else None
                params = g.params[1:] if g.kind in ("method", "classmeth") and g.params else g.params
                binding = {}
                for i, a in enumerate(c.args):
                    if isinstance(a, ast.Starred):
                        break
                    if i < len(params):
                        binding[params[i]] = a
                for k in c.keywords:
                    if k.arg:
                        binding[k.arg] = k.value
                for r in self.E.returns(g, _stack):
                    out |= self._lift(r, recv, binding, _stack)
            return out
        if isinstance(c.func, ast.Name) and nm in ("list", "sorted", "tuple", "set", "reversed", "deque", "frozenset") and c.args:
            env = self.E.R.env(f)
            t = self.E.R.expr_type(c.args[0], f, env)
            if t == ("ext", "ndarray") or (t and t[0] == "ext"):
                return {("fresh", nm)}
            return {("fresh", nm)} | {r for r in self._elements(c.args[0], _stack) if r[0] != "fresh"}
        if status == "external" or nm in NP_FRESH:
            if isinstance(c.func, ast.Attribute) and nm in NP_VIEW:
                return self.of(c.func.value, _stack)
            if isinstance(c.func, ast.Attribute) and nm in ("get", "pop", "setdefault", "popleft", "__getitem__"):
                return self.of(c.func.value, _stack)
            return {("fresh", full[:40])}
        return {("unknown", full[:40])}
