"""Shared query helpers over the parsed package."""
from __future__ import annotations

import ast
from typing import Dict, Iterable, List, Optional, Set, Tuple

from .cfg import (CFG, call_name, calls_in, walk_no_nested, attr_chain, parents_map,
                  guards_of, names_loaded)
from .core import AnalysisError, Ctx, Func, Repo, norm


def who_calls(repo: Repo, name: str) -> List[Tuple[Func, ast.Call]]:
    """Every call site in the package whose callee's last name component is ``name``."""
    out = []
    for f in repo.funcs.values():
        if f.parent is not None:
            continue
        for c in calls_in(f.node, nested=True):
            if call_name(c) == name:
                out.append((f, c))
    # module-level calls
    for m in repo.modules.values():
        for st in m.node.body:
            if isinstance(st, (ast.FunctionDef, ast.AsyncFunctionDef, ast.ClassDef)):
                continue
            for c in calls_in(st, nested=True):
                if call_name(c) == name:
                    out.append((None, c))
    return out


def branch_raises(stmts: List[ast.stmt]) -> bool:
    """Every path through ``stmts`` ends in a raise."""
    from .cfg import enum_paths
    ps = enum_paths(stmts)
    return bool(ps) and all(p.end == "raise" for p in ps)


def branch_never_falls(stmts: List[ast.stmt]) -> bool:
    from .cfg import enum_paths
    ps = enum_paths(stmts)
    return bool(ps) and all(p.end in ("raise", "return", "continue", "break") for p in ps)


def assigns_to(fn: ast.AST, var: str) -> List[ast.stmt]:
    out = []
    for st in walk_no_nested(fn):
        if isinstance(st, ast.Assign):
            for t in st.targets:
                if norm(t) == var or (isinstance(t, (ast.Tuple, ast.List))
                                      and any(norm(e) == var for e in t.elts)):
                    out.append(st)
        elif isinstance(st, (ast.AugAssign, ast.AnnAssign)) and norm(st.target) == var:
            if not (isinstance(st, ast.AnnAssign) and st.value is None):
                out.append(st)
    out.sort(key=lambda s: (s.lineno, s.col_offset))
    return out


def stmts_sorted(fn: ast.AST) -> List[ast.stmt]:
    out = [s for s in walk_no_nested(fn) if isinstance(s, ast.stmt) and s is not fn]
    out.sort(key=lambda s: (s.lineno, s.col_offset))
    return out


def local_callgraph(repo: Repo) -> Dict[str, Set[str]]:
    """Name-based may-call graph: caller qual -> callee quals (all functions/methods of that
    name anywhere in the package; property reads are not calls here)."""
    by_name: Dict[str, List[Func]] = {}
    for f in repo.funcs.values():
        by_name.setdefault(f.name, []).append(f)
    g: Dict[str, Set[str]] = {}
    for f in repo.funcs.values():
        outs: Set[str] = set()
        for c in calls_in(f.node, nested=False):
            nm = call_name(c)
            if isinstance(c.func, ast.Name):
                # plain name: module-level function, nested function or class constructor
                cands = [x for x in by_name.get(nm, []) if x.kind in ("func", "static") or x.parent is f]
                ctor = [k for k in repo.classes.values() if k.name == nm]
                for k in ctor:
                    init = repo.lookup_member(k, "__init__", "method")
                    if init:
                        outs.add(init.qual)
                # local alias `_x = x`
                if not cands and not ctor:
                    for st in walk_no_nested(f.node):
                        if isinstance(st, ast.Assign) and isinstance(st.targets[0], ast.Name) \
                                and st.targets[0].id == nm and isinstance(st.value, (ast.Name, ast.Attribute)):
                            tgt = st.value.id if isinstance(st.value, ast.Name) else st.value.attr
                            cands += [x for x in by_name.get(tgt, [])]
                            for k in repo.classes.values():
                                if k.name == tgt:
                                    for special in ("__init__", "__call__"):
                                        m = repo.lookup_member(k, special, "method")
                                        if m:
                                            outs.add(m.qual)
                for x in cands:
                    outs.add(x.qual)
            else:
                for x in by_name.get(nm, []):
                    if x.cls is not None:
                        outs.add(x.qual)
                    elif isinstance(c.func, ast.Attribute) and isinstance(c.func.value, ast.Name) \
                            and c.func.value.id not in ("self",):
                        outs.add(x.qual)
        g[f.qual] = outs
    return g


def reachable(g: Dict[str, Set[str]], start: Iterable[str]) -> Set[str]:
    seen, todo = set(), list(start)
    while todo:
        q = todo.pop()
        if q in seen:
            continue
        seen.add(q)
        todo.extend(g.get(q, ()))
    return seen


def cycles_reachable(g: Dict[str, Set[str]], start: str) -> List[List[str]]:
    """Simple cycles (as node lists) among nodes reachable from ``start``."""
    reach = reachable(g, [start])
    out, color, stack = [], {}, []

    def dfs(u):
        color[u] = 1
        stack.append(u)
        for v in sorted(g.get(u, ())):
            if v not in reach:
                continue
            if color.get(v, 0) == 0:
                dfs(v)
            elif color.get(v) == 1:
                out.append(stack[stack.index(v):] + [v])
        stack.pop()
        color[u] = 2
    import sys
    sys.setrecursionlimit(10000)
    dfs(start)
    return out


def loop_body_of(fn: ast.AST, pred) -> Optional[ast.stmt]:
    for n in walk_no_nested(fn):
        if isinstance(n, (ast.For, ast.While)) and pred(n):
            return n
    return None


def is_none_const(e: ast.AST) -> bool:
    return isinstance(e, ast.Constant) and e.value is None


def dominates(cfg: CFG, a_stmt: ast.AST, b_stmt: ast.AST, dom=None) -> bool:
    dom = dom or cfg.dominators()
    return cfg.node_of(a_stmt).id in dom[cfg.node_of(b_stmt).id]



def expand_path_aliases(stmts):
    """The statements of one path with every read of a local replaced by the value it was last bound to on that path,
    when that value is a plain name / attribute / subscript chain (an alias).  Along a single path this is exact."""
    import copy
    from .core import _pure_chain
    env = {}
    out = []
    for st in stmts:
        class R(ast.NodeTransformer):
            def visit_Name(self, n):
                if isinstance(n.ctx, ast.Load) and n.id in env:
                    return copy.deepcopy(env[n.id])
                return n
        if isinstance(st, ast.Assign) and len(st.targets) == 1 and isinstance(st.targets[0], ast.Name):
            val = R().visit(copy.deepcopy(st.value))
            name = st.targets[0].id
            if _pure_chain(val) and isinstance(val, (ast.Subscript, ast.Attribute)):
                env[name] = val
                continue
            env.pop(name, None)
            new = copy.copy(st)
            new.value = val
            out.append(ast.copy_location(new, st))
            continue
        if isinstance(st, (ast.Expr, ast.AugAssign, ast.Return)) or (isinstance(st, ast.Assign)):
            new = R().visit(copy.deepcopy(st))
            out.append(ast.copy_location(new, st))
            # a store into a name kills its alias
            for x in ast.walk(st):
                if isinstance(x, ast.Name) and isinstance(x.ctx, ast.Store):
                    env.pop(x.id, None)
            continue
        out.append(st)
    return out
