"""Shared query helpers over the parsed package."""
from __future__ import annotations

import ast
from typing import Dict, Iterable, List, Optional, Set, Tuple

from .cfg import (CFG, call_name, calls_in, walk_no_nested, attr_chain, parents_map,
                  guards_of, names_loaded)
from .core import AnalysisError, Ctx, Func, Repo, norm


def who_calls(repo: Repo, name: str) -> List[Tuple[Func, ast.Call]]:
    """Every call site in the package whose callee's last name component is ``name``."""
    out = []
    for f in repo.funcs.values():
        if f.parent is not None:
            continue
        for c in calls_in(f.node, nested=True):
            if call_name(c) == name:
                out.append((f, c))
    # module-level calls
    for m in repo.modules.values():
        for st in m.node.body:
            if isinstance(st, (ast.FunctionDef, ast.AsyncFunctionDef, ast.ClassDef)):
                continue
            for c in calls_in(st, nested=True):
                if call_name(c) == name:
                    out.append((None, c))
    return out


def branch_raises(stmts: List[ast.stmt]) -> bool:
    """Every path through ``stmts`` ends in a raise."""
    from .cfg import enum_paths
    ps = enum_paths(stmts)
    return bool(ps) and all(p.end == "raise" for p in ps)


def branch_never_falls(stmts: List[ast.stmt]) -> bool:
    from .cfg import enum_paths
    ps = enum_paths(stmts)
    return bool(ps) and all(p.end in ("raise", "return", "continue", "break") for p in ps)


def assigns_to(fn: ast.AST, var: str) -> List[ast.stmt]:
    out = []
    for st in walk_no_nested(fn):
        if isinstance(st, ast.Assign):
            for t in st.targets:
                if norm(t) == var or (isinstance(t, (ast.Tuple, ast.List))
                                      and any(norm(e) == var for e in t.elts)):
                    out.append(st)
        elif isinstance(st, (ast.AugAssign, ast.AnnAssign)) and norm(st.target) == var:
            if not (isinstance(st, ast.AnnAssign) and st.value is None):
                out.append(st)
    out.sort(key=lambda s: (s.lineno, s.col_offset))
    return out


def stmts_sorted(fn: ast.AST) -> List[ast.stmt]:
    out = [s for s in walk_no_nested(fn) if isinstance(s, ast.stmt) and s is not fn]
    out.sort(key=lambda s: (s.lineno, s.col_offset))
    return out


def local_callgraph(repo: Repo) -> Dict[str, Set[str]]:
    """Name-based may-call graph: caller qual -> callee quals (all functions/methods of that
    name anywhere in the package; property reads are not calls here)."""
    by_name: Dict[str, List[Func]] = {}
    for f in repo.funcs.values():
        by_name.setdefault(f.name, []).append(f)
    g: Dict[str, Set[str]] = {}
    for f in repo.funcs.values():
        outs: Set[str] = set()
        for c in calls_in(f.node, nested=False):
            nm = call_name(c)
            if isinstance(c.func, ast.Name):
                # plain name: module-level function, nested function or class constructor
                cands = [x for x in by_name.get(nm, []) if x.kind in ("func", "static") or x.parent is f]
                ctor = [k for k in repo.classes.values() if k.name == nm]
                for k in ctor:
                    init = repo.lookup_member(k, "__init__", "method")
                    if init:
                        outs.add(init.qual)
                # local alias `_x = x`
                if not cands and not ctor:
                    for st in walk_no_nested(f.node):
                        if isinstance(st, ast.Assign) and isinstance(st.targets[0], ast.Name) \
                                and st.targets[0].id == nm and isinstance(st.value, (ast.Name, ast.Attribute)):
                            tgt = st.value.id if isinstance(st.value, ast.Name) else st.value.attr
                            cands += [x for x in by_name.get(tgt, [])]
                            for k in repo.classes.values():
                                if k.name == tgt:
                                    for special in ("__init__", "__call__"):
                                        m = repo.lookup_member(k, special, "method")
                                        if m:
                                            outs.add(m.qual)
                for x in cands:
                    outs.add(x.qual)
            else:
                for x in by_name.get(nm, []):
                    if x.cls is not None:
                        outs.add(x.qual)
                    elif isinstance(c.func, ast.Attribute) and isinstance(c.func.value, ast.Name) \
                            and c.func.value.id not in ("self",):
                        outs.add(x.qual)
        g[f.qual] = outs
    return g


def reachable(g: Dict[str, Set[str]], start: Iterable[str]) -> Set[str]:
    seen, todo = set(), list(start)
    while todo:
        q = todo.pop()
        if q in seen:
            continue
        seen.add(q)
        todo.extend(g.get(q, ()))
    return seen


def cycles_reachable(g: Dict[str, Set[str]], start: str) -> List[List[str]]:
    """Simple cycles (as node lists) among nodes reachable from ``start``."""
    reach = reachable(g, [start])
    out, color, stack = [], {}, []

    def dfs(u):
        color[u] = 1
        stack.append(u)
        for v in sorted(g.get(u, ())):
            if v not in reach:
                continue
            if color.get(v, 0) == 0:
                dfs(v)
            elif color.get(v) == 1:
                out.append(stack[stack.index(v):] + [v])
        stack.pop()
        color[u] = 2
    import sys
    sys.setrecursionlimit(10000)
    dfs(start)
    return out


def loop_body_of(fn: ast.AST, pred) -> Optional[ast.stmt]:
    for n in walk_no_nested(fn):
        if isinstance(n, (ast.For, ast.While)) and pred(n):
            return n
    return None


def is_none_const(e: ast.AST) -> bool:
    return isinstance(e, ast.Constant) and e.value is None


def dominates(cfg: CFG, a_stmt: ast.AST, b_stmt: ast.AST, dom=None) -> bool:
    dom = dom or cfg.dominators()
    return cfg.node_of(a_stmt).id in dom[cfg.node_of(b_stmt).id]



def expand_path_aliases(stmts):
    """The statements of one path with every read of a local replaced by the value it was last bound to on that path,
    when that value is a plain name / attribute / subscript chain (an alias).  Along a single path this is exact."""
    import copy
    from .core import _pure_chain
    env = {}
    out = []
    for st in stmts:
        class R(ast.NodeTransformer):
            def visit_Name(self, n):
                if isinstance(n.ctx, ast.Load) and n.id in env:
                    return copy.deepcopy(env[n.id])
                return n
        if isinstance(st, ast.Assign) and len(st.targets) == 1 and isinstance(st.targets[0], ast.Name):
            val = R().visit(copy.deepcopy(st.value))
            name = st.targets[0].id
            if _pure_chain(val) and isinstance(val, (ast.Subscript, ast.Attribute)):
                env[name] = val
                continue
            env.pop(name, None)
            new = copy.copy(st)
            new.value = val
            out.append(ast.copy_location(new, st))
            continue
        if isinstance(st, (ast.Expr, ast.AugAssign, ast.Return)) or (isinstance(st, ast.Assign)):
            new = R().visit(copy.deepcopy(st))
            out.append(ast.copy_location(new, st))
            # a store into a name kills its alias
            for x in ast.walk(st):
                if isinstance(x, ast.Name) and isinstance(x.ctx, ast.Store):
                    env.pop(x.id, None)
            continue
        out.append(st)
    return out


_MUTABLE_CTORS = ("dict", "list", "set", "defaultdict", "OrderedDict", "deque", "Counter", "zeros", "ones", "eye", "identity", "empty",
                  "array", "arange", "zeros_like", "WeakKeyDictionary", "WeakValueDictionary")


def _is_mutable_container(v: Optional[ast.AST]) -> bool:
    return isinstance(v, (ast.Dict, ast.List, ast.Set, ast.DictComp, ast.ListComp, ast.SetComp)) or \
        (isinstance(v, ast.Call) and call_name(v) in _MUTABLE_CTORS)


_VALUE_WRAPPERS = ("tuple", "frozenset", "float", "int", "str", "bytes", "round", "sorted", "tobytes", "tolist")
_MUTATORS = ("append", "add", "update", "setdefault", "pop", "clear", "extend", "insert", "remove", "discard", "popitem", "move_to_end")
_FILE_READERS = ("open", "open_coordinate_file", "from_files", "from_file", "read_topology", "loadtxt", "genfromtxt", "load", "getmtime",
                 "getsize", "stat", "listdir", "readlines", "read")


def _feeding_params(fn: ast.AST, e: ast.AST, params: Set[str], by_value_only: bool, depth: int = 0) -> Tuple[Set[str], bool]:
    """(parameters of fn that feed expression e through once-bound locals, whether e also depends on something that is not a
    parameter value: self state, a file, a call on the outside world).  With by_value_only, a parameter counts only where its
    VALUE is used (bare, or under tuple()/float()/...), not where only its identity, length, name or an attribute is."""
    from .pat import single_defs
    sd = single_defs(fn)
    out: Set[str] = set()
    outside = False

    def visit(n, d):
        nonlocal outside
        if d > 6:
            outside = True
            return
        if isinstance(n, ast.Name):
            if n.id in params:
                out.add(n.id)
            elif n.id in sd:
                visit(sd[n.id], d + 1)
            elif n.id == "self" or n.id == "cls":
                outside = True
            return
        if isinstance(n, ast.Call):
            nm = call_name(n)
            if by_value_only and nm in ("id", "len", "hash", "type", "getattr", "hasattr"):
                return                                    # identity / size / type of the argument, not its value
            if nm in _FILE_READERS:
                outside = True
            if by_value_only and isinstance(n.func, ast.Name) and nm in _VALUE_WRAPPERS:
                for a in n.args:
                    visit(a, d)
                return
            if by_value_only:
                return                                    # any other call: not known to preserve the value
        if isinstance(n, ast.Attribute) and by_value_only:
            return                                        # x.name, x.shape ... do not determine x
        if isinstance(n, ast.Attribute) and isinstance(n.value, ast.Name) and n.value.id in ("self", "cls"):
            outside = True
        for ch in ast.iter_child_nodes(n):
            visit(ch, d)
    visit(e, depth)
    return out, outside


def persistent_state(ctx: Ctx, rule: str, funcs: List[Func], what: str):
    """`what` is a function of its arguments (and of the files it is told to read) at the time of the call.  The functions
    given - with the helpers they call - may keep a table between calls only if its key determines the value: every
    parameter that feeds a stored value is part of the key BY VALUE (not by identity, length, name or path), and the value
    depends on nothing else (no file contents, no object state).  Looked at: module-level containers, containers bound in
    a class body (one object for all instances), memoising decorators.  A table that is only written (never consulted by
    these functions) is not state."""
    seen: Set[str] = set()
    todo = []
    for f0 in funcs:
        for h in ctx.with_helpers(f0):
            if h.qual not in seen:
                seen.add(h.qual)
                todo.append(h)
    for h, bad, fine in persistent_findings(ctx.repo, todo):
        ctx.ob(rule, h, "tables kept between calls by %s: %s" % (h.name, bad or fine or "none"), not bad,
               "%s depends only on its arguments and on what it reads during the call: a table kept between calls must be "
               "keyed by everything its entries are computed from" % what + ("" if not bad else " -- " + bad[0]), node=h.node)
    # positive fixture: an identity-keyed module table, a class-level table of file contents and a memoised file reader must
    # be found; a value-keyed memo and a write-only log must not
    from .fixtures import check_fixture, fixture_repo
    check_fixture(ctx, rule, "persistent.py",
                  lambda repo: sum(1 for _h, b_, _f in persistent_findings(repo, list(repo.funcs.values())) if b_), expect_exact=3)


def persistent_findings(repo: Repo, todo: List[Func]):
    """[(function, reasons it keeps state that its key does not determine, tables that are fine)]"""
    from .effects import Effects
    E = Effects(repo)
    out_ = []
    for h in todo:
        mod = h.module.node
        mod_mut = {t.id for st in mod.body if isinstance(st, (ast.Assign, ast.AnnAssign)) and getattr(st, "value", None) is not None
                   for t in (st.targets if isinstance(st, ast.Assign) else [st.target]) if isinstance(t, ast.Name) and _is_mutable_container(st.value)}
        cls_mut: Set[str] = set()
        inst: Set[str] = set()
        if h.cls is not None:
            cls_mut = {t.id for st in h.cls.node.body if isinstance(st, (ast.Assign, ast.AnnAssign)) and getattr(st, "value", None) is not None
                       for t in (st.targets if isinstance(st, ast.Assign) else [st.target]) if isinstance(t, ast.Name) and _is_mutable_container(st.value)}
            inst = {x.attr for m in h.cls.methods.values() for x in ast.walk(m.node) if isinstance(x, ast.Attribute) and isinstance(x.ctx, ast.Store)
                    and isinstance(x.value, ast.Name) and x.value.id == "self"}
        local = {a.arg for a in h.node.args.posonlyargs + h.node.args.args + h.node.args.kwonlyargs} | \
            {x.id for x in ast.walk(h.node) if isinstance(x, ast.Name) and isinstance(x.ctx, ast.Store)}
        params = {a.arg for a in h.node.args.posonlyargs + h.node.args.args + h.node.args.kwonlyargs} - {"self", "cls"}

        def persistent(e) -> Optional[str]:
            if isinstance(e, ast.Name) and e.id in mod_mut and e.id not in local:
                return e.id
            if isinstance(e, ast.Attribute) and isinstance(e.value, ast.Name) and h.cls is not None \
                    and e.value.id in ("self", "cls", h.cls.name) and e.attr in cls_mut and e.attr not in inst:
                return "%s.%s" % (h.cls.name, e.attr)
            return None
        stores, unkeyed, reads = [], [], set()
        for x in walk_no_nested(h.node):
            if isinstance(x, (ast.Assign, ast.AugAssign)):
                for t in (x.targets if isinstance(x, ast.Assign) else [x.target]):
                    if isinstance(t, ast.Subscript) and persistent(t.value):
                        stores.append((persistent(t.value), t.slice, x.value, x))
            if isinstance(x, ast.Call) and isinstance(x.func, ast.Attribute) and x.func.attr in _MUTATORS and persistent(x.func.value):
                if x.func.attr == "setdefault" and len(x.args) == 2:
                    stores.append((persistent(x.func.value), x.args[0], x.args[1], x))
                else:
                    unkeyed.append((persistent(x.func.value), x))
        for g in todo:
            pm_g = parents_map(g.node)
            for x in walk_no_nested(g.node):
                par_ = pm_g.get(id(x))
                if isinstance(par_, ast.Attribute) and par_.attr in _MUTATORS and par_.attr not in ("pop", "setdefault", "popitem") \
                        and isinstance(pm_g.get(id(par_)), ast.Call) and pm_g[id(par_)].func is par_:
                    continue                           # receiver of a pure mutation: not a consultation
                if isinstance(par_, ast.Subscript) and isinstance(par_.ctx, ast.Store) and par_.value is x:
                    continue
                if isinstance(x, (ast.Name, ast.Attribute)) and isinstance(x.ctx, ast.Load):
                    nm = None
                    if isinstance(x, ast.Name) and x.id in mod_mut and g.module is h.module:
                        nm = x.id
                    elif isinstance(x, ast.Attribute) and isinstance(x.value, ast.Name) and h.cls is not None and g.cls is h.cls \
                            and x.value.id in ("self", "cls", h.cls.name) and x.attr in cls_mut:
                        nm = "%s.%s" % (h.cls.name, x.attr)
                    if nm:
                        reads.add(nm)
        bad, fine = [], []
        from .pat import single_defs as _sd_
        sd_h = _sd_(h.node)

        def names_of(e, by_value):
            out_, outside_ = set(), False

            def v_(n):
                nonlocal outside_
                if isinstance(n, ast.Name):
                    if n.id in ("self", "cls"):
                        outside_ = True
                    elif n.id in params or n.id in sd_h or n.id in local:
                        out_.add(n.id)
                    return
                if isinstance(n, ast.Call):
                    nm_ = call_name(n)
                    if nm_ in _FILE_READERS:
                        outside_ = True
                    if by_value:
                        if isinstance(n.func, ast.Name) and nm_ in _VALUE_WRAPPERS:
                            for a_ in n.args:
                                v_(a_)
                        return
                if isinstance(n, ast.Attribute) and by_value:
                    return
                for ch in ast.iter_child_nodes(n):
                    v_(ch)
            v_(e)
            return out_, outside_

        def key_complete(val, key):
            """(missing inputs, depends on the outside world): names the value is computed from that the key does not hold by
            value, followed through once-bound locals"""
            knames, _ = names_of(key, True)
            # a key held in a once-bound local: its own ingredients count
            for k_ in list(knames):
                if k_ in sd_h and k_ not in params:
                    more, _ = names_of(sd_h[k_], True)
                    knames |= more
            work, _o = names_of(val, False)
            outside_ = _o
            missing, done = set(), set()
            work = list(work)
            while work:
                n_ = work.pop()
                if n_ in done or n_ in knames:
                    continue
                done.add(n_)
                if n_ in params:
                    missing.add(n_)
                elif n_ in sd_h:
                    more, o2 = names_of(sd_h[n_], False)
                    outside_ = outside_ or o2
                    work.extend(more)
                else:
                    missing.add(n_)                   # a local bound more than once: not determined by the key
            return missing, outside_
        def with_alias_growth(val, st):
            """the stored object is also known under a local name and filled in afterwards: what is put into it counts"""
            aliases = set()
            if isinstance(val, ast.Name):
                aliases.add(val.id)
            if isinstance(st, ast.Assign):
                aliases |= {t.id for t in st.targets if isinstance(t, ast.Name)}
            extra = []
            for x in walk_no_nested(h.node):
                if isinstance(x, ast.Call) and isinstance(x.func, ast.Attribute) and x.func.attr in _MUTATORS \
                        and isinstance(x.func.value, ast.Name) and x.func.value.id in aliases:
                    extra += list(x.args)
                if isinstance(x, (ast.Assign, ast.AugAssign)):
                    for t in (x.targets if isinstance(x, ast.Assign) else [x.target]):
                        if isinstance(t, ast.Subscript) and isinstance(t.value, ast.Name) and t.value.id in aliases:
                            extra.append(x.value)
            return ast.Tuple([val] + extra, ast.Load()) if extra else val
        pm_h = parents_map(h.node)

        def miss_block(st, nm):
            """the block that fills the table on a miss (`if key not in TABLE:` ...): everything read there feeds the entry"""
            cur = st
            while id(cur) in pm_h:
                cur = pm_h[id(cur)]
                if isinstance(cur, ast.If) and nm.split(".")[-1] in norm(cur.test):
                    reads_ = [x for b_ in cur.body + cur.orelse for x in ast.walk(b_) if isinstance(x, (ast.Name, ast.Call, ast.Attribute))
                              and not (isinstance(x, ast.Name) and isinstance(x.ctx, ast.Store))]
                    return ast.Tuple([x for x in reads_ if isinstance(x, (ast.Name, ast.Call))], ast.Load())
            return None
        for nm, key, val, st in stores:
            blk_ = miss_block(st, nm)
            full_val = with_alias_growth(val, st)
            if blk_ is not None:
                full_val = ast.Tuple([full_val, blk_], ast.Load())
            miss_, vout = key_complete(full_val, key)
            vin, kin = miss_, set()
            if vout:
                bad.append("`%s`: the stored value depends on more than the arguments (file contents / object state), which no key can "
                           "determine" % norm(st)[:70])
            elif miss_:
                bad.append("`%s`: the stored value depends on %s, which the key does not hold by value" % (norm(st)[:70], sorted(miss_)))
            else:
                fine.append("%s keyed by every input" % nm)
        for nm, x in unkeyed:
            if nm in reads and x.func.attr not in ("clear",):
                bad.append("`%s`: %s accumulates across calls and is consulted" % (norm(x)[:60], nm))
        wr_other = [e.describe() for e in E.direct(h) if e.root[0] == "global" and e.kind == "ATTR_STORE"]
        bad += wr_other
        for d in h.node.decorator_list:
            t = norm(d)
            if any(k in t for k in ("lru_cache", "functools.cache", "memoize")) or t == "cache":
                _, outside = _feeding_params(h.node, ast.Module(body=list(h.node.body), type_ignores=[]), params, False)
                if outside:
                    bad.append("@%s on a function whose result depends on more than its arguments (file contents / object state)" % t)
                else:
                    fine.append("@%s on a function of its arguments" % t)
        out_.append((h, bad, fine))
    return out_


# ----------------------------------------------------------------------------------------------------------------
# one-shot iterators consumed inside a loop that does not create them

_ONE_SHOT = {"filter", "map", "zip", "iter", "reversed", "enumerate"}
_NON_CONSUMING = {"isinstance", "print", "type", "id", "callable"}


def reused_iterator_sites(fn: ast.AST):
    """[(binding, use, loop)]: a name bound exactly once in the function to a one-shot iterator (filter / map / zip / iter /
    reversed / enumerate call, or a generator expression), outside the loop, and consumed inside the loop's body (iterated,
    passed to a call, tested with `in`, advanced with next): from the second iteration on the loop sees what the first
    left - usually nothing."""
    import ast as _a
    from .cfg import walk_no_nested, parents_map, ancestors
    binds = {}
    for s in walk_no_nested(fn):
        for n in _a.walk(s) if isinstance(s, (_a.Assign, _a.AugAssign, _a.AnnAssign, _a.For, _a.With, _a.NamedExpr)) else ():
            if isinstance(n, _a.Name) and isinstance(n.ctx, _a.Store):
                binds.setdefault(n.id, []).append(s)
    args = {a.arg for a in fn.args.args + fn.args.kwonlyargs} if hasattr(fn, "args") else set()
    pm = parents_map(fn)
    out = []
    for name, bs in binds.items():
        if len(bs) != 1 or name in args:
            continue
        b = bs[0]
        if not (isinstance(b, _a.Assign) and len(b.targets) == 1 and isinstance(b.targets[0], _a.Name)):
            continue
        v = b.value
        one_shot = isinstance(v, _a.GeneratorExp) or (isinstance(v, _a.Call) and isinstance(v.func, _a.Name) and v.func.id in _ONE_SHOT)
        if not one_shot:
            continue
        b_loops = [a for a in ancestors(b, pm) if isinstance(a, (_a.For, _a.While))]
        for n in _a.walk(fn):
            if not (isinstance(n, _a.Name) and n.id == name and isinstance(n.ctx, _a.Load)):
                continue
            par = pm.get(id(n))
            consuming = False
            if isinstance(par, (_a.For, _a.comprehension)) and par.iter is n:
                consuming = True
            elif isinstance(par, _a.Call) and n in par.args and not (isinstance(par.func, _a.Name) and par.func.id in _NON_CONSUMING):
                consuming = True
            elif isinstance(par, _a.Compare) and n in par.comparators and any(isinstance(o, (_a.In, _a.NotIn)) for o in par.ops):
                consuming = True
            elif isinstance(par, _a.Starred):
                consuming = True
            if not consuming:
                continue
            loops = [a for a in ancestors(n, pm) if isinstance(a, (_a.For, _a.While)) and a not in b_loops
                     and not (isinstance(a, _a.For) and a.iter is n)]
            # a comprehension around the use with its own outer `for` is a loop as well
            comp = [a for a in ancestors(n, pm) if isinstance(a, (_a.ListComp, _a.SetComp, _a.DictComp, _a.GeneratorExp))
                    and not any(g.iter is n for g in a.generators[:1])]
            if loops:
                # an unconditional break right after the use leaves a single iteration: not reported
                lp = loops[0]
                last = lp.body[-1] if lp.body else None
                if isinstance(last, _a.Break):
                    continue
                out.append((b, n, lp))
            elif comp and any(g.iter is not n for g in comp[0].generators[:1]):
                out.append((b, n, comp[0]))
    return out


def reused_iterators(ctx, rule: str, funcs, what: str):
    from .fixtures import check_fixture
    from .core import norm
    check_fixture(ctx, rule, "oneshot.py", lambda repo: sum(len(reused_iterator_sites(f_.node)) for f_ in repo.funcs.values()), expect_exact=3)
    n = 0
    for f in funcs:
        ctx.seen(f)
        hits = reused_iterator_sites(f.node)
        for b, use, lp in hits:
            n += 1
            ctx.ob(rule, f, b, False,
                   "%s gives every iteration the same candidates -- `%s` is a one-shot iterator created once (line %d) and consumed "
                   "inside the loop at line %d: after the first pass it is exhausted (or advanced), so later iterations see fewer "
                   "candidates and the outcome depends on the order of the loop" % (what, norm(b)[:70], b.lineno, use.lineno), node=b)
        if not hits:
            ctx.ob(rule, f, "one-shot iterators", True, "no one-shot iterator (filter/map/zip/iter/generator expression) created outside "
                   "a loop is consumed inside it", node=f.node)
    return n
