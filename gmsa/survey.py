"""Generic mutant survey (exploration aid, not a verdict).

Applies generic AST mutation operators to every function that at least one property analyses, runs the
checks of those properties on a scratch copy (analysis only, nothing is executed) and records which
rules fire.  Survivors are candidates for manual triage: either the mutant does not break the property
(equivalent / out of scope) or a rule is missing.

usage: tools/mutant_survey.py [--out survey.json] [--jobs 16] [--only C09,C07] [--limit N]
"""
import argparse
import ast
import copy
import json
import os
import shutil
import sys
import tempfile
import time
from concurrent.futures import ProcessPoolExecutor

HERE = os.path.dirname(os.path.dirname(os.path.abspath(__file__)))

from .core import Repo, norm

PROPS = ["C%02d" % i for i in range(1, 21)]
SKIP_MODULES = ("gaddlemaps._represent", "gaddlemaps.__main__")

CMP = {ast.Lt: ast.LtE, ast.LtE: ast.Lt, ast.Gt: ast.GtE, ast.GtE: ast.Gt, ast.Eq: ast.NotEq, ast.NotEq: ast.Eq,
       ast.In: ast.NotIn, ast.NotIn: ast.In, ast.Is: ast.IsNot, ast.IsNot: ast.Is}
BIN = {ast.Add: ast.Sub, ast.Sub: ast.Add, ast.Mult: ast.Div, ast.Div: ast.Mult, ast.FloorDiv: ast.Mult}


def mutants_of(func_node):
    """Yield (description, mutated copy of func_node)."""
    nodes = list(ast.walk(func_node))
    for i, n in enumerate(nodes):
        def clone(edit):
            c = copy.deepcopy(func_node)
            m = list(ast.walk(c))[i]
            return edit(m, c)
        if isinstance(n, ast.Compare) and len(n.ops) == 1 and type(n.ops[0]) in CMP:
            def e(m, c):
                m.ops = [CMP[type(m.ops[0])]()]
                return c
            yield ("cmp %s -> %s @%d: %s" % (type(n.ops[0]).__name__, CMP[type(n.ops[0])].__name__, n.lineno, norm(n)[:60]), clone(e))
        if isinstance(n, ast.BinOp) and type(n.op) in BIN and not isinstance(n.left, ast.Constant) or \
                isinstance(n, ast.BinOp) and type(n.op) in BIN and isinstance(n.left, ast.Constant) and not isinstance(n.left.value, str):
            def e(m, c):
                m.op = BIN[type(m.op)]()
                return c
            yield ("binop %s -> %s @%d: %s" % (type(n.op).__name__, BIN[type(n.op)].__name__, n.lineno, norm(n)[:60]), clone(e))
        if isinstance(n, ast.AugAssign) and type(n.op) in BIN:
            def e(m, c):
                m.op = BIN[type(m.op)]()
                return c
            yield ("augop %s -> %s @%d: %s" % (type(n.op).__name__, BIN[type(n.op)].__name__, n.lineno, norm(n)[:60]), clone(e))
        if isinstance(n, ast.Constant) and isinstance(n.value, int) and not isinstance(n.value, bool):
            def e(m, c):
                m.value = m.value + 1
                return c
            yield ("const %d -> %d @%d" % (n.value, n.value + 1, n.lineno), clone(e))
        if isinstance(n, (ast.If, ast.While)) and not isinstance(n.test, ast.Constant):
            def e(m, c):
                m.test = ast.UnaryOp(ast.Not(), m.test)
                return c
            yield ("negate test @%d: %s" % (n.lineno, norm(n.test)[:60]), clone(e))
        if isinstance(n, ast.Call) and isinstance(n.func, ast.Attribute) and n.func.attr in ("copy", "deep_copy") and not n.args:
            # x.copy() -> x   (needs parent rewrite: do it by replacing call's func/args so that it evaluates to x)
            pass
        if isinstance(n, ast.Call) and len(n.args) >= 2 and not any(isinstance(a, ast.Starred) for a in n.args[:2]) \
                and norm(n.args[0]) != norm(n.args[1]):
            def e(m, c):
                m.args[0], m.args[1] = m.args[1], m.args[0]
                return c
            yield ("swap args @%d: %s" % (n.lineno, norm(n)[:60]), clone(e))
        if isinstance(n, ast.Call) and isinstance(n.func, ast.Name) and n.func.id == "sorted" and n.args:
            def e(m, c):
                m.func.id = "list"
                m.keywords = []
                return c
            yield ("sorted -> list @%d: %s" % (n.lineno, norm(n)[:60]), clone(e))
    # statement deletion and .copy() removal need parents
    class Del(ast.NodeTransformer):
        def __init__(self, target_idx):
            self.k = -1
            self.t = target_idx
            self.done = None

        def generic_visit(self, node):
            for field, old in ast.iter_fields(node):
                if isinstance(old, list) and old and isinstance(old[0], ast.stmt):
                    new = []
                    for st in old:
                        if isinstance(st, (ast.Expr, ast.Assign, ast.AugAssign)) and not (isinstance(st, ast.Expr) and isinstance(st.value, ast.Constant)):
                            self.k += 1
                            if self.k == self.t:
                                self.done = "delete @%d: %s" % (st.lineno, norm(st)[:70])
                                new.append(ast.copy_location(ast.Pass(), st))
                                continue
                        new.append(self.visit(st) if True else st)
                    setattr(node, field, new)
                elif isinstance(old, ast.AST):
                    setattr(node, field, self.visit(old))
                elif isinstance(old, list):
                    setattr(node, field, [self.visit(x) if isinstance(x, ast.AST) else x for x in old])
            return node
    n_del = sum(1 for x in ast.walk(func_node) if isinstance(x, (ast.Expr, ast.Assign, ast.AugAssign))
                and not (isinstance(x, ast.Expr) and isinstance(x.value, ast.Constant)))
    for t in range(n_del):
        c = copy.deepcopy(func_node)
        d = Del(t)
        c = d.visit(c)
        if d.done:
            yield (d.done, c)

    class Uncopy(ast.NodeTransformer):
        def __init__(self, t):
            self.k, self.t, self.done = -1, t, None

        def visit_Call(self, node):
            self.generic_visit(node)
            if isinstance(node.func, ast.Attribute) and node.func.attr in ("copy", "deep_copy") and not node.args and not node.keywords:
                self.k += 1
                if self.k == self.t:
                    self.done = "drop .%s() @%d: %s" % (node.func.attr, node.lineno, norm(node)[:60])
                    return node.func.value
            if isinstance(node.func, ast.Attribute) and norm(node.func) in ("np.copy", "numpy.copy") and len(node.args) == 1:
                self.k += 1
                if self.k == self.t:
                    self.done = "drop np.copy @%d: %s" % (node.lineno, norm(node)[:60])
                    return node.args[0]
            return node
    n_cp = sum(1 for x in ast.walk(func_node) if isinstance(x, ast.Call) and isinstance(x.func, ast.Attribute)
               and (x.func.attr in ("copy", "deep_copy") and not x.args or norm(x.func) in ("np.copy", "numpy.copy")))
    for t in range(n_cp):
        c = copy.deepcopy(func_node)
        u = Uncopy(t)
        c = u.visit(c)
        if u.done:
            yield (u.done, c)


def build_worklist(only=None):
    repo = Repo("/repo")
    # function -> properties that analyse it (from the evidence of a quick run)
    f2p = {}
    for p in PROPS:
        if only and p not in only:
            continue
        ev = json.load(open(os.path.join(HERE, "evidence", p + ".json")))
        for q in ev["coverage"].get("functions_analysed", []):
            f2p.setdefault(q, set()).add(p)
    # rules that scan the whole package make every function 'analysed': keep the targeted ones only
    work = []
    for q, f in repo.funcs.items():
        if f.module.name in SKIP_MODULES or f.parent is not None:
            continue
        props = sorted(p for p in f2p.get(q, ()) if not (p in ("C18",) and len(f2p.get(q, ())) == 1))
        targeted = sorted(p for p in props if p != "C18" or q.split(".")[-2] in ("Residue", "Molecule", "AtomGro", "Atom", "Alignment"))
        if not targeted:
            continue
        work.append((q, f.module.path, f.node.lineno, f.node.end_lineno, targeted))
    return work


def run_one(job):
    base = "/repo"
    if len(job) == 8:
        base = job[7]
        job = job[:7]
    q, path, l0, l1, props, desc, new_src = job
    os.environ.pop("GMSA_REPO", None)
    from .__main__ import run_property
    from .core import AnalysisError
    import io, contextlib
    tmp = tempfile.mkdtemp(prefix="gmsa-survey-")
    try:
        shutil.copytree(os.path.join(base, "gaddlemaps"), os.path.join(tmp, "gaddlemaps"), ignore=shutil.ignore_patterns("__pycache__", "data"))
        rel = os.path.relpath(path, base)
        with open(os.path.join(tmp, rel), "w") as fh:
            fh.write(new_src)
        fired = {}
        for p in props:
            buf = io.StringIO()
            try:
                with contextlib.redirect_stdout(buf):
                    code, ctx = run_property(p, "quick", root=tmp, write=False)
                rules = sorted({o.rule for o in ctx.obligations if not o.ok and not o.undecided})
            except AnalysisError as exc:
                code, rules = 2, ["ANALYSIS-ERROR"]
            except Exception as exc:
                code, rules = 3, ["CRASH %r" % (exc,)]
            if code:
                fired[p] = {"exit": code, "rules": rules}
        return {"function": q, "mutant": desc, "props": props, "fired": fired}
    finally:
        shutil.rmtree(tmp, ignore_errors=True)


def survey_property(prop, functions, root="/repo", jobs=16, limit=600):
    """Generic mutants of the given functions (qualified names), analysed with this property's check only."""
    repo = Repo(root)
    jobs_l = []
    for q in functions:
        f = repo.funcs.get(q)
        if f is None or f.parent is not None or f.module.name in SKIP_MODULES:
            continue
        path = f.module.path
        src = open(path).read()
        tree = ast.parse(src)
        l0, l1 = f.node.lineno, f.node.end_lineno
        target = None
        for n in ast.walk(tree):
            if isinstance(n, ast.FunctionDef) and n.lineno == l0 and n.end_lineno == l1:
                target = n
        if target is None:
            continue
        lines = src.splitlines(keepends=True)
        indent = " " * target.col_offset
        deco_start = min([d.lineno for d in target.decorator_list] + [target.lineno])
        for desc, m in mutants_of(target):
            try:
                body = ast.unparse(ast.fix_missing_locations(m))
            except Exception:
                continue
            new_fn = "".join(indent + ln + "\n" for ln in body.splitlines())
            new_src = "".join(lines[:deco_start - 1]) + new_fn + "".join(lines[l1:])
            try:
                ast.parse(new_src)
            except SyntaxError:
                continue
            jobs_l.append((q, path, l0, l1, [prop], desc, new_src, root))
    truncated = len(jobs_l) > limit
    jobs_l = jobs_l[:limit]
    res = []
    if jobs_l:
        with ProcessPoolExecutor(max_workers=jobs) as ex:
            res = list(ex.map(run_one, jobs_l, chunksize=4))
    return res, truncated


def main():
    ap = argparse.ArgumentParser()
    ap.add_argument("--out", default="survey.json")
    ap.add_argument("--jobs", type=int, default=16)
    ap.add_argument("--only", default="")
    ap.add_argument("--limit", type=int, default=0)
    a = ap.parse_args()
    only = set(a.only.split(",")) if a.only else None
    work = build_worklist(only)
    jobs = []
    for q, path, l0, l1, props in work:
        src = open(path).read()
        tree = ast.parse(src)
        target = None
        for n in ast.walk(tree):
            if isinstance(n, (ast.FunctionDef,)) and n.lineno == l0 and n.end_lineno == l1:
                target = n
        if target is None:
            continue
        lines = src.splitlines(keepends=True)
        indent = " " * target.col_offset
        deco_start = min([d.lineno for d in target.decorator_list] + [target.lineno])
        for desc, m in mutants_of(target):
            try:
                body = ast.unparse(ast.fix_missing_locations(m))
            except Exception:
                continue
            new_fn = "".join(indent + ln + "\n" for ln in body.splitlines())
            new_src = "".join(lines[:deco_start - 1]) + new_fn + "".join(lines[l1:])
            try:
                ast.parse(new_src)
            except SyntaxError:
                continue
            jobs.append((q, path, l0, l1, props, desc, new_src))
    if a.limit:
        jobs = jobs[:a.limit]
    print("functions:", len(work), "mutants:", len(jobs), flush=True)
    t0 = time.time()
    res = []
    with ProcessPoolExecutor(max_workers=a.jobs) as ex:
        for i, r in enumerate(ex.map(run_one, jobs, chunksize=4)):
            res.append(r)
            if (i + 1) % 200 == 0:
                print(i + 1, "done", round(time.time() - t0), "s", flush=True)
    killed = [r for r in res if r["fired"]]
    surv = [r for r in res if not r["fired"]]
    by_fn = {}
    for r in surv:
        by_fn.setdefault(r["function"], []).append(r["mutant"])
    out = {"mutants": len(res), "flagged": len(killed), "survivors": len(surv), "wall_s": round(time.time() - t0, 1),
           "survivors_by_function": by_fn, "flagged_detail": killed}
    json.dump(out, open(a.out, "w"), indent=1)
    print("mutants %d flagged %d survivors %d in %.0fs -> %s" % (len(res), len(killed), len(surv), time.time() - t0, a.out))


if __name__ == "__main__":
    main()
