"""gmsa core: loader for the gaddlemaps package, findings, evidence, known findings.

Nothing from gaddlemaps is imported or executed here: every module is parsed
with ``ast`` from the current working tree under $GMSA_REPO (default /repo).
"""
from __future__ import annotations

import ast
import json
import os
import sys
import time
import hashlib
from dataclasses import dataclass, field
from typing import Any, Dict, Iterable, List, Optional, Set, Tuple

VERIF = os.path.dirname(os.path.dirname(os.path.abspath(__file__)))


def repo_root() -> str:
    return os.environ.get("GMSA_REPO", "/repo")


_MIRROR = {ast.Eq: ast.Eq, ast.NotEq: ast.NotEq, ast.Lt: ast.Gt, ast.Gt: ast.Lt, ast.LtE: ast.GtE, ast.GtE: ast.LtE}


def _const_like(e: ast.AST) -> bool:
    return isinstance(e, ast.Constant) or (isinstance(e, ast.UnaryOp) and isinstance(e.op, (ast.USub, ast.UAdd))
                                           and isinstance(e.operand, ast.Constant))


class _Orient(ast.NodeTransformer):
    def visit_Compare(self, node: ast.Compare):
        self.generic_visit(node)
        if len(node.ops) != 1 or type(node.ops[0]) not in _MIRROR:
            return node
        l, r, op = node.left, node.comparators[0], type(node.ops[0])
        if _const_like(r) and not _const_like(l):
            return node
        if _const_like(l) and not _const_like(r):
            swap = True
        elif op in (ast.Gt, ast.GtE):
            swap = True
        elif op in (ast.Eq, ast.NotEq):
            swap = ast.unparse(l) > ast.unparse(r)
        else:
            swap = False
        if not swap:
            return node
        new = ast.Compare(r, [_MIRROR[op]()], [l])
        return ast.copy_location(new, node)


_EXACT_NEG = {ast.Eq: ast.NotEq, ast.NotEq: ast.Eq, ast.In: ast.NotIn, ast.NotIn: ast.In, ast.Is: ast.IsNot, ast.IsNot: ast.Is}


def _negate_exact(t: ast.AST) -> ast.AST:
    """Exact negation: not X -> X; == / in / is <-> their negated operators (never < <-> >=, which differ on NaN)."""
    if isinstance(t, ast.UnaryOp) and isinstance(t.op, ast.Not):
        return t.operand
    if isinstance(t, ast.Compare) and len(t.ops) == 1 and type(t.ops[0]) in _EXACT_NEG:
        return ast.copy_location(ast.Compare(t.left, [_EXACT_NEG[type(t.ops[0])]()], t.comparators), t)
    return ast.copy_location(ast.UnaryOp(ast.Not(), t), t)


def _only_pass(body) -> bool:
    return bool(body) and all(isinstance(x, ast.Pass) for x in body)


def _visit_UnaryOp(self, node: ast.UnaryOp):
    self.generic_visit(node)
    if isinstance(node.op, ast.Not) and isinstance(node.operand, ast.Compare) and len(node.operand.ops) == 1 \
            and type(node.operand.ops[0]) in _EXACT_NEG:
        return _negate_exact(node.operand)
    return node


def _visit_If(self, node: ast.If):
    self.generic_visit(node)
    chain = len(node.orelse) == 1 and isinstance(node.orelse[0], ast.If)
    if _only_pass(node.orelse):
        node.orelse = []
    if _only_pass(node.body) and node.orelse and not chain:
        node.test, node.body, node.orelse = _negate_exact(node.test), node.orelse, []
    elif isinstance(node.test, ast.UnaryOp) and isinstance(node.test.op, ast.Not) and node.orelse and not chain:
        node.test, node.body, node.orelse = node.test.operand, node.orelse, node.body
    return node


_Orient.visit_UnaryOp = _visit_UnaryOp
_Orient.visit_If = _visit_If


def orient_comparisons(tree: ast.AST) -> ast.AST:
    """One orientation per comparison, by mirroring only (a > b -> b < a; 3 == x -> x == 3; == operands in lexical
    order): mirroring never changes the value of a comparison (also for NaN), so every rule sees `b < a` whether
    the source says `b < a` or `a > b`.  Likewise `not a == b` -> `a != b` (also in / is), `if not c: A else: B` ->
    `if c: B else: A`, `if c: pass else: B` -> `if <not c>: B`.  Positions are kept; reports quote the oriented form."""
    return ast.fix_missing_locations(_Orient().visit(tree))


_LOG_ROOTS = {"logging", "logger", "log", "_logger", "_log", "LOGGER", "LOG", "warnings"}
_LOG_METHODS = {"debug", "info", "warning", "warn", "error", "exception", "critical", "log"}
_PURE_FUNCS = {"len", "str", "repr", "type", "id", "format", "int", "float", "bool", "tuple", "list", "sorted", "getLogger",
               "join", "shape", "round", "abs", "min", "max", "sum", "isinstance", "hasattr", "getattr"}


def _pure_expr(e: ast.AST) -> bool:
    """no effect on program state when evaluated (names, attributes, constants, formatting, a few pure builtins)"""
    for x in ast.walk(e):
        if isinstance(x, ast.Call):
            f = x.func
            nm = f.attr if isinstance(f, ast.Attribute) else (f.id if isinstance(f, ast.Name) else None)
            if nm not in _PURE_FUNCS:
                return False
        elif isinstance(x, (ast.NamedExpr, ast.Await, ast.Yield, ast.YieldFrom)):
            return False
    return True


def _inert(st: ast.stmt) -> bool:
    """a statement that cannot influence any value the package computes: `pass`, a bare literal, an `assert` of a pure
    expression (assumed to hold - it is removed by `python -O` anyway), a logging / warnings / print call with pure
    arguments"""
    if isinstance(st, ast.Pass):
        return True
    if isinstance(st, ast.Expr) and isinstance(st.value, ast.Constant):
        return True
    if isinstance(st, ast.Assert):
        return _pure_expr(st.test) and (st.msg is None or _pure_expr(st.msg))
    if isinstance(st, ast.Expr) and isinstance(st.value, ast.Call):
        c = st.value
        f = c.func
        if isinstance(f, ast.Name) and f.id == "print":
            return all(_pure_expr(a) for a in c.args) and all(_pure_expr(k.value) for k in c.keywords if k.arg != "file") \
                and not any(k.arg == "file" for k in c.keywords)
        if isinstance(f, ast.Attribute) and f.attr in _LOG_METHODS:
            root = f.value
            while isinstance(root, (ast.Attribute, ast.Call)):
                root = root.value if isinstance(root, ast.Attribute) else root.func
            if isinstance(root, ast.Name) and root.id in _LOG_ROOTS and _pure_expr(f.value):
                return all(_pure_expr(a) for a in c.args) and all(_pure_expr(k.value) for k in c.keywords)
    return False


class _StripInert(ast.NodeTransformer):
    def generic_visit(self, node):
        super().generic_visit(node)
        for fld in ("body", "orelse", "finalbody"):
            b = getattr(node, fld, None)
            if isinstance(b, list) and b and isinstance(b[0], ast.stmt):
                doc = b[:1] if (fld == "body" and isinstance(node, (ast.FunctionDef, ast.AsyncFunctionDef, ast.ClassDef, ast.Module))
                                and isinstance(b[0], ast.Expr) and isinstance(b[0].value, ast.Constant)
                                and isinstance(b[0].value.value, str)) else []
                kept = doc + [s for s in b[len(doc):] if not _inert(s)]
                if not kept and fld == "body":
                    kept = [b[0] if isinstance(b[0], ast.Pass) else ast.copy_location(ast.Pass(), b[0])]
                setattr(node, fld, kept)
        if isinstance(node, ast.Try):
            for h in node.handlers:
                kept = [s for s in h.body if not _inert(s)]
                h.body = kept or [ast.copy_location(ast.Pass(), h.body[0])]
        return node


def strip_inert(tree: ast.AST) -> ast.AST:
    """Statements that cannot influence a computed value are dropped at load time (see `_inert`), so that a rule about
    the shape of a body is not disturbed by a logging call, an assertion of an invariant or a stray `pass`."""
    return _StripInert().visit(tree)


def _name_uses(fn: ast.AST, name: str) -> int:
    return sum(1 for x in ast.walk(fn) if isinstance(x, ast.Name) and x.id == name)


class _InlineAdjacent(ast.NodeTransformer):
    """`t = E; return t` -> `return E` and `t = E; if t:` -> `if E:` when `t` is a plain local that occurs nowhere else
    in the enclosing function (so the temporary has no other reader and removing it cannot change any value)."""
    def __init__(self):
        self.fn_stack = []
        self.ctx_stack = []
        self._memo = {}

    def visit_FunctionDef(self, node):
        self.fn_stack.append(node)
        saved, self.ctx_stack = self.ctx_stack, []
        self.generic_visit(node)
        self.ctx_stack = saved
        self.fn_stack.pop()
        return node
    visit_AsyncFunctionDef = visit_FunctionDef

    def visit_Try(self, node):
        self.ctx_stack.append(node)
        self.generic_visit(node)
        self.ctx_stack.pop()
        return node

    def visit_With(self, node):
        self.ctx_stack.append(node)
        self.generic_visit(node)
        self.ctx_stack.pop()
        return node

    def _adjacent_only(self, fn, t):
        """every load of `t` in `fn` is the whole test of an `if` / the whole value of a `return` that directly follows
        an assignment `t = E` in the same block: then each definition of `t` has exactly one reader, the next statement"""
        key = (id(fn), t)
        if key in self._memo:
            return self._memo[key]
        ok_loads = set()

        def blocks(n):
            for fld in ("body", "orelse", "finalbody"):
                b = getattr(n, fld, None)
                if isinstance(b, list) and b and isinstance(b[0], ast.stmt):
                    yield b
            if isinstance(n, ast.Try):
                for h in n.handlers:
                    yield h.body
        for n in ast.walk(fn):
            for b in blocks(n):
                for a, nx in zip(b, b[1:]):
                    if isinstance(a, ast.Assign) and len(a.targets) == 1 and isinstance(a.targets[0], ast.Name) and a.targets[0].id == t:
                        if isinstance(nx, ast.Return) and isinstance(nx.value, ast.Name) and nx.value.id == t:
                            ok_loads.add(id(nx.value))
                        elif isinstance(nx, ast.If) and isinstance(nx.test, ast.Name) and nx.test.id == t:
                            ok_loads.add(id(nx.test))
                        elif isinstance(nx, ast.If) and isinstance(nx.test, ast.UnaryOp) and isinstance(nx.test.op, ast.Not) \
                                and isinstance(nx.test.operand, ast.Name) and nx.test.operand.id == t:
                            ok_loads.add(id(nx.test.operand))
        res = True
        for x in ast.walk(fn):
            if isinstance(x, ast.Name) and x.id == t:
                if isinstance(x.ctx, ast.Load) and id(x) not in ok_loads:
                    res = False
                elif isinstance(x.ctx, ast.Del):
                    res = False
            elif isinstance(x, (ast.Global, ast.Nonlocal)) and t in x.names:
                res = False
            elif isinstance(x, ast.arg) and x.arg == t:
                res = False
        # stores other than plain single-target assignments (loop targets, with-as, tuple unpacking) keep the name alive
        for x in ast.walk(fn):
            if isinstance(x, ast.Name) and x.id == t and isinstance(x.ctx, ast.Store):
                pass
        self._memo[key] = res
        return res

    def _fix(self, body):
        if not self.fn_stack:
            return body
        fn = self.fn_stack[-1]
        out = []
        i = 0
        while i < len(body):
            s = body[i]
            nxt = body[i + 1] if i + 1 < len(body) else None
            if isinstance(s, ast.Assign) and len(s.targets) == 1 and isinstance(s.targets[0], ast.Name) and nxt is not None:
                t = s.targets[0].id
                if isinstance(nxt, ast.Return) and isinstance(nxt.value, ast.Name) and nxt.value.id == t \
                        and not any(isinstance(p_, (ast.Try, ast.With)) for p_ in self.ctx_stack):
                    # the value defined here can only be read by the return (the path ends there)
                    nxt.value = s.value
                    out.append(nxt)
                    i += 2
                    continue
                if isinstance(nxt, ast.If) and isinstance(nxt.test, ast.Name) and nxt.test.id == t and self._adjacent_only(fn, t):
                    nxt.test = s.value
                    out.append(nxt)
                    i += 2
                    continue
                if isinstance(nxt, ast.If) and isinstance(nxt.test, ast.UnaryOp) and isinstance(nxt.test.op, ast.Not) \
                        and isinstance(nxt.test.operand, ast.Name) and nxt.test.operand.id == t and self._adjacent_only(fn, t):
                    nxt.test = _negate_exact(s.value)
                    out.append(nxt)
                    i += 2
                    continue
            out.append(s)
            i += 1
        return out

    def generic_visit(self, node):
        super().generic_visit(node)
        for fld in ("body", "orelse", "finalbody"):
            b = getattr(node, fld, None)
            if isinstance(b, list) and b and isinstance(b[0], ast.stmt):
                setattr(node, fld, self._fix(b))
        if isinstance(node, ast.Try):
            for h in node.handlers:
                h.body = self._fix(h.body)
        return node


def inline_adjacent_temps(tree: ast.AST) -> ast.AST:
    return _InlineAdjacent().visit(tree)


class _KwToPos(ast.NodeTransformer):
    """A call of a package function that is identified uniquely by its name and whose keyword names are all parameters
    of that function gets its leading keyword arguments moved into their positional slots, so that rules see one
    argument order whether the source binds by position or by name."""
    def __init__(self, defs):
        self.defs = defs

    def visit_Call(self, node: ast.Call):
        self.generic_visit(node)
        if not node.keywords or any(k.arg is None for k in node.keywords) or any(isinstance(a, ast.Starred) for a in node.args):
            return node
        f = node.func
        name = f.attr if isinstance(f, ast.Attribute) else (f.id if isinstance(f, ast.Name) else None)
        ds = self.defs.get(name or "", [])
        if len(ds) != 1:
            return node
        d = ds[0]
        if d.args.vararg or d.args.posonlyargs or any(
                (isinstance(x, ast.Name) and x.id == "property") or (isinstance(x, ast.Attribute) and x.attr in ("setter", "getter"))
                for x in d.decorator_list):
            return node
        params = [a.arg for a in d.args.args]
        static = any(isinstance(x, ast.Name) and x.id == "staticmethod" for x in d.decorator_list)
        if params and params[0] in ("self", "cls") and not static:
            if not isinstance(f, ast.Attribute):
                return node
            params = params[1:]
        allp = params + [a.arg for a in d.args.kwonlyargs]
        if any(k.arg not in allp for k in node.keywords) or len(node.args) > len(params):
            return node
        kw = {k.arg: k for k in node.keywords}
        args = list(node.args)
        while len(args) < len(params) and params[len(args)] in kw:
            args.append(kw.pop(params[len(args)]).value)
        node.args = args
        node.keywords = [k for k in node.keywords if k.arg in kw]
        return node


def keywords_to_positional(trees: List[ast.AST]) -> None:
    defs: Dict[str, list] = {}
    for t in trees:
        for n in ast.walk(t):
            if isinstance(n, (ast.FunctionDef, ast.AsyncFunctionDef)):
                defs.setdefault(n.name, []).append(n)
    # a class called by name binds its arguments to __init__ (without self)
    classes: Dict[str, list] = {}
    for t in trees:
        for n in ast.walk(t):
            if isinstance(n, ast.ClassDef):
                classes.setdefault(n.name, []).append(n)
    for cname, cl in classes.items():
        if len(cl) == 1 and cname not in defs:
            inits = [m for m in cl[0].body if isinstance(m, ast.FunctionDef) and m.name == "__init__"]
            if len(inits) == 1 and inits[0].args.args and inits[0].args.args[0].arg == "self":
                import copy as _c
                fake = _c.copy(inits[0])
                fake.args = _c.copy(inits[0].args)
                fake.args.args = list(inits[0].args.args[1:])
                fake.decorator_list = []
                defs[cname] = [fake]
    for t in trees:
        _KwToPos(defs).visit(t)


_STRICT = (ast.Call, ast.BinOp, ast.UnaryOp, ast.Subscript, ast.Attribute, ast.Tuple, ast.List, ast.Starred, ast.Compare,
           ast.keyword, ast.Slice, ast.Dict, ast.Set, ast.JoinedStr, ast.FormattedValue)


def _strict_loads(expr: ast.AST, name: str):
    """(loads of `name` in strict positions, calls evaluated before each such load that do not enclose it)"""
    hits = []

    def rec(n, enclosing_calls):
        if isinstance(n, ast.Name):
            if n.id == name and isinstance(n.ctx, ast.Load):
                hits.append((n, list(enclosing_calls)))
            return
        if not isinstance(n, _STRICT):
            return
        ec = enclosing_calls + [n] if isinstance(n, ast.Call) else enclosing_calls
        for c in ast.iter_child_nodes(n):
            rec(c, ec)
    rec(expr, [])
    return hits


class _ForwardTemps(ast.NodeTransformer):
    """`t = E; S` -> S[t := E] when `t` is a plain local with exactly one store and exactly one load in the whole
    function, the load is in the statement that directly follows, in a position that is evaluated exactly once, and no
    call other than the ones enclosing that position is evaluated in S before it (so the order of calls is kept)."""
    def __init__(self):
        self.fn_stack = []

    def visit_FunctionDef(self, node):
        self.fn_stack.append(node)
        self.generic_visit(node)
        self.fn_stack.pop()
        return node
    visit_AsyncFunctionDef = visit_FunctionDef

    def _value_exprs(self, s):
        if isinstance(s, (ast.Assign, ast.AugAssign, ast.AnnAssign, ast.Expr, ast.Return)):
            return [s.value] if getattr(s, "value", None) is not None else []
        if isinstance(s, ast.Raise):
            return [s.exc] if s.exc is not None else []
        return []

    def _fix(self, body):
        if not self.fn_stack:
            return body
        fn = self.fn_stack[-1]
        changed = True
        while changed:
            changed = False
            for i in range(len(body) - 1):
                a, nx = body[i], body[i + 1]
                if not (isinstance(a, ast.Assign) and len(a.targets) == 1 and isinstance(a.targets[0], ast.Name)):
                    continue
                t = a.targets[0].id
                occ = [x for x in ast.walk(fn) if isinstance(x, ast.Name) and x.id == t]
                if len(occ) != 2 or any(isinstance(x, ast.arg) and x.arg == t for x in ast.walk(fn)):
                    continue
                if any(isinstance(x, (ast.Global, ast.Nonlocal)) and t in x.names for x in ast.walk(fn)):
                    continue
                if any(isinstance(x, (ast.Yield, ast.YieldFrom, ast.Await, ast.NamedExpr)) for x in ast.walk(a.value)):
                    continue
                done = False
                for e in self._value_exprs(nx):
                    hits = _strict_loads(e, t)
                    if len(hits) != 1:
                        continue
                    node, enclosing = hits[0]
                    if any(isinstance(x, ast.Call) for x in ast.walk(a.value)):
                        others = [c for c in ast.walk(e) if isinstance(c, ast.Call) and c not in enclosing]
                        # calls that are evaluated before the load: approximated by "any other call at all"
                        if others:
                            continue
                    # attribute/subscript stores in S's targets are evaluated after the value: unaffected
                    if e is node:
                        nx.value = a.value if not isinstance(nx, ast.Raise) else nx.value
                        if isinstance(nx, ast.Raise):
                            nx.exc = a.value
                    else:
                        _replace_child(e, node, a.value)
                    del body[i]
                    changed = done = True
                    break
                if done:
                    break
        return body

    def generic_visit(self, node):
        super().generic_visit(node)
        for fld in ("body", "orelse", "finalbody"):
            b = getattr(node, fld, None)
            if isinstance(b, list) and b and isinstance(b[0], ast.stmt):
                setattr(node, fld, self._fix(b))
        if isinstance(node, ast.Try):
            for h in node.handlers:
                h.body = self._fix(h.body)
        return node


def _replace_child(root: ast.AST, old: ast.AST, new: ast.AST):
    for parent in ast.walk(root):
        for fld, val in ast.iter_fields(parent):
            if val is old:
                setattr(parent, fld, new)
                return
            if isinstance(val, list):
                for j, v in enumerate(val):
                    if v is old:
                        val[j] = new
                        return


def forward_single_use_temps(tree: ast.AST) -> ast.AST:
    return _ForwardTemps().visit(tree)


# --------------------------------------------------------------------------
# locals that only name an attribute of self
# --------------------------------------------------------------------------
def _self_chain(e: ast.AST) -> Optional[List[str]]:
    """['a', 'b'] for self.a.b (attribute links only), else None"""
    parts = []
    while isinstance(e, ast.Attribute):
        parts.append(e.attr)
        e = e.value
    if isinstance(e, ast.Name) and e.id == "self" and parts:
        return parts[::-1]
    return None


def self_attr_aliases(tree: ast.Module, props: Set[str]) -> ast.AST:
    """Inside a method, `x = self.a` (x bound once, `a` a plain data attribute - not a property anywhere in the
    package) followed by reads of x is the same as reading `self.a` each time, provided nothing between the binding
    and the last read can rebind `self.a`: no attribute store on that chain, no call of a method of the class whose
    (transitive, name-resolved) stores include `a`, no call that is handed `self`."""
    for cls in [n for n in ast.walk(tree) if isinstance(n, ast.ClassDef)]:
        methods = {m.name: m for m in cls.body if isinstance(m, (ast.FunctionDef, ast.AsyncFunctionDef))}
        stores: Dict[str, Set[str]] = {}
        calls: Dict[str, Set[str]] = {}
        for nm, m in methods.items():
            st, ca = set(), set()
            for x in ast.walk(m):
                if isinstance(x, ast.Attribute) and isinstance(x.ctx, (ast.Store, ast.Del)):
                    ch = _self_chain(x)
                    if ch:
                        st.add(ch[0])
                if isinstance(x, ast.Call) and isinstance(x.func, ast.Attribute) and isinstance(x.func.value, ast.Name) and x.func.value.id == "self":
                    ca.add(x.func.attr)
                if isinstance(x, ast.Call) and call_name_(x) in ("setattr", "delattr"):
                    st.add("*")
                if isinstance(x, ast.Attribute) and x.attr == "__dict__":
                    st.add("*")
            stores[nm], calls[nm] = st, ca
        has_setattr = "__setattr__" in methods

        def may_store(mname: str, seen=None) -> Optional[Set[str]]:
            """attributes of self a call of self.<mname>() may rebind; None = unknown"""
            seen = seen if seen is not None else set()
            if mname in seen:
                return set()
            seen.add(mname)
            if mname not in methods:
                return None
            out = set(stores[mname])
            for c in calls[mname]:
                sub = may_store(c, seen)
                if sub is None:
                    if c in props:
                        continue
                    return None
                out |= sub
            return out

        for m in methods.values():
            args = m.args.posonlyargs + m.args.args
            if not args or args[0].arg != "self":
                continue
            _alias_in_method(m, props, may_store, has_setattr)
        # a read of the private attribute behind a trivial property (`return self._x`) outside the property itself is
        # the property read: one spelling (`self.x`) for both
        backing: Dict[str, str] = {}
        for m in cls.body:
            if isinstance(m, (ast.FunctionDef, ast.AsyncFunctionDef)) and [ast.unparse(d) for d in m.decorator_list] == ["property"]:
                body = [s_ for s_ in m.body if not (isinstance(s_, ast.Expr) and isinstance(s_.value, ast.Constant))]
                if len(body) == 1 and isinstance(body[0], ast.Return) and isinstance(body[0].value, ast.Attribute) \
                        and isinstance(body[0].value.value, ast.Name) and body[0].value.value.id == "self" and body[0].value.attr != m.name:
                    backing[body[0].value.attr] = m.name
        # only where the reference tree itself never reads the private attribute outside its property (otherwise both
        # spellings already occur in the reference and the rules read them as written)
        from .inline import known_backing_reads
        kbr = known_backing_reads()
        backing = {k: v for k, v in backing.items() if not any(r.endswith(":%s.%s" % (cls.name, k)) for r in kbr)}
        if backing:
            for m in cls.body:
                if isinstance(m, (ast.FunctionDef, ast.AsyncFunctionDef)) and m.name not in backing.values():
                    for x in ast.walk(m):
                        if isinstance(x, ast.Attribute) and isinstance(x.ctx, ast.Load) and isinstance(x.value, ast.Name) and x.value.id == "self" \
                                and x.attr in backing:
                            x.attr = backing[x.attr]
    return tree


def call_name_(c: ast.Call) -> str:
    f = c.func
    return f.attr if isinstance(f, ast.Attribute) else (f.id if isinstance(f, ast.Name) else "")


def _npos(n: ast.AST) -> Tuple[float, int]:
    return (getattr(n, "lineno", 0), getattr(n, "col_offset", 0))


def _alias_in_method(m: ast.AST, props: Set[str], may_store, has_setattr: bool):
    import copy as _c
    for _round in range(8):
        nested = {id(y) for x in ast.walk(m) if x is not m and isinstance(x, (ast.FunctionDef, ast.AsyncFunctionDef, ast.Lambda, ast.ClassDef))
                  for y in ast.walk(x) if y is not x}
        nodes = [x for x in ast.walk(m)]
        params = {a.arg for a in m.args.posonlyargs + m.args.args + m.args.kwonlyargs}
        n_store: Dict[str, int] = {}
        for x in nodes:
            if isinstance(x, ast.Name) and isinstance(x.ctx, (ast.Store, ast.Del)):
                n_store[x.id] = n_store.get(x.id, 0) + 1
            if isinstance(x, (ast.Global, ast.Nonlocal)):
                return
        pm: Dict[int, ast.AST] = {}
        for x in nodes:
            for ch in ast.iter_child_nodes(x):
                pm[id(ch)] = x

        def loops_of(n):
            out = []
            while id(n) in pm:
                n = pm[id(n)]
                if isinstance(n, (ast.For, ast.While, ast.AsyncFor)):
                    out.append(n)
            return out

        def end_npos(n):
            return max((_npos(y) for y in ast.walk(n) if hasattr(y, "lineno")), default=_npos(n))

        def hazards(lo, hi, attr0: str, skip: ast.AST) -> bool:
            for x in nodes:
                if any(x is y for y in ast.walk(skip)):
                    continue
                p = _npos(x)
                if not (lo < p <= hi):
                    continue
                if isinstance(x, ast.Attribute) and isinstance(x.ctx, (ast.Store, ast.Del)):
                    ch = _self_chain(x)
                    if ch and ch[0] == attr0:
                        return True
                if isinstance(x, ast.Call):
                    f = x.func
                    if isinstance(f, ast.Attribute) and isinstance(f.value, ast.Name) and f.value.id == "self":
                        ms = may_store(f.attr)
                        if ms is None or attr0 in ms or "*" in ms:
                            return True
                    if any(isinstance(a, ast.Name) and a.id == "self" for a in list(x.args) + [k.value for k in x.keywords]):
                        return True
                    if call_name_(x) in ("setattr", "delattr", "exec", "eval"):
                        return True
                if isinstance(x, (ast.Yield, ast.YieldFrom, ast.Await)):
                    return True
            return False

        done = False
        for st in nodes:
            if id(st) in nested or not (isinstance(st, ast.Assign) and len(st.targets) == 1):
                continue
            tgt, val = st.targets[0], st.value
            # form 1: x = self.a.b
            if isinstance(tgt, ast.Name) and tgt.id not in params and n_store.get(tgt.id) == 1:
                ch = _self_chain(val)
                if ch and not any(a in props for a in ch):
                    x = tgt.id
                    uses = [u for u in nodes if isinstance(u, ast.Name) and u.id == x and isinstance(u.ctx, ast.Load)]
                    if not uses or any(id(u) in nested for u in uses) or any(_npos(u) <= _npos(st) for u in uses):
                        continue
                    hi = max(_npos(u) for u in uses)
                    for u in uses:
                        for lp in loops_of(u):
                            if not any(st is y for y in ast.walk(lp)):
                                hi = max(hi, end_npos(lp))
                    if loops_of(st) and any(not any(u is y for y in ast.walk(loops_of(st)[0])) for u in uses):
                        continue
                    if hazards(_npos(st), hi, ch[0], st):
                        continue
                    for u in uses:
                        par = pm[id(u)]
                        new = ast.copy_location(_c.deepcopy(val), u)
                        for y in ast.walk(new):
                            if hasattr(y, "lineno"):
                                y.lineno, y.col_offset = u.lineno, u.col_offset
                        _swap_child(par, u, new)
                    _drop_stmt(m, st)
                    done = True
                    break
        if not done:
            return


def _swap_child(par: ast.AST, old: ast.AST, new: ast.AST):
    for fld, v in ast.iter_fields(par):
        if v is old:
            setattr(par, fld, new)
            return
        if isinstance(v, list):
            for j, y in enumerate(v):
                if y is old:
                    v[j] = new
                    return


def _drop_stmt(root: ast.AST, st: ast.stmt):
    for x in ast.walk(root):
        for fld in ("body", "orelse", "finalbody"):
            b = getattr(x, fld, None)
            if isinstance(b, list) and any(y is st for y in b):
                b[:] = [y for y in b if y is not st] or [ast.copy_location(ast.Pass(), st)]
                return


# --------------------------------------------------------------------------
# y = x with both names bound once: y is x
# --------------------------------------------------------------------------
def copy_names(tree: ast.AST) -> ast.AST:
    """`y = x` where x is a parameter or local of the function that is bound exactly once and y is a local bound
    exactly once (both outside loops, or in the same block): every read of y reads x.  The copy is dropped and y is
    written x (helper inlining leaves such copies behind: `atoms, table = atoms_h, table_h`)."""
    for fn in [n for n in ast.walk(tree) if isinstance(n, (ast.FunctionDef, ast.AsyncFunctionDef))]:
        for _round in range(12):
            own = [x for x in ast.walk(fn)]
            inner = {id(y) for x in own if x is not fn and isinstance(x, (ast.FunctionDef, ast.AsyncFunctionDef, ast.Lambda, ast.ClassDef))
                     for y in ast.walk(x)}
            if any(isinstance(x, (ast.Global, ast.Nonlocal)) for x in own):
                break
            params = {a.arg for a in fn.args.posonlyargs + fn.args.args + fn.args.kwonlyargs}
            if fn.args.vararg:
                params.add(fn.args.vararg.arg)
            if fn.args.kwarg:
                params.add(fn.args.kwarg.arg)
            n_store: Dict[str, int] = {}
            for x in own:
                if isinstance(x, ast.Name) and isinstance(x.ctx, (ast.Store, ast.Del)):
                    n_store[x.id] = n_store.get(x.id, 0) + 1
                if isinstance(x, ast.ExceptHandler) and x.name:
                    n_store[x.name] = n_store.get(x.name, 0) + 2
            pm: Dict[int, ast.AST] = {}
            for x in own:
                for ch in ast.iter_child_nodes(x):
                    pm[id(ch)] = x

            def in_loop(n):
                while id(n) in pm:
                    n = pm[id(n)]
                    if isinstance(n, (ast.For, ast.While, ast.AsyncFor, ast.ListComp, ast.SetComp, ast.DictComp, ast.GeneratorExp)):
                        return n
                    if n is fn:
                        return None
                return None
            hit = None
            # y = x[k] (k a constant) with x a local list/tuple that is not rebound or item-assigned afterwards: y is x[k]
            for st in own:
                if id(st) in inner or not (isinstance(st, ast.Assign) and len(st.targets) == 1 and isinstance(st.targets[0], ast.Name)
                                           and isinstance(st.value, ast.Subscript) and isinstance(st.value.value, ast.Name)
                                           and isinstance(st.value.slice, ast.Constant) and isinstance(st.value.slice.value, int)):
                    continue
                y, x = st.targets[0].id, st.value.value.id
                if y == x or y in params or n_store.get(y) != 1 or in_loop(st) is not None or x not in n_store and x not in params:
                    continue
                pos = (getattr(st, "lineno", 0), getattr(st, "col_offset", 0))
                later_store = any(isinstance(u, ast.Name) and u.id == x and isinstance(u.ctx, (ast.Store, ast.Del))
                                  and (getattr(u, "lineno", 0), getattr(u, "col_offset", 0)) > pos for u in own)
                item_store = any(isinstance(u, ast.Subscript) and isinstance(u.ctx, (ast.Store, ast.Del)) and isinstance(u.value, ast.Name) and u.value.id == x
                                 for u in own)
                mutated = any(isinstance(u, ast.Call) and isinstance(u.func, ast.Attribute) and isinstance(u.func.value, ast.Name) and u.func.value.id == x
                              and u.func.attr in ("append", "insert", "pop", "remove", "reverse", "sort", "clear", "extend") for u in own)
                ystore_inner = any(isinstance(u, ast.Name) and u.id in (x, y) and id(u) in inner for u in own)
                if later_store or item_store or mutated or ystore_inner:
                    continue
                import copy as _c
                for u in own:
                    if isinstance(u, ast.Name) and u.id == y and isinstance(u.ctx, ast.Load):
                        par_ = pm.get(id(u))
                        new_ = ast.copy_location(_c.deepcopy(st.value), u)
                        for z in ast.walk(new_):
                            if hasattr(z, "lineno"):
                                z.lineno, z.col_offset = u.lineno, u.col_offset
                        _swap_child(par_, u, new_)
                _drop_stmt(fn, st)
                hit = "sub"
                break
            if hit == "sub":
                continue
            for st in own:
                if id(st) in inner or not (isinstance(st, ast.Assign) and len(st.targets) == 1 and isinstance(st.targets[0], ast.Name)
                                           and isinstance(st.value, ast.Name)):
                    continue
                y, x = st.targets[0].id, st.value.id
                if y == x or y in params or n_store.get(y) != 1:
                    continue
                if not ((x in params and n_store.get(x, 0) == 0) or (x not in params and n_store.get(x) == 1)):
                    continue
                if any(isinstance(u, ast.Name) and u.id in (x, y) and id(u) in inner for u in own):
                    continue
                lp = in_loop(st)
                if lp is not None:
                    xdef = [u for u in own if isinstance(u, ast.Name) and u.id == x and isinstance(u.ctx, ast.Store)]
                    if x in params or not xdef or in_loop(xdef[0]) is not lp:
                        continue
                    if any(isinstance(u, ast.Name) and u.id == y and isinstance(u.ctx, ast.Load) and not any(u is z for z in ast.walk(lp)) for u in own):
                        continue
                hit = (st, y, x)
                break
            if hit is None:
                break
            st, y, x = hit
            for u in own:
                if isinstance(u, ast.Name) and u.id == y and isinstance(u.ctx, ast.Load):
                    u.id = x
            _drop_stmt(fn, st)
    return tree


# --------------------------------------------------------------------------
# a local that is only ever a freshly built NamedTuple read field by field
# --------------------------------------------------------------------------
def sroa_namedtuples(tree: ast.Module) -> ast.AST:
    """`cfg = Config(a, b)` ... `cfg.x` ... `cfg = Config(c, d)` with Config a NamedTuple (or dataclass-like class with
    annotated fields only) of the module, where the local is ONLY bound to constructor calls and ONLY read through its
    fields: the aggregate is written as one local per field (`cfg_x, cfg_y = a, b`).  Exact: nobody can observe the
    tuple object itself."""
    classes: Dict[str, List[str]] = {}
    for c in tree.body:
        if isinstance(c, ast.ClassDef) and any(norm(b).split(".")[-1] == "NamedTuple" for b in c.bases):
            fields = [s.target.id for s in c.body if isinstance(s, ast.AnnAssign) and isinstance(s.target, ast.Name)]
            if fields and all(isinstance(s, (ast.AnnAssign, ast.Expr, ast.Pass)) for s in c.body):
                classes[c.name] = fields
        if isinstance(c, ast.Assign) and len(c.targets) == 1 and isinstance(c.targets[0], ast.Name) and isinstance(c.value, ast.Call) \
                and norm(c.value.func).split(".")[-1] in ("namedtuple", "NamedTuple") and len(c.value.args) >= 2:
            spec = c.value.args[1]
            if isinstance(spec, (ast.List, ast.Tuple)):
                fl = []
                for e in spec.elts:
                    if isinstance(e, ast.Constant) and isinstance(e.value, str):
                        fl.append(e.value)
                    elif isinstance(e, (ast.Tuple, ast.List)) and e.elts and isinstance(e.elts[0], ast.Constant):
                        fl.append(e.elts[0].value)
                if len(fl) == len(spec.elts):
                    classes[c.targets[0].id] = fl
            elif isinstance(spec, ast.Constant) and isinstance(spec.value, str):
                classes[c.targets[0].id] = spec.value.replace(",", " ").split()
    if not classes:
        return tree
    for fn in [n for n in ast.walk(tree) if isinstance(n, (ast.FunctionDef, ast.AsyncFunctionDef))]:
        pm: Dict[int, ast.AST] = {}
        own = list(ast.walk(fn))
        for x in own:
            for ch in ast.iter_child_nodes(x):
                pm[id(ch)] = x
        params = {a.arg for a in fn.args.posonlyargs + fn.args.args + fn.args.kwonlyargs}
        names = {x.id for x in own if isinstance(x, ast.Name) and isinstance(x.ctx, ast.Store)} - params
        for v in sorted(names):
            stores = [x for x in own if isinstance(x, ast.Name) and x.id == v and isinstance(x.ctx, (ast.Store, ast.Del))]
            loads = [x for x in own if isinstance(x, ast.Name) and x.id == v and isinstance(x.ctx, ast.Load)]
            cls = None
            ok = bool(stores) and bool(loads)
            assigns = []
            for st in stores:
                par = pm.get(id(st))
                if not (isinstance(par, ast.Assign) and len(par.targets) == 1 and par.targets[0] is st and isinstance(par.value, ast.Call)
                        and isinstance(par.value.func, ast.Name) and par.value.func.id in classes):
                    ok = False
                    break
                c_ = par.value.func.id
                if cls not in (None, c_):
                    ok = False
                    break
                cls = c_
                call = par.value
                if any(isinstance(a, ast.Starred) for a in call.args) or any(k.arg is None for k in call.keywords) \
                        or len(call.args) + len(call.keywords) != len(classes[c_]):
                    ok = False
                    break
                assigns.append(par)
            if not ok or cls is None:
                continue
            fields = classes[cls]

            def _field_read(l):
                return isinstance(pm.get(id(l)), ast.Attribute) and pm[id(l)].value is l and pm[id(l)].attr in fields \
                    and isinstance(pm[id(l)].ctx, ast.Load)

            def _star_arg(l):
                # f(*v): the fields in order
                st_ = pm.get(id(l))
                return isinstance(st_, ast.Starred) and isinstance(pm.get(id(st_)), ast.Call) and any(st_ is a_ for a_ in pm[id(st_)].args)
            if not all(_field_read(l) or _star_arg(l) for l in loads):
                continue
            if any("%s_%s" % (v, f_) in names | params for f_ in fields):
                continue
            for par in assigns:
                call = par.value
                vals = list(call.args) + [None] * (len(fields) - len(call.args))
                for k in call.keywords:
                    if k.arg in fields:
                        vals[fields.index(k.arg)] = k.value
                if any(x is None for x in vals):
                    break
                par.targets = [ast.Tuple([ast.Name("%s_%s" % (v, f_), ast.Store()) for f_ in fields], ast.Store())]
                par.value = ast.copy_location(ast.Tuple(vals, ast.Load()), call)
            for l in loads:
                at = pm[id(l)]
                if isinstance(at, ast.Starred):
                    call_ = pm[id(at)]
                    i_ = [k_ for k_, a_ in enumerate(call_.args) if a_ is at][0]
                    call_.args[i_:i_ + 1] = [ast.copy_location(ast.Name("%s_%s" % (v, f_), ast.Load()), at) for f_ in fields]
                    continue
                new = ast.copy_location(ast.Name("%s_%s" % (v, at.attr), ast.Load()), at)
                _swap_child(pm[id(at)], at, new)
    # phase 2: a record that travels (yielded by a generator, returned, taken from an iterator) and is read field by field
    # at the other end.  A NamedTuple IS a tuple: `T(a, b, c)` that is yielded / returned is written `(a, b, c)`, and a local
    # whose every read is a field of exactly one such class is bound by unpacking (`v_f1, v_f2, v_f3 = E`, `for v_f1, ... in G`).
    for fn in [n for n in ast.walk(tree) if isinstance(n, (ast.FunctionDef, ast.AsyncFunctionDef))]:
        pm = {}
        own = list(ast.walk(fn))
        for x in own:
            for ch in ast.iter_child_nodes(x):
                pm[id(ch)] = x
        params = {a.arg for a in fn.args.posonlyargs + fn.args.args + fn.args.kwonlyargs}
        names = {x.id for x in own if isinstance(x, ast.Name) and isinstance(x.ctx, ast.Store)} - params
        for v in sorted(names):
            loads = [x for x in own if isinstance(x, ast.Name) and x.id == v and isinstance(x.ctx, ast.Load)]
            stores = [x for x in own if isinstance(x, ast.Name) and x.id == v and isinstance(x.ctx, (ast.Store, ast.Del))]
            if not loads or not all(isinstance(pm.get(id(l)), ast.Attribute) and pm[id(l)].value is l and isinstance(pm[id(l)].ctx, ast.Load) for l in loads):
                continue
            used = {pm[id(l)].attr for l in loads}
            cands = [c for c, fl in classes.items() if used <= set(fl)]
            if len(cands) != 1:
                continue
            fields = classes[cands[0]]
            okst = True
            for st_ in stores:
                par = pm.get(id(st_))
                if isinstance(par, ast.Assign) and len(par.targets) == 1 and par.targets[0] is st_:
                    continue
                if isinstance(par, (ast.For, ast.comprehension)) and par.target is st_:
                    continue
                okst = False
            if not okst or any("%s_%s" % (v, f_) in names | params for f_ in fields):
                continue
            for st_ in stores:
                par = pm[id(st_)]
                tup = ast.copy_location(ast.Tuple([ast.Name("%s_%s" % (v, f_), ast.Store()) for f_ in fields], ast.Store()), st_)
                if isinstance(par, ast.Assign):
                    par.targets = [tup]
                else:
                    par.target = tup
            for l in loads:
                at = pm[id(l)]
                _swap_child(pm[id(at)], at, ast.copy_location(ast.Name("%s_%s" % (v, at.attr), ast.Load()), at))
    if classes:
        class _Plain(ast.NodeTransformer):
            def _plain(self, e):
                if isinstance(e, ast.Call) and isinstance(e.func, ast.Name) and e.func.id in classes and not any(isinstance(a, ast.Starred) for a in e.args) \
                        and all(k.arg in classes[e.func.id] for k in e.keywords) and len(e.args) + len(e.keywords) == len(classes[e.func.id]):
                    fl = classes[e.func.id]
                    vals = list(e.args) + [None] * (len(fl) - len(e.args))
                    for k in e.keywords:
                        vals[fl.index(k.arg)] = k.value
                    if all(x is not None for x in vals):
                        return ast.copy_location(ast.Tuple(vals, ast.Load()), e)
                return e

            def visit_Yield(self, node):
                self.generic_visit(node)
                if node.value is not None:
                    node.value = self._plain(node.value)
                return node

            def visit_Return(self, node):
                self.generic_visit(node)
                if node.value is not None:
                    node.value = self._plain(node.value)
                return node
        _Plain().visit(tree)
    return ast.fix_missing_locations(tree)


# --------------------------------------------------------------------------
# a method chosen by a code stored at construction and looked up at each call
# --------------------------------------------------------------------------
def sentinel_dispatch(tree: ast.Module) -> ast.AST:
    """`self._kind = K_i` in the constructor and `if self._kind == K_1: return self.m1(x) ... else: return self.m3(x)` in
    exactly one method is the same thing as storing the bound method (`self._kind = self.m_i`) and calling it
    (`return self._kind(x)`): rewritten to the latter when the attribute is only ever assigned constants (literals or
    class-level constants), only ever read in that one dispatch, and every assigned constant has exactly one branch."""
    for cls in [c for c in tree.body if isinstance(c, ast.ClassDef)]:
        consts: Dict[str, Any] = {}
        for st in cls.body:
            if isinstance(st, (ast.Assign, ast.AnnAssign)) and getattr(st, "value", None) is not None and isinstance(st.value, ast.Constant):
                for t in (st.targets if isinstance(st, ast.Assign) else [st.target]):
                    if isinstance(t, ast.Name):
                        consts[t.id] = st.value.value
        methods = [m for m in cls.body if isinstance(m, (ast.FunctionDef, ast.AsyncFunctionDef))]

        def cval(e):
            if isinstance(e, ast.Constant) and isinstance(e.value, (str, int)) and not isinstance(e.value, bool):
                return ("k", e.value)
            if isinstance(e, ast.Attribute) and isinstance(e.value, ast.Name) and e.value.id in ("self", "cls", cls.name) and e.attr in consts:
                return ("k", consts[e.attr])
            return None
        attrs = {x.attr for m in methods for x in ast.walk(m) if isinstance(x, ast.Attribute) and isinstance(x.ctx, ast.Store)
                 and isinstance(x.value, ast.Name) and x.value.id == "self"}
        for a in sorted(attrs):
            stores, loads = [], []
            for m in methods:
                pm: Dict[int, ast.AST] = {}
                for x in ast.walk(m):
                    for ch in ast.iter_child_nodes(x):
                        pm[id(ch)] = x
                for x in ast.walk(m):
                    if isinstance(x, ast.Attribute) and x.attr == a and isinstance(x.value, ast.Name) and x.value.id == "self":
                        (stores if isinstance(x.ctx, ast.Store) else loads).append((m, x, pm))
            if not stores or not loads:
                continue
            vals = []
            okc = True
            for m, x, pm in stores:
                par = pm.get(id(x))
                if not (isinstance(par, ast.Assign) and len(par.targets) == 1 and par.targets[0] is x and cval(par.value)):
                    okc = False
                    break
                vals.append((par, cval(par.value)[1]))
            if not okc or len({id(m) for m, _, _ in loads}) != 1:
                continue
            disp = loads[0][0]

            def chain(stmts):
                stmts = [s for s in stmts if not (isinstance(s, ast.Expr) and isinstance(s.value, ast.Constant))]
                if not stmts:
                    return None
                s0 = stmts[0]
                if isinstance(s0, ast.Return) and len(stmts) == 1:
                    return [(None, s0)]
                if isinstance(s0, ast.If) and len(s0.body) == 1 and isinstance(s0.body[0], ast.Return):
                    rest = s0.orelse if s0.orelse else stmts[1:]
                    if s0.orelse and len(stmts) > 1:
                        return None
                    tail = chain(rest)
                    return None if tail is None else [(s0.test, s0.body[0])] + tail
                return None
            ch = chain(disp.body)
            if ch is None or len(ch) < 2:
                continue
            table: Dict[Any, str] = {}
            default = None
            argtxt = None
            good = True
            n_loads = 0
            for test, ret in ch:
                v = ret.value
                if not (isinstance(v, ast.Call) and isinstance(v.func, ast.Attribute) and isinstance(v.func.value, ast.Name)
                        and v.func.value.id == "self" and v.func.attr in {m.name for m in methods} and not v.keywords):
                    good = False
                    break
                at = ast.dump(ast.Tuple(list(v.args), ast.Load()))
                if argtxt not in (None, at):
                    good = False
                    break
                argtxt = at
                if test is None:
                    default = v.func.attr
                    continue
                if not (isinstance(test, ast.Compare) and len(test.ops) == 1 and isinstance(test.ops[0], ast.Eq)):
                    good = False
                    break
                sides = [test.left, test.comparators[0]]
                sel = [s for s in sides if isinstance(s, ast.Attribute) and s.attr == a and isinstance(s.value, ast.Name) and s.value.id == "self"]
                oth = [s for s in sides if s not in sel]
                if len(sel) != 1 or not cval(oth[0]) or cval(oth[0])[1] in table:
                    good = False
                    break
                n_loads += 1
                table[cval(oth[0])[1]] = v.func.attr
            if not good or n_loads != len(loads):
                continue
            assigned = {v for _, v in vals}
            if not assigned <= set(table) and default is None:
                continue
            for par, v in vals:
                par.value = ast.copy_location(ast.Attribute(ast.Name("self", ast.Load()), table.get(v, default), ast.Load()), par.value)
            last_ret = ch[-1][1]
            new_ret = ast.copy_location(ast.Return(ast.Call(ast.Attribute(ast.Name("self", ast.Load()), a, ast.Load()), list(last_ret.value.args), [])), disp.body[0])
            doc = [s for s in disp.body if isinstance(s, ast.Expr) and isinstance(s.value, ast.Constant)]
            disp.body = doc[:1] + [new_ret]
    return ast.fix_missing_locations(tree)


class _FoldConstTests(ast.NodeTransformer):
    """Tests on literal constants (left behind when a helper is spliced in with a literal argument): `A if True else B` -> A,
    `if False: S else: T` -> T, `not True` -> False, `True and x` -> x, `False or x` -> x."""
    @staticmethod
    def _const(e):
        if isinstance(e, ast.Constant) and (isinstance(e.value, (bool, int, str)) or e.value is None) and not isinstance(e.value, float):
            return True, bool(e.value)
        return False, None

    def visit_UnaryOp(self, node):
        self.generic_visit(node)
        if isinstance(node.op, ast.Not):
            k, v = self._const(node.operand)
            if k:
                return ast.copy_location(ast.Constant(not v), node)
        return node

    def visit_BoolOp(self, node):
        self.generic_visit(node)
        isand = isinstance(node.op, ast.And)
        vals = []
        for v in node.values:
            k, b = self._const(v)
            if k and isinstance(v.value, bool):
                if b == isand:
                    continue                    # neutral element
                return ast.copy_location(ast.Constant(b), node) if not vals else ast.copy_location(
                    ast.BoolOp(node.op, vals + [v]) if len(vals) > 0 else v, node)
            vals.append(v)
        if not vals:
            return ast.copy_location(ast.Constant(isand), node)
        return vals[0] if len(vals) == 1 else ast.copy_location(ast.BoolOp(node.op, vals), node)

    def visit_IfExp(self, node):
        self.generic_visit(node)
        k, v = self._const(node.test)
        if k:
            return node.body if v else node.orelse
        return node

    def visit_If(self, node):
        self.generic_visit(node)
        k, v = self._const(node.test)
        if k:
            blk = node.body if v else node.orelse
            return blk if blk else None
        return node

    def generic_visit(self, node):
        super().generic_visit(node)
        for fld in ("body", "orelse", "finalbody"):
            b = getattr(node, fld, None)
            if isinstance(b, list) and fld == "body" and not b and isinstance(node, (ast.FunctionDef, ast.For, ast.While, ast.With, ast.If, ast.Try, ast.ExceptHandler, ast.ClassDef)):
                node.body = [ast.Pass()]
        return node


def fold_constant_tests(tree: ast.AST) -> ast.AST:
    return ast.fix_missing_locations(_FoldConstTests().visit(tree))


def bulk_updates(tree: ast.AST) -> ast.AST:
    """`d = {}` (or a literal) ... `d[k] = v` ... `self.table.update(d)` with d a local used for nothing else, `self.table` not read
    in between and no `raise` in the function: the entries are written as direct stores `self.table[k] = v` (what ends up in
    the table is the same; the rules that look for stores into the table then see them).  `x = x` left by inlining is dropped."""
    for fn in [n for n in ast.walk(tree) if isinstance(n, (ast.FunctionDef, ast.AsyncFunctionDef))]:
        # drop x = x
        for x in ast.walk(fn):
            for fld in ("body", "orelse", "finalbody"):
                b = getattr(x, fld, None)
                if isinstance(b, list) and any(isinstance(s, ast.Assign) and len(s.targets) == 1 and isinstance(s.targets[0], ast.Name)
                                               and isinstance(s.value, ast.Name) and s.value.id == s.targets[0].id for s in b):
                    b[:] = [s for s in b if not (isinstance(s, ast.Assign) and len(s.targets) == 1 and isinstance(s.targets[0], ast.Name)
                                                 and isinstance(s.value, ast.Name) and s.value.id == s.targets[0].id)] or [ast.Pass()]
        if any(isinstance(x, ast.Raise) for x in ast.walk(fn)):
            continue
        own = list(ast.walk(fn))
        pm: Dict[int, ast.AST] = {}
        for x in own:
            for ch in ast.iter_child_nodes(x):
                pm[id(ch)] = x
        ups = [c for c in own if isinstance(c, ast.Call) and isinstance(c.func, ast.Attribute) and c.func.attr == "update" and len(c.args) == 1
               and not c.keywords and isinstance(c.args[0], ast.Name) and _self_chain(c.func.value) and isinstance(pm.get(id(c)), ast.Expr)]
        for up in ups:
            d = up.args[0].id
            table = up.func.value
            uses = [x for x in own if isinstance(x, ast.Name) and x.id == d]
            ok = True
            inits, stores = [], []
            for u in uses:
                par = pm.get(id(u))
                if u is up.args[0]:
                    continue
                if isinstance(u.ctx, ast.Store) and isinstance(par, ast.Assign) and len(par.targets) == 1 and par.targets[0] is u \
                        and isinstance(par.value, ast.Dict) and all(k is not None for k in par.value.keys):
                    inits.append(par)
                elif isinstance(u.ctx, ast.Load) and isinstance(par, ast.Subscript) and par.value is u and isinstance(par.ctx, ast.Store) \
                        and isinstance(pm.get(id(par)), ast.Assign) and len(pm[id(par)].targets) == 1:
                    stores.append(par)
                else:
                    ok = False
            table_txt = norm(table)
            other_reads = [x for x in own if isinstance(x, ast.Attribute) and norm(x) == table_txt and x is not table]
            if not ok or not (inits or stores) or other_reads:
                continue
            import copy as _c
            for par in stores:
                par.value = ast.copy_location(_c.deepcopy(table), par.value)
            for ini in inits:
                new = [ast.copy_location(ast.Assign([ast.Subscript(_c.deepcopy(table), k, ast.Store())], v), ini)
                       for k, v in zip(ini.value.keys, ini.value.values)] or [ast.copy_location(ast.Pass(), ini)]
                holder = pm.get(id(ini))
                for fld in ("body", "orelse", "finalbody"):
                    b = getattr(holder, fld, None)
                    if isinstance(b, list) and any(s is ini for s in b):
                        i = [j for j, s in enumerate(b) if s is ini][0]
                        b[i:i + 1] = new
            _drop_stmt(fn, pm[id(up)])
    return ast.fix_missing_locations(tree)


def fold_new_constants(tree: ast.Module, mod: str, known: Set[str]) -> ast.AST:
    """A name bound once, at module or class level, to a literal number / string and absent from the reference tree is a
    magic number that was given a name: its reads are written as the literal again (module constants by bare name; class
    constants through self. / cls. / ClassName.), provided nothing in the module stores to that name."""
    def literal(v):
        if isinstance(v, ast.Constant) and isinstance(v.value, (int, float, str)) and not isinstance(v.value, bool):
            return v
        if isinstance(v, ast.UnaryOp) and isinstance(v.op, ast.USub) and isinstance(v.operand, ast.Constant) \
                and isinstance(v.operand.value, (int, float)) and not isinstance(v.operand.value, bool):
            return v
        return None
    name_stores: Dict[str, int] = {}
    attr_stores: Set[str] = set()
    for x in ast.walk(tree):
        if isinstance(x, ast.Name) and isinstance(x.ctx, (ast.Store, ast.Del)):
            name_stores[x.id] = name_stores.get(x.id, 0) + 1
        if isinstance(x, ast.Attribute) and isinstance(x.ctx, (ast.Store, ast.Del)):
            attr_stores.add(x.attr)
        if isinstance(x, (ast.arg,)):
            name_stores[x.arg] = name_stores.get(x.arg, 0) + 1
    mod_consts: Dict[str, ast.AST] = {}
    for st in tree.body:
        if isinstance(st, (ast.Assign, ast.AnnAssign)) and getattr(st, "value", None) is not None and literal(st.value) is not None:
            tg = st.targets if isinstance(st, ast.Assign) else [st.target]
            if len(tg) == 1 and isinstance(tg[0], ast.Name) and name_stores.get(tg[0].id) == 1 and "%s:%s" % (mod, tg[0].id) not in known \
                    and not tg[0].id.startswith("__"):
                mod_consts[tg[0].id] = st.value
    cls_consts: Dict[Tuple[str, str], ast.AST] = {}
    cls_attr_names: Dict[str, int] = {}
    for c in tree.body:
        if isinstance(c, ast.ClassDef):
            for st in c.body:
                if isinstance(st, (ast.Assign, ast.AnnAssign)) and getattr(st, "value", None) is not None and literal(st.value) is not None:
                    tg = st.targets if isinstance(st, ast.Assign) else [st.target]
                    if len(tg) == 1 and isinstance(tg[0], ast.Name) and "%s:%s.%s" % (mod, c.name, tg[0].id) not in known \
                            and tg[0].id not in attr_stores:
                        cls_consts[(c.name, tg[0].id)] = st.value
                        cls_attr_names[tg[0].id] = cls_attr_names.get(tg[0].id, 0) + 1
    if not mod_consts and not cls_consts:
        return tree
    import copy as _c

    class R(ast.NodeTransformer):
        def __init__(self):
            self.cls = []

        def visit_ClassDef(self, node):
            self.cls.append(node.name)
            self.generic_visit(node)
            self.cls.pop()
            return node

        def visit_Name(self, node):
            if isinstance(node.ctx, ast.Load) and node.id in mod_consts:
                return ast.copy_location(_c.deepcopy(mod_consts[node.id]), node)
            return node

        def visit_Attribute(self, node):
            self.generic_visit(node)
            if isinstance(node.ctx, ast.Load) and isinstance(node.value, ast.Name) and cls_attr_names.get(node.attr) == 1:
                for (cn, an), v in cls_consts.items():
                    if an == node.attr and (node.value.id == cn or (node.value.id in ("self", "cls") and self.cls and self.cls[-1] == cn)):
                        return ast.copy_location(_c.deepcopy(v), node)
            return node
    return ast.fix_missing_locations(R().visit(tree))


def package_properties(trees: Iterable[ast.AST]) -> Set[str]:
    """names that are properties / descriptors / methods somewhere in the package: reading them may compute"""
    out: Set[str] = set()
    trivial: Dict[str, bool] = {}
    for t in trees:
        for c in ast.walk(t):
            if isinstance(c, ast.ClassDef):
                for m in c.body:
                    if isinstance(m, (ast.FunctionDef, ast.AsyncFunctionDef)):
                        out.add(m.name)
                        decs = [ast.unparse(d) for d in m.decorator_list]
                        body = [s for s in m.body if not (isinstance(s, ast.Expr) and isinstance(s.value, ast.Constant))]
                        is_getter = decs == ["property"] and len(body) == 1 and isinstance(body[0], ast.Return) \
                            and isinstance(body[0].value, ast.Attribute) and isinstance(body[0].value.value, ast.Name) and body[0].value.value.id == "self"
                        is_setter = len(decs) == 1 and decs[0].endswith(".setter")
                        trivial[m.name] = trivial.get(m.name, True) and (is_getter or is_setter)
    # a property whose every getter is `return self._x` reads like a data attribute (a local bound to it is an alias)
    return {n for n in out if not trivial.get(n, False)}


# --------------------------------------------------------------------------
# single-exit value returns -> one return per branch
# --------------------------------------------------------------------------
class _SinkReturns(ast.NodeTransformer):
    """`if a: x, y = A, B  elif b: x, y = C, D  else: x, y = E, F` followed by `return x, y` is written
    `if a: return A, B  elif b: return C, D  else: return E, F`: only when the names the return reads are assigned at
    the very end of *every* fall-through branch (so each copy of the return can be written without them; the order of
    evaluation is kept: the assigned expressions appear in the return in assignment order, or are call-free) and are
    not used by a nested function."""
    def visit_FunctionDef(self, node):
        self.generic_visit(node)
        nested_names = {x.id for n in ast.walk(node) if n is not node and isinstance(n, (ast.FunctionDef, ast.AsyncFunctionDef, ast.Lambda))
                        for x in ast.walk(n) if isinstance(x, ast.Name)}
        self._block(node.body, nested_names)
        return node
    visit_AsyncFunctionDef = visit_FunctionDef

    def _block(self, body, nested_names):
        for st in body:
            for fld in ("body", "orelse", "finalbody"):
                b = getattr(st, fld, None)
                if isinstance(b, list) and b and isinstance(b[0], ast.stmt) and not isinstance(st, (ast.FunctionDef, ast.AsyncFunctionDef, ast.ClassDef)):
                    self._block(b, nested_names)
            if isinstance(st, ast.Try):
                for h in st.handlers:
                    self._block(h.body, nested_names)
        if len(body) < 2 or not isinstance(body[-1], ast.Return) or body[-1].value is None or not isinstance(body[-2], ast.If):
            return
        ret, ifn = body[-1], body[-2]
        names = [x.id for x in ast.walk(ret.value) if isinstance(x, ast.Name) and isinstance(x.ctx, ast.Load)]
        if not names or len(set(names)) != len(names) or set(names) & nested_names:
            return
        if not all(isinstance(x, (ast.Name, ast.Tuple, ast.List, ast.Load, ast.Constant)) for x in ast.walk(ret.value)):
            return
        leaves = []
        if not self._leaves(ifn, leaves):
            return
        plans = []
        for blk in leaves:
            plan = self._plan(blk, names)
            if plan is None:
                return
            plans.append((blk, plan))
        import copy as _c
        for blk, plan in plans:
            k = len(plan)
            vals = {}
            for st_ in blk[len(blk) - k:]:
                vals[st_.targets[0].id] = st_.value

            class Sub(ast.NodeTransformer):
                def visit_Name(self, x):
                    return ast.copy_location(vals[x.id], x) if isinstance(x.ctx, ast.Load) and x.id in vals else x
            new_ret = ast.copy_location(ast.Return(Sub().visit(_c.deepcopy(ret.value))), blk[-1])
            del blk[len(blk) - k:]
            blk.append(new_ret)
        del body[-1]

    def _leaves(self, ifn, out) -> bool:
        for blk in (ifn.body, ifn.orelse):
            if not blk:
                return False                      # an if without else falls through with nothing assigned
            last = blk[-1]
            if isinstance(last, (ast.Raise,)):
                continue
            if isinstance(last, (ast.Return, ast.Continue, ast.Break)):
                return False
            if isinstance(last, ast.If):
                if not self._leaves(last, out):
                    return False
                continue
            out.append(blk)
        return True

    def _plan(self, blk, names):
        """the trailing assignments of the block that bind exactly `names` (each once), or None"""
        want = list(names)
        got = []
        i = len(blk) - 1
        while i >= 0 and len(got) < len(want):
            st = blk[i]
            if not (isinstance(st, ast.Assign) and len(st.targets) == 1 and isinstance(st.targets[0], ast.Name) and st.targets[0].id in want
                    and st.targets[0].id not in got):
                return None
            got.append(st.targets[0].id)
            i -= 1
        if sorted(got) != sorted(want):
            return None
        tail = blk[len(blk) - len(want):]
        order = [st.targets[0].id for st in tail]
        # a later assignment must not read an earlier target (it would have to be substituted too)
        for j, st in enumerate(tail):
            if any(isinstance(x, ast.Name) and x.id in order[:j] for x in ast.walk(st.value)):
                return None
        has_call = [any(isinstance(x, (ast.Call, ast.Await, ast.Yield, ast.YieldFrom)) for x in ast.walk(st.value)) for st in tail]
        if sum(has_call) > 1 and order != names:
            return None
        return tail


def sink_returns(tree: ast.AST) -> ast.AST:
    return ast.fix_missing_locations(_SinkReturns().visit(tree))


def _ends_with(body, kinds) -> bool:
    return bool(body) and isinstance(body[-1], kinds) and not (isinstance(body[-1], ast.Return) and body[-1].value is not None)


class _StructureGuards(ast.NodeTransformer):
    """Guard clauses are written out as nesting: in a loop body `if c: ...; continue` followed by REST becomes
    `if c: ... else: REST`, and a `continue` that is then the last statement of the iteration is dropped (an emptied
    branch is removed by negating the test exactly); likewise `if c: ...; return` (no value) followed by REST in a
    function body.  Both spellings of one control flow then read the same to every rule."""
    def _nest(self, body, jump):
        out = []
        for i, s in enumerate(body):
            if isinstance(s, ast.If):
                # the same rewrite inside the branches (a guard clause within a block guards the rest of that block)
                s.body = self._nest(s.body, jump)
                s.orelse = self._nest(s.orelse, jump)
            if isinstance(s, ast.If) and not s.orelse and _ends_with(s.body, jump) and i + 1 < len(body):
                s.orelse = self._nest(body[i + 1:], jump)
                out.append(s)
                return out
            out.append(s)
        return out

    def _trim(self, body, jump):
        """drop a jump that is the last action of the region; returns the new body (possibly empty)"""
        if not body:
            return body
        last = body[-1]
        if _ends_with(body, jump):
            return body[:-1]
        if isinstance(last, ast.If):
            last.body = self._trim(last.body, jump)
            last.orelse = self._trim(last.orelse, jump)
            if not last.body and not last.orelse:
                # both branches empty: only the test remains (kept for its evaluation only if it has a call)
                if any(isinstance(x, ast.Call) for x in ast.walk(last.test)):
                    body[-1] = ast.copy_location(ast.Expr(last.test), last)
                else:
                    body = body[:-1]
            elif not last.body:
                last.test, last.body, last.orelse = _negate_exact(last.test), last.orelse, []
        return body

    def visit_For(self, node):
        self.generic_visit(node)
        node.body = self._trim(self._nest(node.body, ast.Continue), ast.Continue) or [ast.copy_location(ast.Pass(), node)]
        return node
    visit_While = visit_For

    def _nest_value_returns(self, body):
        """`if c: ...; return X` followed by REST  ->  `if c: ...; return X else: REST` (any statement list)"""
        out = []
        for i, s in enumerate(body):
            if isinstance(s, ast.If) and not s.orelse and s.body and isinstance(s.body[-1], ast.Return) and s.body[-1].value is not None \
                    and i + 1 < len(body):
                s.orelse = self._nest_value_returns(body[i + 1:])
                out.append(s)
                return out
            out.append(s)
        return out

    def visit_If(self, node):
        self.generic_visit(node)
        node.body = self._nest_value_returns(node.body)
        node.orelse = self._nest_value_returns(node.orelse)
        return node

    def visit_FunctionDef(self, node):
        self.generic_visit(node)
        if not any(isinstance(x, (ast.Yield, ast.YieldFrom)) for x in ast.walk(node)):
            node.body = self._trim(self._nest(node.body, ast.Return), ast.Return) or [ast.copy_location(ast.Pass(), node)]
            node.body = self._nest_value_returns(node.body)
        return node


def structure_guards(tree: ast.AST) -> ast.AST:
    return _StructureGuards().visit(tree)


class _NumpyIdioms(ast.NodeTransformer):
    """One spelling per numpy operation (all pairs below are equivalent for the <=2-D float arrays of this package):
    a @ b, np.matmul(a, b), a.dot(b) -> np.dot(a, b);  np.subtract/add/multiply/divide(a, b) -> a - b, ...;
    np.identity -> np.eye;  np.multiply.outer -> np.outer;  np.random.random_sample/random/sample/ranf(n) ->
    np.random.rand(n);  np.sqrt(np.dot(v, v)) / np.sqrt((v ** 2).sum()) / np.sqrt(np.sum(v * v)) -> np.linalg.norm(v);
    np.all(x == 0), (x == 0).all(), not np.any(x != 0) -> not np.any(x);  x.mean(...) -> np.mean(x, ...)."""
    def __init__(self, np_alias: str):
        self.np = np_alias

    def _np(self, *attrs):
        e: ast.AST = ast.Name(self.np, ast.Load())
        for a in attrs:
            e = ast.Attribute(e, a, ast.Load())
        return e

    def _is_np(self, f: ast.AST, *attrs) -> bool:
        for a in reversed(attrs):
            if not (isinstance(f, ast.Attribute) and f.attr == a):
                return False
            f = f.value
        return isinstance(f, ast.Name) and f.id == self.np

    def visit_BinOp(self, node):
        self.generic_visit(node)
        if isinstance(node.op, ast.MatMult):
            return ast.copy_location(ast.Call(self._np("dot"), [node.left, node.right], []), node)
        return node

    def visit_UnaryOp(self, node):
        self.generic_visit(node)
        if isinstance(node.op, ast.Not):
            c = node.operand
            if isinstance(c, ast.Call) and self._is_np(c.func, "any") and len(c.args) == 1 and not c.keywords:
                x = c.args[0]
                if isinstance(x, ast.Compare) and len(x.ops) == 1 and isinstance(x.ops[0], ast.NotEq) \
                        and isinstance(x.comparators[0], ast.Constant) and x.comparators[0].value == 0 and not isinstance(x.comparators[0].value, bool):
                    c.args = [x.left]
        return node

    def visit_Attribute(self, node):
        self.generic_visit(node)
        if node.attr == "size" and isinstance(node.ctx, ast.Load) and isinstance(node.value, ast.Call) \
                and (self._is_np(node.value.func, "unique") or self._is_np(node.value.func, "union1d")) and not node.value.keywords:
            return self.visit_Call(ast.copy_location(ast.Call(ast.Name("len", ast.Load()), [node.value], []), node))
        return node

    def _square_of(self, e):
        if isinstance(e, ast.BinOp) and isinstance(e.op, ast.Pow) and isinstance(e.right, ast.Constant) and e.right.value == 2:
            return e.left
        if isinstance(e, ast.BinOp) and isinstance(e.op, ast.Mult) and ast.dump(e.left) == ast.dump(e.right):
            return e.left
        return None

    def visit_Call(self, node):
        self.generic_visit(node)
        f = node.func
        nokw = not node.keywords and not any(isinstance(a, ast.Starred) for a in node.args)
        binops = {"subtract": ast.Sub, "add": ast.Add, "multiply": ast.Mult, "divide": ast.Div, "true_divide": ast.Div}
        for nm, op in binops.items():
            if self._is_np(f, nm) and len(node.args) == 2 and nokw:
                return ast.copy_location(ast.BinOp(node.args[0], op(), node.args[1]), node)
        if self._is_np(f, "square") and len(node.args) == 1 and nokw:
            return ast.copy_location(ast.BinOp(node.args[0], ast.Pow(), ast.Constant(2)), node)
        if self._is_np(f, "power") and len(node.args) == 2 and nokw:
            return ast.copy_location(ast.BinOp(node.args[0], ast.Pow(), node.args[1]), node)
        if self._is_np(f, "negative") and len(node.args) == 1 and nokw:
            return ast.copy_location(ast.UnaryOp(ast.USub(), node.args[0]), node)
        if self._is_np(f, "matmul") and len(node.args) == 2 and nokw:
            node.func = self._np("dot")
            return node
        if self._is_np(f, "identity"):
            node.func = self._np("eye")
            return node
        if self._is_np(f, "multiply", "outer"):
            node.func = self._np("outer")
            return node
        for nm in ("random_sample", "random", "sample", "ranf"):
            if self._is_np(f, "random", nm) and len(node.args) <= 1 and nokw:
                node.func = self._np("random", "rand")
                if node.args and isinstance(node.args[0], ast.Tuple):
                    node.args = list(node.args[0].elts)
                return node
        # reductions: with an axis -> method form X.min(axis=k); without -> function form np.argmin(X); sums -> np.sum(X, ...)
        for nm in ("min", "max", "argmin", "argmax", "amin", "amax"):
            if self._is_np(f, nm) and node.args and (len(node.args) == 2 or any(k.arg == "axis" for k in node.keywords)) \
                    and not any(isinstance(a, ast.Starred) for a in node.args):
                kws = list(node.keywords)
                if len(node.args) == 2:
                    kws = [ast.keyword("axis", node.args[1])] + kws
                return ast.copy_location(ast.Call(ast.Attribute(node.args[0], nm.replace("amin", "min").replace("amax", "max"), ast.Load()), [], kws), node)
        if isinstance(f, ast.Attribute) and f.attr in ("argmin", "argmax") and not self._is_np(f, f.attr) and not node.args and not node.keywords:
            return ast.copy_location(ast.Call(self._np(f.attr), [f.value], []), node)
        if isinstance(f, ast.Attribute) and f.attr == "sum" and not self._is_np(f, "sum") \
                and not (isinstance(f.value, ast.Name) and f.value.id in (self.np, "math")) \
                and not any(isinstance(a, ast.Starred) for a in node.args):
            return ast.copy_location(ast.Call(self._np("sum"), [f.value] + node.args, node.keywords), node)
        # number of distinct entries of an index vector: np.unique(A).size, len(np.unique(A)) -> len(set(A));
        # np.union1d(A, B).size, len(np.union1d(A, B)) -> len(set(A).union(B))
        cnt = None
        if isinstance(f, ast.Name) and f.id == "len" and len(node.args) == 1 and nokw:
            cnt = node.args[0]
        if isinstance(cnt, ast.Call) and self._is_np(cnt.func, "unique") and len(cnt.args) == 1 and not cnt.keywords:
            return ast.copy_location(ast.Call(ast.Name("len", ast.Load()), [ast.Call(ast.Name("set", ast.Load()), [cnt.args[0]], [])], []), node)
        if isinstance(cnt, ast.Call) and self._is_np(cnt.func, "union1d") and len(cnt.args) == 2 and not cnt.keywords:
            return ast.copy_location(ast.Call(ast.Name("len", ast.Load()), [ast.Call(ast.Attribute(ast.Call(ast.Name("set", ast.Load()), [cnt.args[0]], []), "union", ast.Load()), [cnt.args[1]], [])], []), node)
        if isinstance(f, ast.Attribute) and f.attr in ("any", "all") and not self._is_np(f, f.attr) and not node.args and not node.keywords \
                and not isinstance(f.value, ast.Compare):
            # x.any() / x.all() on an array -> np.any(x) / np.all(x)
            return ast.copy_location(ast.Call(self._np(f.attr), [f.value], []), node)
        if isinstance(f, ast.Attribute) and f.attr == "dot" and not self._is_np(f, "dot") and len(node.args) == 1 and nokw:
            return ast.copy_location(ast.Call(self._np("dot"), [f.value, node.args[0]], []), node)
        if isinstance(f, ast.Attribute) and f.attr == "mean" and not self._is_np(f, "mean") and not isinstance(f.value, ast.Name) or \
                (isinstance(f, ast.Attribute) and f.attr == "mean" and isinstance(f.value, ast.Name) and f.value.id != self.np):
            return ast.copy_location(ast.Call(self._np("mean"), [f.value] + node.args, node.keywords), node)
        if self._is_np(f, "sqrt") and len(node.args) == 1 and nokw:
            a = node.args[0]
            v = None
            if isinstance(a, ast.Call) and self._is_np(a.func, "dot") and len(a.args) == 2 and ast.dump(a.args[0]) == ast.dump(a.args[1]):
                v = a.args[0]
            elif isinstance(a, ast.Call) and self._is_np(a.func, "sum") and len(a.args) == 1 and not a.keywords:
                v = self._square_of(a.args[0])
            elif isinstance(a, ast.Call) and isinstance(a.func, ast.Attribute) and a.func.attr == "sum" and not a.args and not a.keywords:
                v = self._square_of(a.func.value)
            if v is not None:
                return ast.copy_location(ast.Call(self._np("linalg", "norm"), [v], []), node)
        # exact "is the zero vector" tests
        zero_cmp = None
        if self._is_np(f, "all") and len(node.args) == 1 and nokw:
            zero_cmp = node.args[0]
        elif isinstance(f, ast.Attribute) and f.attr == "all" and not node.args and not node.keywords:
            zero_cmp = f.value
        if isinstance(zero_cmp, ast.Compare) and len(zero_cmp.ops) == 1 and isinstance(zero_cmp.ops[0], ast.Eq) \
                and isinstance(zero_cmp.comparators[0], ast.Constant) and zero_cmp.comparators[0].value == 0 \
                and not isinstance(zero_cmp.comparators[0].value, bool):
            return ast.copy_location(ast.UnaryOp(ast.Not(), ast.Call(self._np("any"), [zero_cmp.left], [])), node)
        return node


def numpy_idioms(tree: ast.Module) -> ast.AST:
    alias = None
    for st in ast.walk(tree):
        if isinstance(st, ast.Import):
            for al in st.names:
                if al.name == "numpy":
                    alias = al.asname or "numpy"
    if alias is None:
        return tree
    return ast.fix_missing_locations(_NumpyIdioms(alias).visit(tree))


def _pure_chain(e: ast.AST) -> bool:
    """a name / attribute / constant-subscript chain: evaluating it twice gives the same object and has no effect"""
    if isinstance(e, ast.Name):
        return True
    if isinstance(e, ast.Attribute):
        return _pure_chain(e.value)
    if isinstance(e, ast.Subscript):
        return _pure_chain(e.value) and (isinstance(e.slice, (ast.Constant, ast.Name)) or _pure_chain(e.slice))
    return False


class _Literals(ast.NodeTransformer):
    """Literal containers are written out: `[f(x) for x in (a, b)]` -> `[f(a), f(b)]` (comprehension over a literal
    tuple/list with a plain name target and no condition), `[a] + [b, c]` -> `[a, b, c]`, and
    `u, v = X` with X a pure name/attribute/subscript chain -> `u = X[0]; v = X[1]`."""
    def visit_ListComp(self, node):
        self.generic_visit(node)
        if len(node.generators) == 1:
            g = node.generators[0]
            if isinstance(g.iter, (ast.Tuple, ast.List)) and isinstance(g.target, ast.Name) and not g.ifs and not g.is_async \
                    and len(g.iter.elts) <= 6 and not any(isinstance(x, ast.Starred) for x in g.iter.elts):
                import copy as _c
                elts = []
                for it in g.iter.elts:
                    class _S(ast.NodeTransformer):
                        def visit_Name(self, n, it=it, t=g.target.id):
                            return _c.deepcopy(it) if n.id == t and isinstance(n.ctx, ast.Load) else n
                    elts.append(_S().visit(_c.deepcopy(node.elt)))
                return ast.copy_location(ast.List(elts, ast.Load()), node)
        return node

    def visit_BinOp(self, node):
        self.generic_visit(node)
        if isinstance(node.op, ast.Add) and isinstance(node.left, ast.List) and isinstance(node.right, ast.List):
            return ast.copy_location(ast.List(node.left.elts + node.right.elts, ast.Load()), node)
        return node

    def visit_JoinedStr(self, node):
        self.generic_visit(node)
        # an f-string that formats numbers (some field has a format specification) -> the equivalent str.format call:
        # f"{x:{w}.{d}f}|{y:5d}"  ->  "{:{w0}.{w1}f}|{:5d}".format(x, y, w0=w, w1=d)
        if not any(isinstance(v, ast.FormattedValue) and v.format_spec is not None for v in node.values):
            return node
        fmt, args, kws = [], [], []

        def spec_text(js):
            out = ""
            for v in js.values:
                if isinstance(v, ast.Constant):
                    out += str(v.value).replace("{", "{{").replace("}", "}}")
                elif isinstance(v, ast.FormattedValue) and v.format_spec is None and v.conversion == -1:
                    nm = "w%d" % len(kws)
                    kws.append(ast.keyword(nm, v.value))
                    out += "{%s}" % nm
                else:
                    raise ValueError
            return out
        try:
            for v in node.values:
                if isinstance(v, ast.Constant):
                    fmt.append(str(v.value).replace("{", "{{").replace("}", "}}"))
                elif isinstance(v, ast.FormattedValue):
                    conv = {-1: "", 115: "!s", 114: "!r", 97: "!a"}[v.conversion]
                    sp = ":" + spec_text(v.format_spec) if v.format_spec is not None else ""
                    fmt.append("{%s%s}" % (conv, sp))
                    args.append(v.value)
                else:
                    return node
        except (ValueError, KeyError):
            return node
        return ast.copy_location(ast.Call(ast.Attribute(ast.Constant("".join(fmt)), "format", ast.Load()), args, kws), node)

    def visit_While(self, node):
        self.generic_visit(node)
        # `while len(q) > 0:` / `while len(q) != 0:` / `while len(q) >= 1:`  ->  `while q:` (worklists are lists/deques)
        t = node.test
        if isinstance(t, ast.Compare) and len(t.ops) == 1 and isinstance(t.left, ast.Call) and isinstance(t.left.func, ast.Name) \
                and t.left.func.id == "len" and len(t.left.args) == 1 and isinstance(t.left.args[0], ast.Name) \
                and isinstance(t.comparators[0], ast.Constant):
            k, op = t.comparators[0].value, type(t.ops[0])
            if (op in (ast.Gt, ast.NotEq) and k == 0) or (op is ast.GtE and k == 1):
                node.test = t.left.args[0]
        return node

    def visit_For(self, node):
        self.generic_visit(node)
        # `for w in (A, B): BODY` over a short literal tuple/list of plain chains, without break/continue/else:
        # BODY[w := A]; BODY[w := B]
        if isinstance(node.iter, (ast.Tuple, ast.List)) and 1 <= len(node.iter.elts) <= 4 and isinstance(node.target, ast.Name) \
                and not node.orelse and all(_pure_chain(e) for e in node.iter.elts) \
                and not any(isinstance(x, (ast.Break, ast.Continue)) for b in node.body for x in ast.walk(b)) \
                and not any(isinstance(x, ast.Name) and x.id == node.target.id and isinstance(x.ctx, ast.Store) for b in node.body for x in ast.walk(b)):
            import copy as _c
            out = []
            for el in node.iter.elts:
                class _S(ast.NodeTransformer):
                    def visit_Name(self, n, el=el, t=node.target.id):
                        return ast.copy_location(_c.deepcopy(el), n) if n.id == t and isinstance(n.ctx, ast.Load) else n
                out.extend(_S().visit(_c.deepcopy(b)) for b in node.body)
            return out
        return node

    def visit_Compare(self, node):
        self.generic_visit(node)
        # chained comparison `a <= x <= b` with a pure middle operand -> `a <= x and x <= b`
        if len(node.ops) == 2 and (_pure_chain(node.comparators[0]) or isinstance(node.comparators[0], ast.Constant)
                                   or (isinstance(node.comparators[0], ast.Call) and isinstance(node.comparators[0].func, ast.Name)
                                       and node.comparators[0].func.id == "len" and len(node.comparators[0].args) == 1
                                       and _pure_chain(node.comparators[0].args[0]))):
            import copy as _c
            mid = node.comparators[0]
            return ast.copy_location(ast.BoolOp(ast.And(), [ast.Compare(node.left, [node.ops[0]], [mid]),
                                                            ast.Compare(_c.deepcopy(mid), [node.ops[1]], [node.comparators[1]])]), node)
        # `K in (x, y)` with a constant K and a literal tuple/list -> `x == K or y == K`
        if len(node.ops) == 1 and isinstance(node.ops[0], (ast.In, ast.NotIn)) and isinstance(node.left, ast.Constant) \
                and isinstance(node.comparators[0], (ast.Tuple, ast.List)) and 1 <= len(node.comparators[0].elts) <= 4 \
                and not any(isinstance(e, (ast.Starred, ast.Constant)) for e in node.comparators[0].elts):
            import copy as _c
            cmps = [ast.Compare(e, [ast.Eq()], [_c.deepcopy(node.left)]) for e in node.comparators[0].elts]
            out = cmps[0] if len(cmps) == 1 else ast.BoolOp(ast.Or(), cmps)
            if isinstance(node.ops[0], ast.NotIn):
                out = ast.UnaryOp(ast.Not(), out)
            return ast.copy_location(out, node)
        # `X in (1, 2)` with integer constants and a pure X (or len(pure)) -> `X == 1 or X == 2`
        lf = node.left
        pure_left = _pure_chain(lf) or (isinstance(lf, ast.Call) and isinstance(lf.func, ast.Name) and lf.func.id == "len"
                                        and len(lf.args) == 1 and not lf.keywords and _pure_chain(lf.args[0]))
        if len(node.ops) == 1 and isinstance(node.ops[0], (ast.In, ast.NotIn)) and pure_left \
                and isinstance(node.comparators[0], (ast.Tuple, ast.List, ast.Set)) and 1 <= len(node.comparators[0].elts) <= 4 \
                and all(isinstance(e, ast.Constant) and isinstance(e.value, int) and not isinstance(e.value, bool) for e in node.comparators[0].elts):
            import copy as _c
            cmps = [ast.Compare(_c.deepcopy(lf), [ast.Eq()], [e]) for e in node.comparators[0].elts]
            out = cmps[0] if len(cmps) == 1 else ast.BoolOp(ast.Or(), cmps)
            if isinstance(node.ops[0], ast.NotIn):
                out = ast.UnaryOp(ast.Not(), out)
            return ast.copy_location(out, node)
        return node

    def visit_Call(self, node):
        self.generic_visit(node)
        # itemgetter(k) / operator.itemgetter(k) with one constant index -> lambda x: x[k]
        f = node.func
        nm = f.attr if isinstance(f, ast.Attribute) else (f.id if isinstance(f, ast.Name) else None)
        if nm == "itemgetter" and len(node.args) == 1 and not node.keywords and isinstance(node.args[0], ast.Constant):
            return ast.copy_location(ast.Lambda(
                ast.arguments(posonlyargs=[], args=[ast.arg("x")], kwonlyargs=[], kw_defaults=[], defaults=[]),
                ast.Subscript(ast.Name("x", ast.Load()), node.args[0], ast.Load())), node)
        # getattr(x, 'name') with a literal identifier -> x.name
        if isinstance(f, ast.Name) and f.id == "getattr" and len(node.args) == 2 and not node.keywords and isinstance(node.args[1], ast.Constant) \
                and isinstance(node.args[1].value, str) and node.args[1].value.isidentifier():
            return ast.copy_location(ast.Attribute(node.args[0], node.args[1].value, ast.Load()), node)
        # dict.fromkeys(X) / dict.fromkeys(X, K) with a constant K -> {k_: K for k_ in X}
        if isinstance(f, ast.Attribute) and f.attr == "fromkeys" and isinstance(f.value, ast.Name) and f.value.id == "dict" \
                and len(node.args) in (1, 2) and not node.keywords and (len(node.args) == 1 or isinstance(node.args[1], ast.Constant)):
            val = node.args[1] if len(node.args) == 2 else ast.Constant(None)
            return ast.copy_location(ast.DictComp(ast.Name("name", ast.Load()), val,
                                                  [ast.comprehension(ast.Name("name", ast.Store()), node.args[0], [], 0)]), node)
        return node

    def visit_AnnAssign(self, node):
        self.generic_visit(node)
        if node.value is not None and (isinstance(node.target, ast.Name) and node.simple or isinstance(node.target, ast.Attribute)):
            # `x: T = v` binds x exactly as `x = v` does
            return ast.copy_location(ast.Assign([node.target], node.value), node)
        return node

    def _fix(self, body):
        out = []
        # `t = list(E)` / `t = [..]` directly followed by `t.sort(...)`  ->  `t = sorted(E, ...)`
        merged = []
        i = 0
        while i < len(body):
            a = body[i]
            nx = body[i + 1] if i + 1 < len(body) else None
            if isinstance(a, ast.Assign) and len(a.targets) == 1 and isinstance(a.targets[0], ast.Name) and isinstance(nx, ast.Expr) \
                    and isinstance(nx.value, ast.Call) and isinstance(nx.value.func, ast.Attribute) and nx.value.func.attr == "sort" \
                    and isinstance(nx.value.func.value, ast.Name) and nx.value.func.value.id == a.targets[0].id and not nx.value.args:
                src = a.value
                if isinstance(src, ast.Call) and isinstance(src.func, ast.Name) and src.func.id == "list" and len(src.args) == 1 and not src.keywords:
                    src = src.args[0]
                if isinstance(a.value, (ast.List, ast.ListComp)) or src is not a.value:
                    a.value = ast.copy_location(ast.Call(ast.Name("sorted", ast.Load()), [src], nx.value.keywords), a.value)
                    merged.append(a)
                    i += 2
                    continue
            merged.append(a)
            i += 1
        body = merged
        # `yield from X` as a statement (its value unused) -> `for item_ in X: yield item_` (the generators of this
        # package are only ever iterated: no send / throw / generator return value)
        merged = []
        for a in body:
            if isinstance(a, ast.Expr) and isinstance(a.value, ast.YieldFrom):
                y = ast.copy_location(ast.Expr(ast.copy_location(ast.Yield(ast.Name("item_", ast.Load())), a)), a)
                merged.append(ast.copy_location(ast.For(ast.Name("item_", ast.Store()), a.value.value, [y], [], None), a))
            else:
                merged.append(a)
        body = merged
        # default-then-override: `x = A; if C: x = B` (no else; A a constant or a plain name, or an attribute chain when
        # C is call-free)  ->  `if C[x:=A]: x = B else: x = A`
        merged = []
        i = 0
        while i < len(body):
            a = body[i]
            nx = body[i + 1] if i + 1 < len(body) else None
            if isinstance(a, ast.Assign) and len(a.targets) == 1 and isinstance(a.targets[0], ast.Name) and isinstance(nx, ast.If) \
                    and not nx.orelse and len(nx.body) == 1 and isinstance(nx.body[0], ast.Assign) and len(nx.body[0].targets) == 1 \
                    and isinstance(nx.body[0].targets[0], ast.Name) and nx.body[0].targets[0].id == a.targets[0].id:
                x = a.targets[0].id
                A = a.value
                simple = isinstance(A, (ast.Constant, ast.Name))
                chain_ = _pure_chain(A) and not any(isinstance(y, (ast.Call, ast.NamedExpr, ast.Await, ast.Yield, ast.YieldFrom)) for y in ast.walk(nx.test))
                reads_x_in_B = any(isinstance(y, ast.Name) and y.id == x for y in ast.walk(nx.body[0].value))
                walrus = any(isinstance(y, ast.NamedExpr) for y in ast.walk(nx.test))
                if (simple or chain_) and not reads_x_in_B and not walrus and not (isinstance(A, ast.Name) and A.id == x):
                    import copy as _c

                    class S(ast.NodeTransformer):
                        def visit_Name(self, y):
                            return ast.copy_location(_c.deepcopy(A), y) if y.id == x and isinstance(y.ctx, ast.Load) else y
                    new_if = ast.copy_location(ast.If(S().visit(_c.deepcopy(nx.test)), nx.body, [a]), nx)
                    merged.append(new_if)
                    i += 2
                    continue
            merged.append(a)
            i += 1
        body = merged
        # `a = b = K` with a constant K -> `a = K; b = K`
        merged = []
        for a in body:
            if isinstance(a, ast.Assign) and len(a.targets) > 1 and isinstance(a.value, ast.Constant) and all(isinstance(t, ast.Name) for t in a.targets):
                for t in a.targets:
                    merged.append(ast.copy_location(ast.Assign([t], ast.copy_location(ast.Constant(a.value.value), a.value)), a))
            else:
                merged.append(a)
        body = merged
        # `t = A if c else B` -> `if c: t = A else: t = B`
        merged = []
        for a in body:
            if isinstance(a, ast.Assign) and len(a.targets) == 1 and isinstance(a.value, ast.IfExp) and _pure_chain(a.targets[0]):
                import copy as _c
                merged.append(ast.copy_location(ast.If(a.value.test,
                                                       [ast.copy_location(ast.Assign([_c.deepcopy(a.targets[0])], a.value.body), a)],
                                                       [ast.copy_location(ast.Assign([_c.deepcopy(a.targets[0])], a.value.orelse), a)]), a))
            else:
                merged.append(a)
        body = merged
        # `a, b = X, Y` (literal tuple on both sides, no target read on the right) -> `a = X; b = Y`
        merged = []
        for a in body:
            if isinstance(a, ast.Assign) and len(a.targets) == 1 and isinstance(a.targets[0], ast.Tuple) and isinstance(a.value, ast.Tuple) \
                    and len(a.targets[0].elts) == len(a.value.elts) and all(isinstance(t, ast.Name) for t in a.targets[0].elts) \
                    and not any(isinstance(e, ast.Starred) for e in a.value.elts):
                names = {t.id for t in a.targets[0].elts}
                if len(names) == len(a.targets[0].elts) and not any(isinstance(x, ast.Name) and x.id in names for e in a.value.elts for x in ast.walk(e)):
                    for t, e in zip(a.targets[0].elts, a.value.elts):
                        merged.append(ast.copy_location(ast.Assign([ast.Name(t.id, ast.Store())], e), a))
                    continue
            # item / attribute targets: `m[0, 1], m[0, 2] = (x, -y)` -> two stores, when the right-hand sides are built from
            # plain names and constants only (nothing a store could change) and no target name is read on the right
            if isinstance(a, ast.Assign) and len(a.targets) == 1 and isinstance(a.targets[0], ast.Tuple) and isinstance(a.value, ast.Tuple) \
                    and len(a.targets[0].elts) == len(a.value.elts) \
                    and all(isinstance(t, (ast.Subscript, ast.Attribute, ast.Name)) for t in a.targets[0].elts) \
                    and all(isinstance(x, (ast.Name, ast.Constant, ast.UnaryOp, ast.BinOp, ast.operator, ast.unaryop, ast.expr_context))
                            for e in a.value.elts for x in ast.walk(e)):
                tn = {x.id for t in a.targets[0].elts for x in ast.walk(t) if isinstance(x, ast.Name) and isinstance(x.ctx, ast.Store)}
                rn = {x.id for e in a.value.elts for x in ast.walk(e) if isinstance(x, ast.Name)}
                if not (tn & rn):
                    for t, e in zip(a.targets[0].elts, a.value.elts):
                        merged.append(ast.copy_location(ast.Assign([t], e), a))
                    continue
            merged.append(a)
        body = merged
        for s in body:
            if isinstance(s, ast.Assign) and len(s.targets) == 1 and isinstance(s.targets[0], ast.Tuple) \
                    and all(isinstance(t, ast.Name) for t in s.targets[0].elts) and _pure_chain(s.value) \
                    and isinstance(s.value, (ast.Subscript, ast.Attribute)) \
                    and not any(isinstance(x, ast.Name) and x.id in {t.id for t in s.targets[0].elts} for x in ast.walk(s.value)):
                import copy as _c
                for i, t in enumerate(s.targets[0].elts):
                    out.append(ast.copy_location(ast.Assign([ast.Name(t.id, ast.Store())],
                                                            ast.Subscript(_c.deepcopy(s.value), ast.Constant(i), ast.Load())), s))
            else:
                out.append(s)
        return out

    def generic_visit(self, node):
        super().generic_visit(node)
        for fld in ("body", "orelse", "finalbody"):
            b = getattr(node, fld, None)
            if isinstance(b, list) and b and isinstance(b[0], ast.stmt):
                setattr(node, fld, self._fix(b))
        if isinstance(node, ast.Try):
            for h in node.handlers:
                h.body = self._fix(h.body)
        return node


def literal_forms(tree: ast.AST) -> ast.AST:
    return ast.fix_missing_locations(_Literals().visit(tree))


class _ChainLoops(ast.NodeTransformer):
    """A loop over a lazily flattened generator is the loop nest it abbreviates:

        for x in chain.from_iterable(E for m in S if C): BODY          ->  for m in S:
                                                                               if C:
                                                                                   for x in E: BODY
        for i, x in enumerate(chain.from_iterable(...), start=K): BODY ->  i = K ; the nest above with `i += 1` at the
                                                                           end of BODY
    (the generator may be bound once to a local used only there).  Exact: the generator is consumed lazily, so E is
    evaluated for an element of S when the previous element's items are exhausted - the order of the nest.  Not
    rewritten when BODY contains `continue` (the counter form) or the loop has an else clause."""
    def visit_FunctionDef(self, node):
        self.generic_visit(node)
        gens = {}
        loads = {}
        for x in ast.walk(node):
            if isinstance(x, ast.Name) and isinstance(x.ctx, ast.Load):
                loads[x.id] = loads.get(x.id, 0) + 1
        stores = {}
        for x in ast.walk(node):
            if isinstance(x, ast.Name) and isinstance(x.ctx, (ast.Store, ast.Del)):
                stores[x.id] = stores.get(x.id, 0) + 1
        for x in ast.walk(node):
            if isinstance(x, ast.Assign) and len(x.targets) == 1 and isinstance(x.targets[0], ast.Name) and isinstance(x.value, ast.GeneratorExp) \
                    and stores.get(x.targets[0].id) == 1 and loads.get(x.targets[0].id) == 1:
                gens[x.targets[0].id] = x
        used = []

        flats = {}
        for x in ast.walk(node):
            if isinstance(x, ast.Assign) and len(x.targets) == 1 and isinstance(x.targets[0], ast.Name) and isinstance(x.value, ast.Call) \
                    and isinstance(x.value.func, ast.Attribute) and x.value.func.attr == "from_iterable" \
                    and stores.get(x.targets[0].id) == 1 and loads.get(x.targets[0].id) == 1:
                flats[x.targets[0].id] = x

        def flat_source(it, via=None):
            if isinstance(it, ast.Name) and it.id in flats and via is None:
                g, bound = flat_source(flats[it.id].value, via=flats[it.id])
                return g, ([b for b in (bound if isinstance(bound, list) else [bound]) if b is not None] + [flats[it.id]]) if g is not None else None
            if isinstance(it, ast.Call) and isinstance(it.func, ast.Attribute) and it.func.attr == "from_iterable" and len(it.args) == 1 \
                    and not it.keywords and norm(it.func.value) in ("chain", "itertools.chain"):
                g = it.args[0]
                if isinstance(g, ast.Name) and g.id in gens:
                    return gens[g.id].value, gens[g.id]
                if isinstance(g, ast.GeneratorExp):
                    return g, None
                if _pure_chain(g) and not (isinstance(g, ast.Name) and (stores.get(g.id, 0) > 1)):
                    # a plain sequence of sequences: for seq_ in S: for x in seq_
                    return ast.GeneratorExp(ast.Name("seq_", ast.Load()), [ast.comprehension(ast.Name("seq_", ast.Store()), g, [], 0)]), None
            return None, None

        def rewrite(body):
            out = []
            for st in body:
                for fld in ("body", "orelse", "finalbody"):
                    b = getattr(st, fld, None)
                    if isinstance(b, list) and b and isinstance(b[0], ast.stmt):
                        setattr(st, fld, rewrite(b))
                if isinstance(st, ast.Try):
                    for h in st.handlers:
                        h.body = rewrite(h.body)
                if not (isinstance(st, ast.For) and not st.orelse):
                    out.append(st)
                    continue
                it, counter, start = st.iter, None, None
                if isinstance(it, ast.Call) and isinstance(it.func, ast.Name) and it.func.id == "enumerate" and it.args \
                        and isinstance(st.target, ast.Tuple) and len(st.target.elts) == 2 and isinstance(st.target.elts[0], ast.Name):
                    start = ast.Constant(0)
                    if len(it.args) == 2:
                        start = it.args[1]
                    for k in it.keywords:
                        if k.arg == "start":
                            start = k.value
                    counter = st.target.elts[0].id
                    it = it.args[0]
                g, bound = flat_source(it)
                if g is None:
                    out.append(st)
                    continue
                has_continue = any(isinstance(x, ast.Continue) for b in st.body for x in ast.walk(b))
                inside = sum(1 for b in st.body for x in ast.walk(b) if isinstance(x, ast.Name) and x.id == counter and isinstance(x.ctx, ast.Load))
                if counter is not None and (has_continue or not isinstance(start, ast.Constant) or inside != loads.get(counter, 0)
                                            or stores.get(counter, 0) != 1):
                    out.append(st)
                    continue
                target = st.target.elts[1] if counter is not None else st.target
                inner_body = list(st.body)
                if counter is not None:
                    inner_body.append(ast.copy_location(ast.AugAssign(ast.Name(counter, ast.Store()), ast.Add(), ast.Constant(1)), st.body[-1]))
                cur = ast.copy_location(ast.For(target, g.elt, inner_body, [], None), st)
                for comp in reversed(g.generators):
                    blk = [cur]
                    for c in reversed(comp.ifs):
                        blk = [ast.copy_location(ast.If(c, blk, []), st)]
                    cur = ast.copy_location(ast.For(comp.target, comp.iter, blk, [], None), st)
                if counter is not None:
                    out.append(ast.copy_location(ast.Assign([ast.Name(counter, ast.Store())], start), st))
                out.append(cur)
                if bound is not None:
                    used.extend(bound if isinstance(bound, list) else [bound])
            return out
        node.body = rewrite(node.body)
        if used:
            class Drop(ast.NodeTransformer):
                def visit_Assign(self, x):
                    return None if any(x is u for u in used) else x
            Drop().visit(node)
        return node
    visit_AsyncFunctionDef = visit_FunctionDef


def chain_loops(tree: ast.AST) -> ast.AST:
    return ast.fix_missing_locations(_ChainLoops().visit(tree))


def _dotted(e: ast.AST) -> bool:
    if isinstance(e, ast.Name):
        return e.id not in ("self", "cls")
    return isinstance(e, ast.Attribute) and _dotted(e.value)


class _FunctionAliases(ast.NodeTransformer):
    """`_f = np.dot` ... `_f(x)`  ->  `np.dot(x)`: a local bound exactly once to a dotted name (module function or
    global, not rooted at self) and only ever *called* is replaced by that name."""
    def visit_FunctionDef(self, node):
        self.generic_visit(node)
        stores: Dict[str, int] = {}
        cand: Dict[str, ast.Assign] = {}
        for x in ast.walk(node):
            if isinstance(x, ast.Name) and isinstance(x.ctx, (ast.Store, ast.Del)):
                stores[x.id] = stores.get(x.id, 0) + 1
        for x in node.body:
            if isinstance(x, ast.Assign) and len(x.targets) == 1 and isinstance(x.targets[0], ast.Name) and _dotted(x.value):
                cand[x.targets[0].id] = x
        params = {a.arg for a in node.args.posonlyargs + node.args.args + node.args.kwonlyargs}
        ok = {}
        for nm, st in cand.items():
            if stores.get(nm) != 1 or nm in params:
                continue
            root = st.value
            while isinstance(root, ast.Attribute):
                root = root.value
            if stores.get(root.id, 0) or root.id in params:
                continue            # the aliased name is itself a local
            loads = [x for x in ast.walk(node) if isinstance(x, ast.Name) and x.id == nm and isinstance(x.ctx, ast.Load)]
            called = [c.func for c in ast.walk(node) if isinstance(c, ast.Call) and isinstance(c.func, ast.Name) and c.func.id == nm]
            # a plain global must only ever be called through the alias; an attribute of a class/module (a registry, a
            # constant) may be read in any way
            if loads and (len(loads) == len(called) or isinstance(st.value, ast.Attribute)):
                ok[nm] = st
        if not ok:
            return node
        import copy as _c

        class R(ast.NodeTransformer):
            def visit_Name(self, n):
                if n.id in ok and isinstance(n.ctx, ast.Load):
                    return ast.copy_location(_c.deepcopy(ok[n.id].value), n)
                return n
        node = R().visit(node)
        node.body = [s for s in node.body if s not in ok.values()] or [ast.Pass()]
        return node
    visit_AsyncFunctionDef = visit_FunctionDef


def function_aliases(tree: ast.AST) -> ast.AST:
    return ast.fix_missing_locations(_FunctionAliases().visit(tree))


class _PairedNames(ast.NodeTransformer):
    """`if c: a, b = X, Y else: a, b = Y, X` (the only bindings of a and b) -> `ab = [X, Y]` / `ab = [Y, X]` with every
    read of a / b replaced by ab[0] / ab[1]: an ordered pair is the same thing whether it is kept in two names or in
    one two-element list."""
    def visit_FunctionDef(self, node):
        self.generic_visit(node)
        params = {a.arg for a in node.args.posonlyargs + node.args.args + node.args.kwonlyargs}
        for n in list(ast.walk(node)):
            if not (isinstance(n, ast.If) and n.body and n.orelse):
                continue
            def pair(block):
                hits = [s for s in block if isinstance(s, ast.Assign) and len(s.targets) == 1 and isinstance(s.targets[0], ast.Tuple)
                        and len(s.targets[0].elts) == 2 and all(isinstance(t, ast.Name) for t in s.targets[0].elts)
                        and isinstance(s.value, ast.Tuple) and len(s.value.elts) == 2]
                return hits[0] if len(hits) == 1 else None
            pa, pb = pair(n.body), pair(n.orelse)
            if pa is None or pb is None:
                continue
            na = [t.id for t in pa.targets[0].elts]
            if na != [t.id for t in pb.targets[0].elts] or na[0] == na[1] or set(na) & params:
                continue
            # only the "same two objects in one order or the other" pattern: (X, Y) / (Y, X) with X, Y plain chains
            va, vb = [ast.dump(e) for e in pa.value.elts], [ast.dump(e) for e in pb.value.elts]
            if va != vb[::-1] or not all(_pure_chain(e) for e in pa.value.elts):
                continue
            stores = [x for x in ast.walk(node) if isinstance(x, ast.Name) and x.id in na and isinstance(x.ctx, (ast.Store, ast.Del))]
            if len(stores) != 4:
                continue
            lst = "%s_%s_pair" % (na[0], na[1])
            if any(isinstance(x, ast.Name) and x.id == lst for x in ast.walk(node)):
                continue
            for st in (pa, pb):
                st.targets = [ast.Name(lst, ast.Store())]
                st.value = ast.copy_location(ast.List(list(st.value.elts), ast.Load()), st.value)

            class R(ast.NodeTransformer):
                def visit_Name(self, x):
                    if x.id in na and isinstance(x.ctx, ast.Load):
                        return ast.copy_location(ast.Subscript(ast.Name(lst, ast.Load()), ast.Constant(na.index(x.id)), ast.Load()), x)
                    return x
            R().visit(node)
        return node
    visit_AsyncFunctionDef = visit_FunctionDef


def paired_names(tree: ast.AST) -> ast.AST:
    return ast.fix_missing_locations(_PairedNames().visit(tree))


class _ItemsLoops(ast.NodeTransformer):
    """`for k, v in D.items(): BODY`  ->  `for k in D: BODY` with every read of v written `D[k]` (D a plain
    name/attribute chain that BODY does not rebind, v not rebound in BODY): the value paired with a key is the entry
    under that key."""
    def visit_For(self, node):
        self.generic_visit(node)
        it = node.iter
        if isinstance(it, ast.Call) and isinstance(it.func, ast.Attribute) and it.func.attr == "items" and not it.args and not it.keywords \
                and _pure_chain(it.func.value) and isinstance(node.target, ast.Tuple) and len(node.target.elts) == 2 \
                and all(isinstance(t, ast.Name) for t in node.target.elts) and not node.orelse:
            k, v = node.target.elts[0].id, node.target.elts[1].id
            root = it.func.value
            while isinstance(root, (ast.Attribute, ast.Subscript)):
                root = root.value
            body_stores = {x.id for b in node.body for x in ast.walk(b) if isinstance(x, ast.Name) and isinstance(x.ctx, (ast.Store, ast.Del))}
            if v in body_stores or k in body_stores or root.id in body_stores or k == v:
                return node
            import copy as _c
            D = it.func.value

            class R(ast.NodeTransformer):
                def visit_Name(self, x):
                    if x.id == v and isinstance(x.ctx, ast.Load):
                        return ast.copy_location(ast.Subscript(_c.deepcopy(D), ast.Name(k, ast.Load()), ast.Load()), x)
                    return x
            node.body = [R().visit(b) for b in node.body]
            node.target = ast.copy_location(ast.Name(k, ast.Store()), node.target)
            node.iter = D
        return node


def items_loops(tree: ast.AST) -> ast.AST:
    return ast.fix_missing_locations(_ItemsLoops().visit(tree))


class _CompiledRegex(ast.NodeTransformer):
    """`P = re.compile(<literal>)` at module level ... `P.match(s)`  ->  `re.match(<literal>, s)` (same for search,
    findall, fullmatch, split, sub, finditer): a pre-compiled pattern is the pattern."""
    METHODS = {"match", "search", "findall", "fullmatch", "split", "sub", "subn", "finditer"}

    def __init__(self, table):
        self.table = table

    def visit_Call(self, node):
        self.generic_visit(node)
        f = node.func
        if isinstance(f, ast.Attribute) and f.attr in self.METHODS and isinstance(f.value, ast.Name) and f.value.id in self.table:
            import copy as _c
            return ast.copy_location(ast.Call(ast.Attribute(ast.Name("re", ast.Load()), f.attr, ast.Load()),
                                              [_c.deepcopy(self.table[f.value.id])] + node.args, node.keywords), node)
        return node


def compiled_regexes(tree: ast.Module) -> ast.AST:
    table = {}
    stores = {}
    for x in ast.walk(tree):
        if isinstance(x, ast.Name) and isinstance(x.ctx, ast.Store):
            stores[x.id] = stores.get(x.id, 0) + 1
    for st in tree.body:
        if isinstance(st, ast.Assign) and len(st.targets) == 1 and isinstance(st.targets[0], ast.Name) and isinstance(st.value, ast.Call) \
                and isinstance(st.value.func, ast.Attribute) and st.value.func.attr == "compile" and isinstance(st.value.func.value, ast.Name) \
                and st.value.func.value.id == "re" and len(st.value.args) == 1 and not st.value.keywords \
                and isinstance(st.value.args[0], ast.Constant) and stores.get(st.targets[0].id) == 1:
            table[st.targets[0].id] = st.value.args[0]
    if not table:
        return tree
    return ast.fix_missing_locations(_CompiledRegex(table).visit(tree))


class AnalysisError(Exception):
    """Anchor vanished / unparsable file / floor not met: exit 2, never a pass."""


# --------------------------------------------------------------------------
# program model
# --------------------------------------------------------------------------
@dataclass
class Func:
    qual: str
    name: str
    node: ast.AST            # FunctionDef
    module: "Module"
    cls: Optional["Class"]
    kind: str                # 'func' | 'method' | 'getter' | 'setter' | 'static' | 'classmeth'
    parent: Optional["Func"] = None   # enclosing function for nested defs

    @property
    def file(self) -> str:
        return self.module.relpath

    @property
    def line(self) -> int:
        return self.node.lineno

    @property
    def params(self) -> List[str]:
        a = self.node.args
        return [x.arg for x in a.posonlyargs + a.args] + \
            ([a.vararg.arg] if a.vararg else []) + \
            [x.arg for x in a.kwonlyargs] + ([a.kwarg.arg] if a.kwarg else [])

    @property
    def self_name(self) -> Optional[str]:
        if self.cls is not None and self.kind in ("method", "getter", "setter"):
            p = self.params
            return p[0] if p else None
        return None

    def __hash__(self):
        return hash(self.qual)

    def __eq__(self, o):
        return isinstance(o, Func) and o.qual == self.qual

    def __repr__(self):
        return "<Func %s>" % self.qual


@dataclass
class Class:
    qual: str
    name: str
    node: ast.ClassDef
    module: "Module"
    bases: List[str] = field(default_factory=list)      # names as written
    methods: Dict[str, Func] = field(default_factory=dict)       # plain methods
    getters: Dict[str, Func] = field(default_factory=dict)
    setters: Dict[str, Func] = field(default_factory=dict)
    consts: Dict[str, ast.AST] = field(default_factory=dict)     # class-level assigns
    const_ann: Dict[str, ast.AST] = field(default_factory=dict)  # class-level annotations

    def __repr__(self):
        return "<Class %s>" % self.qual

    def __hash__(self):
        return hash(self.qual)

    def __eq__(self, o):
        return isinstance(o, Class) and o.qual == self.qual


@dataclass
class Module:
    name: str
    path: str
    relpath: str
    src: str
    node: ast.Module
    imports: Dict[str, str] = field(default_factory=dict)   # local name -> dotted origin

    def __repr__(self):
        return "<Module %s>" % self.name


def norm(node: Any) -> str:
    """Normalised text of a construct (never keyed on line numbers)."""
    if node is None:
        return ""
    if isinstance(node, str):
        return " ".join(node.split())
    if isinstance(node, list):
        return "; ".join(norm(n) for n in node)
    try:
        txt = ast.unparse(node)
    except Exception:  # pragma: no cover
        txt = ast.dump(node)
    txt = " ".join(txt.split())
    return txt if len(txt) <= 400 else txt[:397] + "..."


def head(node: ast.AST) -> str:
    """Normalised header text of a (possibly compound) statement."""
    if isinstance(node, ast.If):
        return "if " + norm(node.test)
    if isinstance(node, ast.While):
        return "while " + norm(node.test)
    if isinstance(node, ast.For):
        return "for %s in %s" % (norm(node.target), norm(node.iter))
    if isinstance(node, ast.With):
        return "with " + ", ".join(norm(i) for i in node.items)
    if isinstance(node, ast.Try):
        return "try"
    if isinstance(node, (ast.FunctionDef, ast.AsyncFunctionDef)):
        return "def " + node.name
    if isinstance(node, ast.ClassDef):
        return "class " + node.name
    return norm(node)


class Repo:
    PKG = "gaddlemaps"

    def __init__(self, root: Optional[str] = None):
        self.root = root or repo_root()
        self.modules: Dict[str, Module] = {}
        self.funcs: Dict[str, Func] = {}
        self.classes: Dict[str, Class] = {}
        self.renamed: Dict[str, str] = {}           # new name -> reference name, for functions that were merely renamed
        self.inlined: Dict[str, List[str]] = {}     # module -> helpers (absent from the reference tree) spliced into their callers
        self._load()

    # ---------------------------------------------------------------- load
    def _load(self):
        pkg_dir = os.path.join(self.root, self.PKG)
        if not os.path.isdir(pkg_dir):
            raise AnalysisError("package directory %s not found" % pkg_dir)
        raw: Dict[str, tuple] = {}
        for dirpath, dirnames, filenames in os.walk(pkg_dir):
            dirnames[:] = sorted(d for d in dirnames
                                 if d not in ("__pycache__", "data"))
            for fn in sorted(filenames):
                if not fn.endswith(".py"):
                    continue
                path = os.path.join(dirpath, fn)
                rel = os.path.relpath(path, self.root)
                mod = rel[:-3].replace(os.sep, ".")
                if mod.endswith(".__init__"):
                    mod = mod[: -len(".__init__")]
                try:
                    with open(path, encoding="utf-8") as fh:
                        src = fh.read()
                    raw[mod] = (path, rel, src, ast.parse(src, filename=path))
                except (SyntaxError, OSError, UnicodeDecodeError) as exc:
                    raise AnalysisError("cannot parse %s: %s" % (rel, exc))
        from .inline import inline_new_helpers, known_functions, undo_renames, changed_functions, known_constants
        kconst = known_constants()
        # which functions are not, token for token, functions of the reference tree (empty on the reference tree)
        self.changed = changed_functions({mod: v[3] for mod, v in raw.items()})
        self.renamed = undo_renames({mod: v[3] for mod, v in raw.items()})
        props = package_properties(v[3] for v in raw.values())
        for mod, (path, rel, src, tree) in raw.items():
            tree = items_loops(chain_loops(literal_forms(paired_names(numpy_idioms(function_aliases(compiled_regexes(sentinel_dispatch(sroa_namedtuples(fold_new_constants(strip_inert(tree), mod, kconst) if kconst else strip_inert(tree))))))))))
            tree, inl, skipped = inline_new_helpers(tree, mod, known_functions())
            if inl:
                self.inlined[mod] = sorted(set(inl))
                tree = bulk_updates(copy_names(literal_forms(forward_single_use_temps(fold_constant_tests(tree)))))
            tree = orient_comparisons(inline_adjacent_temps(forward_single_use_temps(self_attr_aliases(structure_guards(orient_comparisons(sink_returns(tree))), props))))
            self.modules[mod] = Module(mod, path, rel, src, tree)
        if not self.modules:
            raise AnalysisError("no modules parsed under %s" % pkg_dir)
        keywords_to_positional([m.node for m in self.modules.values()])
        for m in self.modules.values():
            self._index_module(m)

    def _index_module(self, m: Module):
        is_pkg = m.path.endswith("__init__.py")
        for st in ast.walk(m.node):
            if isinstance(st, ast.ImportFrom):
                base = m.name if is_pkg else m.name.rsplit(".", 1)[0]
                if st.level:
                    parts = base.split(".")
                    up = st.level - 1
                    if up:
                        parts = parts[:-up]
                    origin = ".".join(parts + ([st.module] if st.module else []))
                else:
                    origin = st.module or ""
                for al in st.names:
                    m.imports[al.asname or al.name] = origin + "." + al.name
            elif isinstance(st, ast.Import):
                for al in st.names:
                    m.imports[al.asname or al.name.split(".")[0]] = al.name \
                        if al.asname else al.name.split(".")[0]
        self._index_body(m, m.node.body, m.name, None, None)

    def _index_body(self, m, body, prefix, cls, parent):
        for st in body:
            if isinstance(st, (ast.FunctionDef, ast.AsyncFunctionDef)):
                self._index_func(m, st, prefix, cls, parent)
            elif isinstance(st, ast.ClassDef):
                qual = prefix + "." + st.name
                c = Class(qual, st.name, st, m, [norm(b) for b in st.bases])
                self.classes[qual] = c
                for s2 in st.body:
                    if isinstance(s2, ast.Assign):
                        for t in s2.targets:
                            if isinstance(t, ast.Name):
                                c.consts[t.id] = s2.value
                    elif isinstance(s2, ast.AnnAssign) and s2.value is not None \
                            and isinstance(s2.target, ast.Name):
                        c.consts[s2.target.id] = s2.value
                        c.const_ann[s2.target.id] = s2.annotation
                self._index_body(m, st.body, qual, c, None)
            elif isinstance(st, (ast.If, ast.Try)):
                # conditional definitions at module level (TYPE_CHECKING ...)
                for sub in ast.iter_child_nodes(st):
                    pass
                for blk in ("body", "orelse", "finalbody"):
                    self._index_body(m, getattr(st, blk, []) or [], prefix, cls, parent)

    def _index_func(self, m, st, prefix, cls, parent):
        kind = "func" if cls is None else "method"
        suffix = ""
        for d in st.decorator_list:
            t = norm(d)
            if t == "property" or t.endswith("abstractproperty"):
                kind, suffix = "getter", "@get"
            elif t.endswith(".setter"):
                kind, suffix = "setter", "@set"
            elif t == "staticmethod":
                kind = "static"
            elif t == "classmethod":
                kind = "classmeth"
            elif t.endswith("overload"):
                return
        qual = prefix + "." + st.name + suffix
        f = Func(qual, st.name, st, m, cls, kind, parent)
        self.funcs[qual] = f
        if cls is not None and parent is None:
            if kind == "getter":
                cls.getters[st.name] = f
            elif kind == "setter":
                cls.setters[st.name] = f
            else:
                cls.methods[st.name] = f
        # nested functions
        for sub in ast.walk(st):
            if sub is st:
                continue
            if isinstance(sub, (ast.FunctionDef, ast.AsyncFunctionDef)):
                q2 = qual + ".<locals>." + sub.name
                if q2 not in self.funcs:
                    self.funcs[q2] = Func(q2, sub.name, sub, m, None, "func", f)

    # -------------------------------------------------------------- lookup
    def func(self, suffix: str, required: bool = True) -> Optional[Func]:
        """Unique function whose qualified name ends with ``suffix``."""
        if suffix in self.funcs:
            return self.funcs[suffix]
        hits = [f for q, f in self.funcs.items()
                if q.endswith("." + suffix) and "<locals>" not in q[len(q) - len(suffix) - 1:]]
        if len(hits) == 1:
            return hits[0]
        if not hits:
            if required:
                raise AnalysisError("anchor function '%s' not found" % suffix)
            return None
        raise AnalysisError("anchor '%s' is ambiguous: %s"
                            % (suffix, [h.qual for h in hits]))

    def cls(self, suffix: str, required: bool = True) -> Optional[Class]:
        if suffix in self.classes:
            return self.classes[suffix]
        hits = [c for q, c in self.classes.items() if q.endswith("." + suffix)]
        if len(hits) == 1:
            return hits[0]
        if not hits:
            if required:
                raise AnalysisError("anchor class '%s' not found" % suffix)
            return None
        raise AnalysisError("anchor class '%s' is ambiguous" % suffix)

    def module(self, name: str) -> Module:
        if name in self.modules:
            return self.modules[name]
        raise AnalysisError("anchor module '%s' not found" % name)

    def funcs_in_module(self, modname: str) -> List[Func]:
        return [f for f in self.funcs.values() if f.module.name == modname]

    def mro(self, c: Class) -> List[Class]:
        """Linearised ancestors inside the package (single inheritance here)."""
        out, seen, todo = [], set(), [c]
        while todo:
            k = todo.pop(0)
            if k.qual in seen:
                continue
            seen.add(k.qual)
            out.append(k)
            for b in k.bases:
                bn = b.split(".")[-1]
                cand = [x for x in self.classes.values() if x.name == bn]
                if len(cand) > 1:
                    same = [x for x in cand if x.module is k.module]
                    cand = same or cand
                todo.extend(cand[:1])
        return out

    def lookup_member(self, c: Class, name: str, kind: str = "any") -> Optional[Func]:
        for k in self.mro(c):
            if kind in ("any", "method") and name in k.methods:
                return k.methods[name]
            if kind in ("any", "getter") and name in k.getters:
                return k.getters[name]
            if kind == "setter" and name in k.setters:
                return k.setters[name]
        return None

    def subclasses(self, c: Class) -> List[Class]:
        return [k for k in self.classes.values() if c in self.mro(k)]

    def digest(self) -> str:
        h = hashlib.sha256()
        for name in sorted(self.modules):
            h.update(name.encode())
            h.update(self.modules[name].src.encode())
        return h.hexdigest()[:16]


# --------------------------------------------------------------------------
# obligations / findings / evidence
# --------------------------------------------------------------------------
@dataclass
class Obligation:
    rule: str
    function: str
    construct: str
    ok: bool
    what: str
    file: str = ""
    line: int = 0
    facts: Dict[str, Any] = field(default_factory=dict)
    undecided: bool = False    # rule could not be decided on this tree (not a violation)

    def key(self) -> Tuple[str, str, str]:
        return (self.rule, self.function, self.construct)


class Ctx:
    """Per-run context handed to a property's rule functions."""

    def __init__(self, prop: str, tier: str, repo: Repo):
        self.prop = prop
        self.tier = tier
        self.repo = repo
        self.obligations: List[Obligation] = []
        self.notes: List[str] = []
        self.assumptions: List[str] = []
        self.analysed_funcs: set = set()
        self.counters: Dict[str, int] = {}
        self.extra: Dict[str, Any] = {}
        self.floor_failures: List[str] = []

    # ------------------------------------------------------------ recording
    def ob(self, rule: str, func: Optional[Func], construct: Any, ok: bool,
           what: str, node: Optional[ast.AST] = None, undecided: bool = False,
           **facts) -> bool:
        fq = func.qual if isinstance(func, Func) else (func or "")
        if isinstance(func, Func):
            self.analysed_funcs.add(func.qual)
        n = node if node is not None else (construct if isinstance(construct, ast.AST) else None)
        line = getattr(n, "lineno", 0) if n is not None else (func.line if isinstance(func, Func) else 0)
        file = func.file if isinstance(func, Func) else ""
        txt = head(construct) if isinstance(construct, ast.AST) else norm(construct)
        self.obligations.append(Obligation(rule, fq, txt, bool(ok), what, file, line,
                                           {k: _jsonable(v) for k, v in facts.items()},
                                           undecided))
        return bool(ok)

    def note(self, txt: str):
        self.notes.append(txt)

    def assume(self, txt: str):
        if txt not in self.assumptions:
            self.assumptions.append(txt)

    def floor(self, rule: str, found: int, minimum: int, what: str):
        """A rule matching fewer sites than a loose lower bound cannot be trusted to have looked at the
        right code.  Deferred: violations already found are still reported (exit 1); with no violation
        the run ends as ANALYSIS-ERROR (exit 2), never as a pass."""
        self.counters[rule + ":" + what] = found
        if found < minimum:
            self.floor_failures.append("%s: floor not met for %s: matched %d site(s), at least %d expected"
                                       % (rule, what, found, minimum))

    def attempt(self, rule: str, thunk):
        """Run one rule.  If it cannot find the construct it is anchored in (AnalysisError) AND the tree differs from the
        reference tree, the construct is written in a way this rule does not model: NOT-DECIDED on this tree (printed, exit 0).
        On the reference tree itself the same failure means the checker is broken and stays an analysis error (exit 2)."""
        try:
            return thunk()
        except AnalysisError as exc:
            if not getattr(self.repo, "changed", None):
                raise
            ch = sorted(self.repo.changed)
            self.ob(rule, None, "rule %s" % rule, True,
                    "the code this rule is anchored in is not written in a form it reads (%s); %d function(s) differ from the "
                    "reference tree (%s%s); not decided on this tree" % (str(exc)[:160], len(ch), ", ".join(c.split(":")[-1] for c in ch[:4]),
                                                                         " ..." if len(ch) > 4 else ""), undecided=True)
            return None

    def func(self, suffix: str, *alts: str) -> Func:
        for s in (suffix,) + alts:
            f = self.repo.func(s, required=False)
            if f is not None:
                self.analysed_funcs.add(f.qual)
                return f
        raise AnalysisError("anchor function '%s' not found (alternatives tried: %s)"
                            % (suffix, list(alts)))

    def with_helpers(self, f: Func) -> List[Func]:
        """`f` and the functions it calls (transitively) that do not exist in the reference tree and could not be spliced
        into their callers: code moved out of an anchored function is still part of what the anchor's rules read."""
        from .inline import known_functions
        known = known_functions()
        out, todo = [f], [f]
        while todo:
            g = todo.pop()
            for c in ast.walk(g.node):
                if not isinstance(c, ast.Call):
                    continue
                nm = c.func.attr if isinstance(c.func, ast.Attribute) else (c.func.id if isinstance(c.func, ast.Name) else None)
                for h in self.repo.funcs.values():
                    if h.name == nm and h.module is f.module and h not in out and h.parent is None:
                        key = "%s:%s%s" % (h.module.name, (h.cls.name + ".") if h.cls else "", h.name)
                        if key not in known:
                            out.append(h)
                            todo.append(h)
                            self.analysed_funcs.add(h.qual)
        return out

    def seen(self, *funcs: Func):
        for f in funcs:
            if f is not None:
                self.analysed_funcs.add(f.qual)


def _jsonable(v):
    if isinstance(v, (str, int, float, bool)) or v is None:
        return v
    if isinstance(v, ast.AST):
        return norm(v)
    if isinstance(v, (list, tuple, set, frozenset)):
        return [_jsonable(x) for x in (sorted(v, key=str) if isinstance(v, (set, frozenset)) else v)]
    if isinstance(v, dict):
        return {str(k): _jsonable(x) for k, x in v.items()}
    return str(v)


# --------------------------------------------------------------------------
# known findings
# --------------------------------------------------------------------------
def load_known() -> List[Dict[str, Any]]:
    p = os.path.join(VERIF, "known_findings.json")
    if not os.path.exists(p):
        return []
    with open(p) as fh:
        data = json.load(fh)
    return data.get("findings", [])


def match_known(prop: str, ob: Obligation, known: List[Dict[str, Any]]) -> Optional[Dict[str, Any]]:
    for k in known:
        if k.get("status") != "finding":
            continue           # 'fixed' entries suppress nothing
        if k.get("property") != prop or k.get("rule") != ob.rule:
            continue
        if k.get("function") and k["function"] != ob.function:
            continue
        if k.get("construct") and norm(k["construct"]) != ob.construct:
            continue
        return k
    return None


# --------------------------------------------------------------------------
# run + report
# --------------------------------------------------------------------------
def finish(ctx: Ctx, t0: float, spec: Dict[str, Any], extra_cov: Optional[Dict[str, Any]] = None,
           write: bool = True) -> int:
    """Print verdict lines, write replay + evidence files, return exit code."""
    known = load_known()
    failed, _seen = [], set()
    for o in ctx.obligations:
        if not o.ok and not o.undecided and o.key() not in _seen:
            _seen.add(o.key())
            failed.append(o)
    undec = [o for o in ctx.obligations if o.undecided]
    viol, kf = [], []
    for o in failed:
        k = match_known(ctx.prop, o, known)
        (kf if k else viol).append((o, k))
    replay_dir = os.path.join(VERIF, "evidence", "replay")
    if write:
        os.makedirs(replay_dir, exist_ok=True)
        for fn in os.listdir(replay_dir):
            if fn.startswith(ctx.prop + "-"):
                try:
                    os.remove(os.path.join(replay_dir, fn))
                except OSError:
                    pass
    for o, k in kf:
        print("KNOWN-FINDING: property=%s %s [%s in %s: %s]"
              % (ctx.prop, k.get("what", o.what), o.rule, o.function, o.construct))
    for i, (o, _) in enumerate(viol):
        path = os.path.join(replay_dir, "%s-%s-%d.json" % (ctx.prop, o.rule, i))
        rec = {"property": ctx.prop, "rule": o.rule, "file": o.file, "line": o.line,
               "function": o.function, "construct": o.construct, "what": o.what,
               "facts": o.facts, "repo": ctx.repo.root,
               "replay": "cd /verif && ./check %s --tier %s   # re-analyses the current tree; "
                         "the report names this construct" % (ctx.prop, ctx.tier)}
        if write:
            with open(path, "w") as fh:
                json.dump(rec, fh, indent=1)
        print("%s:%d: [%s] %s :: %s :: %s" % (o.file, o.line, o.rule, o.function, o.construct, o.what))
        print("VIOLATION property=%s replay=%s" % (ctx.prop, path))
    for o in undec:
        print("NOT-DECIDED: property=%s [%s] %s: %s" % (ctx.prop, o.rule, o.function, o.what))

    decided = [o for o in ctx.obligations if not o.undecided]
    distinct = len({o.key() for o in decided})
    samples = []
    seen_rules = set()
    for o in decided:          # one sample per rule first, then the failures
        if o.rule not in seen_rules:
            seen_rules.add(o.rule)
            samples.append({"rule": o.rule, "function": o.function, "site": "%s:%d" % (o.file, o.line),
                            "construct": o.construct, "obligation": o.what,
                            "discharged": o.ok, "facts": o.facts})
    for o in failed[:10]:
        samples.append({"rule": o.rule, "function": o.function, "site": "%s:%d" % (o.file, o.line),
                        "construct": o.construct, "obligation": o.what, "discharged": False,
                        "facts": o.facts})
    cov = {
        "explanation": spec.get("explanation", ""),
        "obligations": len(decided),
        "discharged": sum(1 for o in decided if o.ok),
        "evaluations": max(1, len(decided)),
        "distinct_nontrivial": distinct,
        "rule": "one obligation per (rule, function, construct) site located in the current /repo "
                "source by the rule's anchors; distinct = distinct (rule, function, normalised "
                "construct) triples; an obligation is non-trivial because each is a site where the "
                "rule's fact must be established from the code (no obligation is generated for "
                "sites the rule does not govern)",
        "samples": samples[:40],
        "rules": sorted(seen_rules),
        "rules_not_decided_on_this_tree": sorted({o.rule for o in undec}),
        "functions_analysed": sorted(ctx.analysed_funcs),
        "modules_parsed": len(ctx.repo.modules),
        "functions_in_package": len(ctx.repo.funcs),
        "classes_in_package": len(ctx.repo.classes),
        "source_digest": ctx.repo.digest(),
        "canonical_form": {"passes": ["undo_renames", "strip_inert", "compiled_regexes", "function_aliases", "numpy_idioms", "paired_names",
                                      "literal_forms", "items_loops", "inline_new_helpers", "structure_guards", "forward_single_use_temps",
                                      "inline_adjacent_temps", "orient_comparisons", "keywords_to_positional"],
                           "helpers_spliced_into_callers": ctx.repo.inlined, "functions_given_their_reference_name_back": ctx.repo.renamed},
        "repo_root": ctx.repo.root,
        "site_counts": ctx.counters,
        "known_findings_matched": len(kf),
        "notes": ctx.notes,
        "exhaustive": bool(spec.get("exhaustive", False)),
        "checker_cmd": "./check %s --tier %s" % (ctx.prop, ctx.tier),
        "trusted_base": spec.get("trusted_base", []),
    }
    cov.update(ctx.extra)
    if extra_cov:
        cov.update(extra_cov)
    ev = {
        "property_id": ctx.prop,
        "tier": ctx.tier,
        "seed": int(os.environ.get("VERIF_SEED", "0") or 0),
        "level": "other",
        "coverage": cov,
        "assumptions": ctx.assumptions + spec.get("assumptions", []),
        "wall_s": round(time.time() - t0, 3),
        "violations": len(viol),
    }
    if write:
        os.makedirs(os.path.join(VERIF, "evidence"), exist_ok=True)
        with open(os.path.join(VERIF, "evidence", ctx.prop + ".json"), "w") as fh:
            json.dump(ev, fh, indent=1)
    if ctx.floor_failures and not viol and not getattr(ctx.repo, "changed", None):
        for m in ctx.floor_failures:
            print("ANALYSIS-ERROR property=%s %s" % (ctx.prop, m))
        return 2
    if ctx.floor_failures and not viol:
        # fewer sites than on the reference tree, on a tree that differs from it: the constructs are written another way
        for m in ctx.floor_failures:
            print("NOT-DECIDED: property=%s [%s] %s (the tree differs from the reference tree in %d function(s)); not decided on this tree"
                  % (ctx.prop, m.split(":")[0], m, len(ctx.repo.changed)))
        ctx.floor_failures = []
    for m in ctx.floor_failures:
        print("NOTE: %s" % m)
    print("%s %s: %d obligations, %d discharged, %d known finding(s), %d violation(s), "
          "%d not decided; %d functions analysed; %.2fs"
          % (ctx.prop, ctx.tier, len(decided), cov["discharged"], len(kf), len(viol),
             len(undec), len(ctx.analysed_funcs), time.time() - t0))
    return 1 if viol else 0
