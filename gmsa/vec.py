"""Vec domain: abstract interpretation of small geometric functions (local frames).

Values
  Pt(name)                 an input point
  Vc(...)                  a 3-vector: unit?, perpendicular-to set, direction tag, cross operands,
                           equivariant?, fresh storage?, optional component polynomials
  Cp(vec, k)               k-th lab-frame component of a vector (not rotation-equivariant)
  Sc(poly|None, kind)      scalar; kind 'norm' remembers whose norm it is
"""
from __future__ import annotations

import ast
from typing import Dict, List, Optional, Tuple

from .cfg import enum_paths, call_name, attr_chain, Path
from .core import Func, norm
from .poly import Poly, Rat


def reduce_poly(p: Poly, rel: Dict[str, Poly]) -> Poly:
    """Rewrite sym^2 -> rel[sym] until no square of a related symbol remains."""
    for _ in range(64):
        changed = False
        out = Poly()
        for m, c in p.t.items():
            hit = None
            for s, e in m:
                if s in rel and e >= 2:
                    hit = (s, e)
                    break
            if hit is None:
                out = out + Poly({m: c})
                continue
            changed = True
            s, e = hit
            rest = tuple((a, b) for a, b in m if a != s)
            term = Poly({rest: c})
            if e - 2:
                term = term * (Poly.sym(s) ** (e - 2))
            out = out + term * rel[s]
        p = out
        if not changed:
            break
    return p


def rat_equal(a: Rat, b, rel: Dict[str, Poly]) -> bool:
    b = b if isinstance(b, Rat) else Rat(b)
    return reduce_poly(a.n * b.d - b.n * a.d, rel).is_zero()


class Pt:
    def __init__(self, name, index=None):
        self.name, self.index = name, index

    def __repr__(self):
        return "Point(%s)" % self.name


class Vc:
    _n = 0

    def __init__(self, **kw):
        Vc._n += 1
        self.id = Vc._n
        self.unit = kw.get("unit", False)
        self.eq = kw.get("eq", False)            # rotation-equivariant
        self.perp = set(kw.get("perp", ()))
        self.dir = kw.get("dir")                 # ('diff', a, b) means a - b
        self.cross = kw.get("cross")             # (id_a, id_b)
        self.fresh = kw.get("fresh", True)
        self.comps: Optional[List[Rat]] = kw.get("comps")
        self.of: Optional[int] = kw.get("of")    # components are polynomials in the components of vector `of`
        self.origin = kw.get("origin", "")       # text of the defining expression
        self.alias_param = kw.get("alias_param") # aliases caller-owned storage
        self.random = kw.get("random", False)
        self.normalised_by = None
        self.zero = kw.get("zero", False)        # known to be the zero vector on this path
        self.lab_index = None                    # AST of the index of the single non-zero lab component

    def __repr__(self):
        return "Vec#%d(%s%s%s%s)" % (self.id, "unit " if self.unit else "", "equivariant " if self.eq else "lab ",
                                      "perp%s " % sorted(self.perp) if self.perp else "", self.origin[:40])


class Cp:
    def __init__(self, vec: Vc, k: int):
        self.vec, self.k = vec, k

    def poly(self) -> Poly:
        return Poly.sym("c%d_%d" % (self.vec.id, self.k))


class Sc:
    def __init__(self, rat: Optional[Rat] = None, kind: str = "", of: Optional[Vc] = None, invariant=True):
        self.rat, self.kind, self.of, self.invariant = rat, kind, of, invariant


class FrameResult:
    def __init__(self, path: Path):
        self.path = path
        self.degenerate = False
        self.degenerate_exact = True          # the degeneracy test is exact (== 0), not a tolerance
        self.degenerate_tests: List[str] = []
        self.frame: Optional[List[Vc]] = None
        self.origin = None
        self.inplace_bad: List[Tuple[ast.AST, str]] = []
        self.notes: List[str] = []
        self.vecs: Dict[int, Vc] = {}
        self.rel: Dict[str, Poly] = {}
        self.ret_node = None
        self.zero_normalised: List[Tuple[ast.AST, str]] = []

    def unit_status(self, v: Vc) -> Tuple[Optional[bool], str]:
        """(True proven / False refuted / None unknown, explanation)."""
        for st, vid in self.zero_normalised:
            if vid == v.id:
                return False, "`%s` normalises a vector that is exactly zero on this path (0/0 = NaN)" % norm(st)
        for st, vid in self.zero_normalised:
            if vid in (v.cross or ()):
                return False, "built from a vector whose normalisation divides 0 by 0 (`%s`)" % norm(st)
        if v.unit:
            return True, "normalised / cross product of perpendicular unit vectors"
        if v.comps is not None:
            n2 = Rat(0)
            for c in v.comps:
                n2 = n2 + c * c
            rel = dict(self.rel)
            if rat_equal(n2, Rat(1), rel):
                return True, "squared norm reduces to 1"
            nn = reduce_poly(n2.n, rel)
            dd = reduce_poly(n2.d, rel)
            return False, "squared norm is (%r)/(%r), not 1" % (nn, dd)
        return None, "not normalised on this path"

    def perp_status(self, a: Vc, b: Vc) -> Tuple[Optional[bool], str]:
        if b.id in a.perp or a.id in b.perp:
            return True, "cross-product operand"
        # literal built from the components of the other vector
        for x, y in ((a, b), (b, a)):
            if x.comps is not None and x.of == y.id:
                d = Rat(0)
                for k, c in enumerate(x.comps):
                    d = d + c * Rat(Poly.sym("c%d_%d" % (y.id, k)))
                if reduce_poly(d.n, self.rel).is_zero():
                    return True, "dot product of the literal with its source vector reduces to 0"
                return False, "dot product is %r" % d
        # cross(u, v) with u perpendicular to b ... : a = cross(p, q), b = cross(a, r)?  covered by perp sets
        return None, "perpendicularity not established"


def _is_norm_call(e: ast.AST) -> Optional[ast.AST]:
    """argument of np.linalg.norm(x) / np.sqrt(np.dot(x,x)) / np.sqrt((x**2).sum()) / np.sqrt(np.sum(x**2))"""
    if isinstance(e, ast.Call):
        f = norm(e.func)
        if f.endswith("linalg.norm") or f == "norm":
            return e.args[0] if e.args else None
        if f.endswith("sqrt") and e.args:
            a = e.args[0]
            if isinstance(a, ast.Call) and call_name(a) == "dot" and len(a.args) == 2 and norm(a.args[0]) == norm(a.args[1]):
                return a.args[0]
            if isinstance(a, ast.Call) and call_name(a) == "sum":
                inner = a.func.value if isinstance(a.func, ast.Attribute) and not norm(a.func).startswith(("np.", "numpy.")) else (a.args[0] if a.args else None)
                if isinstance(inner, ast.BinOp) and isinstance(inner.op, ast.Pow) and isinstance(inner.right, ast.Constant) and inner.right.value == 2:
                    return inner.left
                if isinstance(inner, ast.BinOp) and isinstance(inner.op, ast.Mult) and norm(inner.left) == norm(inner.right):
                    return inner.left
    return None


class FrameInterp:
    """Interprets one path of a frame-building function."""

    def __init__(self, func: Func, path: Path, param_points: Optional[List[str]] = None):
        self.func = func
        self.res = FrameResult(path)
        self.env: Dict[str, object] = {}
        self.sqrt_n = 0
        self.param = [p for p in func.params if p not in ("self", "cls")][0]
        self.env[self.param] = ("seq", None)

    # ---- helpers
    def _track(self, v):
        if isinstance(v, Vc):
            self.res.vecs[v.id] = v
        return v

    def _unit_rel(self, v: Vc):
        if v.unit:
            s = "c%d_2" % v.id
            self.res.rel[s] = Poly.const(1) - Poly.sym("c%d_0" % v.id) ** 2 - Poly.sym("c%d_1" % v.id) ** 2

    def ev(self, e: ast.AST):
        if isinstance(e, ast.Name):
            return self.env.get(e.id)
        if isinstance(e, ast.Constant) and isinstance(e.value, (int, float)):
            return Sc(Rat(Poly.const(e.value if isinstance(e.value, int) else __import__("fractions").Fraction(e.value).limit_denominator(10**9))))
        if isinstance(e, ast.UnaryOp) and isinstance(e.op, ast.USub):
            v = self.ev(e.operand)
            if isinstance(v, Cp):
                return Sc(Rat(-v.poly()), invariant=False)
            if isinstance(v, Sc) and v.rat is not None:
                return Sc(-v.rat, invariant=v.invariant)
            if isinstance(v, Vc):
                w = self._track(Vc(unit=v.unit, eq=v.eq, perp=v.perp, fresh=True, origin=norm(e)))
                return w
            return v
        if isinstance(e, ast.Subscript):
            if isinstance(e.value, ast.Call) and call_name(e.value) in ("eye", "identity") and len(e.value.args) == 1 \
                    and isinstance(e.value.args[0], ast.Constant) and e.value.args[0].value == 3 and not isinstance(e.slice, (ast.Slice, ast.Tuple)):
                # a row of the 3x3 identity: the coordinate axis number <index> (same as zeros(3) with a 1 stored at <index>)
                w = self._track(Vc(eq=False, fresh=True, origin=norm(e)))
                w.lab_index = e.slice
                w.lab_measured = self._measured(e.slice)
                return w
            base = self.ev(e.value)
            if isinstance(base, tuple) and base[0] == "seq" and isinstance(e.slice, ast.Constant):
                return Pt("%s[%s]" % (norm(e.value), e.slice.value), e.slice.value)
            if isinstance(base, Vc) and isinstance(e.slice, ast.Constant) and isinstance(e.slice.value, int):
                return Cp(base, e.slice.value % 3)
            return None
        if isinstance(e, ast.BinOp):
            a, b = self.ev(e.left), self.ev(e.right)
            return self.binop(e, a, b)
        if isinstance(e, ast.Call):
            return self.call(e)
        if isinstance(e, (ast.List, ast.Tuple)):
            return ("lit", [self.ev(x) for x in e.elts], e)
        return None

    def as_rat(self, v) -> Optional[Rat]:
        if isinstance(v, Cp):
            return Rat(v.poly())
        if isinstance(v, Sc):
            return v.rat
        return None

    def binop(self, e, a, b):
        op = e.op
        if isinstance(op, ast.Sub) and isinstance(a, Pt) and isinstance(b, Pt):
            return self._track(Vc(eq=True, dir=("diff", a.name, b.name), fresh=True, origin=norm(e)))
        if isinstance(op, ast.Add) and isinstance(a, Pt) and isinstance(b, Vc):
            return Pt("%s+v" % a.name)
        if isinstance(op, (ast.Add, ast.Sub)) and isinstance(a, Vc) and isinstance(b, Vc):
            return self._track(Vc(eq=a.eq and b.eq, fresh=True, origin=norm(e)))
        if isinstance(op, ast.Sub) and isinstance(a, Vc) and isinstance(b, Pt) or isinstance(a, Pt) and isinstance(b, Vc):
            return self._track(Vc(eq=False, fresh=True, origin=norm(e)))
        if isinstance(op, (ast.Mult, ast.Div)):
            # vector scaled by a scalar
            vec, sc, vec_left = (a, b, True) if isinstance(a, Vc) else ((b, a, False) if isinstance(b, Vc) else (None, None, True))
            if vec is not None and (isinstance(op, ast.Mult) or vec_left):
                n_arg = _is_norm_call(e.right if vec_left else e.left)
                w = self._track(Vc(eq=vec.eq, perp=vec.perp, dir=vec.dir, cross=vec.cross, fresh=True, origin=norm(e),
                                   of=vec.of))
                for other in self.res.vecs.values():
                    if vec.id in other.perp:
                        other.perp.add(w.id)
                if isinstance(op, ast.Div) and n_arg is not None and self.ev(n_arg) is vec:
                    w.unit = True
                    w.normalised_by = norm(e.right)
                elif isinstance(op, ast.Div) and isinstance(sc, Sc) and sc.kind == "norm" and sc.of is vec:
                    w.unit = True
                elif isinstance(op, ast.Mult) and isinstance(sc, Sc) and sc.kind == "invnorm" and sc.of is vec:
                    w.unit = True
                if vec.comps is not None:
                    r = self.as_rat(sc)
                    if r is not None:
                        w.comps = [(c / r) if isinstance(op, ast.Div) else (c * r) for c in vec.comps]
                    elif not w.unit:
                        w.comps = None
                        w.of = None
                if isinstance(sc, Sc) and not sc.invariant:
                    w.eq = False
                if isinstance(sc, Cp):
                    w.eq = False
                return w
            ra, rb = self.as_rat(a), self.as_rat(b)
            if ra is not None and rb is not None:
                inv = all(not isinstance(x, Cp) and getattr(x, "invariant", True) for x in (a, b))
                return Sc(ra * rb if isinstance(op, ast.Mult) else ra / rb, invariant=inv)
            if isinstance(op, ast.Div) and isinstance(b, Sc) and b.kind == "norm" and ra is not None and ra.equals(Rat(1)):
                return Sc(None, kind="invnorm", of=b.of)
            return Sc(None, invariant=False) if isinstance(a, Cp) or isinstance(b, Cp) else None
        if isinstance(op, (ast.Add, ast.Sub)):
            ra, rb = self.as_rat(a), self.as_rat(b)
            if ra is not None and rb is not None:
                inv = all(not isinstance(x, Cp) and getattr(x, "invariant", True) for x in (a, b))
                return Sc(ra + rb if isinstance(op, ast.Add) else ra - rb, invariant=inv)
            return None
        if isinstance(op, ast.Pow):
            ra = self.as_rat(a)
            if ra is not None and isinstance(e.right, ast.Constant) and isinstance(e.right.value, int) and 0 <= e.right.value <= 6:
                return Sc(ra ** e.right.value, invariant=not isinstance(a, Cp) and getattr(a, "invariant", True))
            if ra is not None and isinstance(e.right, ast.Constant) and e.right.value == 0.5:
                return self._sqrt(ra, getattr(a, "invariant", True))
            return None
        return None

    def _sqrt(self, r: Rat, invariant=True):
        if r.d == Poly.const(1):
            self.sqrt_n += 1
            s = "q%d" % self.sqrt_n
            self.res.rel[s] = r.n
            return Sc(Rat(Poly.sym(s)), invariant=invariant)
        return Sc(None, invariant=invariant)

    def call(self, e: ast.Call):
        f = norm(e.func)
        nm = call_name(e)
        n_arg = _is_norm_call(e)
        if n_arg is not None:
            v = self.ev(n_arg)
            if isinstance(v, Vc):
                if v.comps is not None:
                    n2 = Rat(0)
                    for c in v.comps:
                        n2 = n2 + c * c
                    s = self._sqrt(Rat(reduce_poly(n2.n, self.res.rel), n2.d), invariant=False)
                    s.kind, s.of = "norm", v
                    return s
                return Sc(None, kind="norm", of=v)
            if isinstance(v, tuple) and v[0] == "lit":
                lv = self._lit_vector(v)
                return self.call(ast.Call(e.func, [ast.Name("__tmp", ast.Load())], [])) if False else Sc(None)
            return Sc(None)
        if nm == "cross" and len(e.args) == 2:
            a, b = self.ev(e.args[0]), self.ev(e.args[1])
            a = self._coerce_vec(a, e.args[0])
            b = self._coerce_vec(b, e.args[1])
            if isinstance(a, Vc) and isinstance(b, Vc):
                unit = a.unit and b.unit and (b.id in a.perp or a.id in b.perp)
                w = self._track(Vc(unit=unit, eq=a.eq and b.eq, perp={a.id, b.id}, cross=(a.id, b.id),
                                   fresh=True, origin=norm(e), random=a.random or b.random,
                                   zero=a.zero or b.zero))
                w.lab_partner = b if b.lab_index is not None else (a if a.lab_index is not None else None)
                return w
            return self._track(Vc(eq=False, fresh=True, origin=norm(e)))
        if nm in ("array", "asarray") and e.args:
            v = self.ev(e.args[0])
            if isinstance(v, tuple) and v[0] == "lit":
                return self._lit_vector(v, origin=norm(e))
            if isinstance(v, Vc):
                w = self._track(Vc(unit=v.unit, eq=v.eq, perp=v.perp, dir=v.dir, cross=v.cross, fresh=(nm == "array"),
                                   comps=v.comps, of=v.of, origin=norm(e)))
                return w
            if isinstance(v, Pt):
                return Pt(v.name, v.index) if nm == "asarray" else Pt(v.name + " (copy)", v.index)
            return None
        if nm == "copy":
            src = e.args[0] if e.args and f.startswith(("np.", "numpy.")) else (e.func.value if isinstance(e.func, ast.Attribute) else None)
            v = self.ev(src) if src is not None else None
            if isinstance(v, Vc):
                return self._track(Vc(unit=v.unit, eq=v.eq, perp=v.perp, dir=v.dir, cross=v.cross, fresh=True,
                                      comps=v.comps, of=v.of, origin=norm(e)))
            if isinstance(v, Pt):
                p = Pt(v.name, v.index)
                p.fresh = True
                return p
            return None
        if nm == "sqrt" and e.args:
            r = self.as_rat(self.ev(e.args[0]))
            v = self.ev(e.args[0])
            if r is not None:
                return self._sqrt(r, invariant=getattr(v, "invariant", True) and not isinstance(v, Cp))
            return Sc(None)
        if nm in ("dot",) and len(e.args) == 2:
            a, b = self.ev(e.args[0]), self.ev(e.args[1])
            if isinstance(a, Vc) and isinstance(b, Vc):
                return Sc(None, invariant=a.eq and b.eq)
            return Sc(None)
        if nm in ("rand", "random", "normal", "uniform", "randn", "random_sample"):
            return self._track(Vc(eq=False, fresh=True, random=True, origin=norm(e)))
        if nm in ("zeros", "zeros_like"):
            return self._track(Vc(eq=False, fresh=True, origin=norm(e), zero=True))
        if nm in ("ones", "eye"):
            return self._track(Vc(eq=False, fresh=True, origin=norm(e)))
        if nm in ("any", "all", "allclose", "isclose", "abs", "argmin", "argmax", "fabs"):
            return Sc(None, invariant=False)
        return None

    def _coerce_vec(self, v, node):
        if isinstance(v, tuple) and v[0] == "lit":
            return self._lit_vector(v, origin=norm(node))
        return v

    def _lit_vector(self, lit, origin="") -> Vc:
        elems = lit[1]
        comps, src = [], None
        ok = True
        for x in elems:
            r = self.as_rat(x)
            if r is None:
                ok = False
                break
            comps.append(r)
            if isinstance(x, Cp):
                src = x.vec
            for s in (r.n.symbols() | r.d.symbols()):
                if s.startswith("c"):
                    vid = int(s[1:].split("_")[0])
                    src = self.res.vecs.get(vid, src)
        w = self._track(Vc(eq=False, fresh=True, origin=origin or norm(lit[2]),
                           comps=comps if ok and len(comps) == 3 else None, of=src.id if src is not None else None))
        return w

    # ---- statements
    def _measured(self, idx: ast.AST):
        """the vector whose |components| an index expression ranks (argmin(abs(V))...), as bound right now"""
        if isinstance(idx, ast.Name) and idx.id in getattr(self, "index_src", {}):
            return self.index_src[idx.id]
        for c in ast.walk(idx):
            if isinstance(c, ast.Call) and call_name(c) in ("abs", "fabs", "absolute") and c.args:
                v = self.ev(c.args[0])
                return v if isinstance(v, Vc) else None
        return None

    def run(self) -> FrameResult:
        for ev in self.res.path.events:
            if ev[0] == "c":
                self.cond(ev[1], ev[2])
            elif ev[0] == "s":
                self.stmt(ev[1])
        return self.res

    def cond(self, test, outcome):
        t = test
        neg = False
        if isinstance(t, ast.UnaryOp) and isinstance(t.op, ast.Not):
            t, neg = t.operand, True
        vanished = None          # True when the branch taken means 'the tested vector is zero'
        if isinstance(t, ast.Call) and call_name(t) == "any" and t.args:
            v = self.ev(t.args[0])
            if isinstance(v, Vc) and v.cross:
                vanished = (outcome == neg)
        elif isinstance(t, ast.Call) and call_name(t) in ("allclose", "isclose") and t.args:
            v = self.ev(t.args[0])
            if isinstance(v, Vc) and v.cross:
                vanished = (outcome != neg)
                if vanished:
                    self.res.degenerate_exact = False
        elif isinstance(t, ast.Compare) and len(t.ops) == 1:
            n_arg = _is_norm_call(t.left)
            v = self.ev(n_arg) if n_arg is not None else None
            if v is None and isinstance(t.left, ast.Name):
                s = self.env.get(t.left.id)
                if isinstance(s, Sc) and s.kind == "norm":
                    v = s.of
            if isinstance(v, Vc) and v.cross:
                if isinstance(t.ops[0], (ast.Lt, ast.LtE, ast.Eq)):
                    vanished = (outcome != neg)
                elif isinstance(t.ops[0], (ast.Gt, ast.GtE, ast.NotEq)):
                    vanished = (outcome == neg)
                zero_rhs = isinstance(t.comparators[0], ast.Constant) and t.comparators[0].value == 0
                if vanished and not (isinstance(t.ops[0], (ast.Eq, ast.NotEq, ast.LtE, ast.Gt)) and zero_rhs):
                    self.res.degenerate_exact = False
        if vanished:
            self.res.degenerate = True
            self.res.degenerate_tests.append(norm(test))
            if isinstance(v, Vc):
                v.zero = True

    def stmt(self, st):
        if isinstance(st, ast.Assign) and len(st.targets) == 1:
            t = st.targets[0]
            if isinstance(t, (ast.Tuple, ast.List)):
                v = self.ev(st.value)
                for i, el in enumerate(t.elts):
                    if not isinstance(el, ast.Name):
                        continue
                    if isinstance(v, tuple) and v[0] == "seq":
                        idx = i if i < len(t.elts) - 1 or True else -1
                        self.env[el.id] = Pt("%s[%d]" % (norm(st.value), i), i)
                        self.env[el.id].last = (i == len(t.elts) - 1)
                        self.env[el.id].first = (i == 0)
                    elif isinstance(v, Vc):
                        self.env[el.id] = Cp(v, i)
                    elif isinstance(v, tuple) and v[0] == "lit" and i < len(v[1]):
                        self.env[el.id] = v[1][i]
                    else:
                        self.env[el.id] = None
                return
            if isinstance(t, ast.Name):
                v = self.ev(st.value)
                if not isinstance(v, Vc):
                    # an index computed from the components of a vector: remember which vector, as bound now
                    if not hasattr(self, "index_src"):
                        self.index_src = {}
                    m_ = self._measured(st.value) if any(isinstance(c_, ast.Call) and call_name(c_) in ("abs", "fabs", "absolute")
                                                         for c_ in ast.walk(st.value)) else None
                    if m_ is not None:
                        self.index_src[t.id] = m_
                    else:
                        self.index_src.pop(t.id, None)
                if isinstance(v, tuple) and v[0] == "lit":
                    v = self._lit_vector(v)
                if isinstance(v, Pt) and not getattr(v, "fresh", False):
                    # alias of caller-owned storage
                    pass
                self.env[t.id] = v
                return
            if isinstance(t, ast.Subscript) and isinstance(t.value, ast.Name):
                v = self.env.get(t.value.id)
                self._inplace(st, v, "item store")
                if isinstance(v, Vc):
                    v.unit, v.comps, v.eq = False, None, False
                    if isinstance(st.value, ast.Constant) and isinstance(st.value.value, (int, float)) and st.value.value != 0:
                        if v.zero:
                            v.lab_index = t.slice
                            v.lab_measured = self._measured(t.slice)
                        v.zero = False
                return
        if isinstance(st, ast.AugAssign) and isinstance(st.target, ast.Name):
            cur = self.env.get(st.target.id)
            self._inplace(st, cur, "augmented assignment")
            if isinstance(cur, Vc):
                if isinstance(st.op, ast.Div):
                    n_arg = _is_norm_call(st.value)
                    sc = self.ev(st.value)
                    if (n_arg is not None and self.ev(n_arg) is cur) or (isinstance(sc, Sc) and sc.kind == "norm" and sc.of is cur):
                        if cur.zero:
                            self.res.zero_normalised.append((st, cur.id))
                        cur.unit = True
                        cur.normalised_by = norm(st.value)
                        self._unit_rel(cur)
                        if cur.comps is not None:
                            cur.comps = None
                        return
                    r = self.as_rat(sc)
                    if cur.comps is not None and r is not None:
                        cur.comps = [c / r for c in cur.comps]
                    else:
                        cur.comps = None
                    cur.unit = False
                    return
                if isinstance(st.op, ast.Mult):
                    sc = self.ev(st.value)
                    r = self.as_rat(sc)
                    if isinstance(sc, Sc) and sc.kind == "invnorm" and sc.of is cur:
                        cur.unit = True
                        self._unit_rel(cur)
                        return
                    if cur.comps is not None and r is not None:
                        cur.comps = [c * r for c in cur.comps]
                    elif cur.comps is not None:
                        cur.comps = None
                    # sign flips keep the unit property: scalar in {-1, 1} cannot be shown here
                    if not (r is not None and (r.equals(Rat(1)) or r.equals(Rat(-1)))):
                        cur.unit = False
                    return
                if isinstance(st.op, (ast.Sub, ast.Add)):
                    o = self.ev(st.value)
                    if isinstance(cur, Vc):
                        cur.unit, cur.comps = False, None
                        cur.perp = set()
                        cur.eq = cur.eq and isinstance(o, (Vc,)) and o.eq
                    return
            if isinstance(cur, Pt):
                if isinstance(st.op, ast.Sub):
                    o = self.ev(st.value)
                    if isinstance(o, Pt):
                        self.env[st.target.id] = self._track(Vc(eq=True, dir=("diff", cur.name, o.name),
                                                                fresh=getattr(cur, "fresh", False), origin=norm(st)))
            return
        if isinstance(st, ast.Return):
            self.res.ret_node = st
            v = st.value
            if isinstance(v, ast.Tuple) and len(v.elts) == 2:
                fr, org = v.elts
                if isinstance(org, (ast.Tuple, ast.List)) and not isinstance(fr, (ast.Tuple, ast.List)):
                    fr, org = org, fr
                    self.res.notes.append("origin returned first")
                if isinstance(fr, (ast.Tuple, ast.List)) and len(fr.elts) == 3:
                    vs = [self.ev(x) for x in fr.elts]
                    if all(isinstance(x, Vc) for x in vs):
                        self.res.frame = vs
                self.res.origin = self.ev(org)
            if self.res.frame:
                for x in self.res.frame:
                    if x.unit:
                        self._unit_rel(x)

    def _inplace(self, st, v, what):
        if isinstance(v, Pt) and not getattr(v, "fresh", False):
            self.res.inplace_bad.append((st, "%s on %s, which is the caller's array" % (what, v.name)))
        elif isinstance(v, Vc) and not v.fresh:
            self.res.inplace_bad.append((st, "%s on a view of the caller's array (%s)" % (what, v.origin)))
        elif isinstance(v, tuple) and v and v[0] == "seq":
            self.res.inplace_bad.append((st, "%s on the input list" % what))


def analyse_frame_function(func: Func) -> List[FrameResult]:
    out = []
    for p in enum_paths(func.node.body):
        if p.end != "return":
            continue
        Vc._n = 0
        out.append(FrameInterp(func, p).run())
    return out
