"""Tiny positive fixtures: a rule whose expected match count on a healthy tree is zero must still
match its fixture on every run, otherwise it could pass vacuously forever."""
import os

from .core import AnalysisError, Repo, VERIF


def fixture_repo(name: str) -> Repo:
    root = os.path.join(VERIF, "fixtures", name.replace(".py", ""))
    if not os.path.isdir(root):
        raise AnalysisError("positive fixture %s is missing" % root)
    return Repo(root)


def check_fixture(ctx, rule: str, name: str, counter, expect_min: int = 1, expect_exact=None):
    repo = fixture_repo(name)
    n = counter(repo)
    ctx.extra.setdefault("positive_fixtures", {})[rule + ":" + name] = n
    if (expect_exact is not None and n != expect_exact) or n < expect_min:
        raise AnalysisError("%s: positive fixture %s matched %d construct(s), expected %s - the rule no "
                            "longer recognises the pattern it is looking for"
                            % (rule, name, n, expect_exact if expect_exact is not None else ">= %d" % expect_min))
