"""Annotation-driven type resolver, call graph and write-effect helpers.

Types are small tuples:
  ("cls", qual)            instance of a package class
  ("type", qual)           the class object itself
  ("list"|"set"|"iter", T) homogeneous containers / iterators
  ("dict", K, V)
  ("tuple", (T1, T2, ...)) fixed tuples   /  ("tuple*", T) homogeneous
  ("ext", name)            external / builtin value (int, str, ndarray, file ...)
  ("func", qual)           package function object
  ("bound", qual, recvT)   bound method
  None                     unknown
"""
from __future__ import annotations

import ast
from typing import Dict, Iterable, List, Optional, Set, Tuple

from .cfg import walk_no_nested, attr_chain, call_name, calls_in
from .core import Class, Func, Repo, norm

T = Optional[tuple]

EXT_SCALARS = {"int": "int", "float": "float", "str": "str", "bool": "bool", "bytes": "bytes",
               "complex": "complex"}
BUILTIN_CONTAINER_METHODS = {
    "list": {"append", "extend", "insert", "remove", "pop", "clear", "index", "count", "sort", "reverse", "copy"},
    "set": {"add", "remove", "discard", "pop", "clear", "update", "union", "intersection", "difference",
            "copy", "issubset", "issuperset"},
    "dict": {"get", "items", "keys", "values", "pop", "setdefault", "update", "clear", "copy"},
}


class Resolver:
    def __init__(self, repo: Repo):
        self.repo = repo
        self._attr_types: Dict[Tuple[str, str], T] = {}
        self._env_cache: Dict[str, Dict[str, T]] = {}
        self._deleg: Dict[str, List[str]] = {}        # class qual -> ordered delegate attribute names
        self._excluded: Dict[str, Set[str]] = {}
        self.stats = {"calls": 0, "resolved": 0, "external": 0, "unresolved": 0}
        self._build_delegation()

    # ------------------------------------------------------------------ annotations
    def ann(self, node: Optional[ast.AST], mod) -> T:
        if node is None:
            return None
        if isinstance(node, ast.Constant) and isinstance(node.value, str):
            try:
                return self.ann(ast.parse(node.value, mode="eval").body, mod)
            except SyntaxError:
                return None
        if isinstance(node, ast.Constant) and node.value is None:
            return ("ext", "None")
        if isinstance(node, ast.Name):
            if node.id in EXT_SCALARS:
                return ("ext", node.id)
            if node.id in ("list", "List"):
                return ("list", None)
            if node.id in ("dict", "Dict"):
                return ("dict", None, None)
            if node.id in ("set", "Set"):
                return ("set", None)
            c = self._class_by_name(node.id, mod)
            if c is not None:
                return ("cls", c.qual)
            if node.id in ("Any",):
                return None
            al = self._type_alias(node.id, mod, 0)
            if al is not None:
                return al
            return ("ext", node.id)
        if isinstance(node, ast.Attribute):
            full = norm(node)
            if full.endswith("ndarray"):
                return ("ext", "ndarray")
            c = self._class_by_name(node.attr, mod)
            if c is not None:
                return ("cls", c.qual)
            return ("ext", full)
        if isinstance(node, ast.Subscript):
            head = norm(node.value).split(".")[-1]
            args = node.slice.elts if isinstance(node.slice, ast.Tuple) else [node.slice]
            if head in ("List", "list", "Sequence", "Iterable", "MutableSequence", "Deque", "deque"):
                return ("list", self.ann(args[0], mod))
            if head in ("Set", "set", "FrozenSet", "frozenset"):
                return ("set", self.ann(args[0], mod))
            if head in ("Iterator", "Generator"):
                return ("iter", self.ann(args[0], mod))
            if head in ("Dict", "dict", "DefaultDict", "Mapping", "OrderedDict", "Counter"):
                if len(args) == 2:
                    return ("dict", self.ann(args[0], mod), self.ann(args[1], mod))
                return ("dict", self.ann(args[0], mod), ("ext", "int"))
            if head in ("Tuple", "tuple"):
                if len(args) == 2 and isinstance(args[1], ast.Constant) and args[1].value is Ellipsis:
                    return ("tuple*", self.ann(args[0], mod))
                return ("tuple", tuple(self.ann(a, mod) for a in args))
            if head == "Optional":
                return self.ann(args[0], mod)
            if head == "Union":
                alts = [self.ann(a, mod) for a in args]
                for a in alts:
                    if a and a[0] == "cls":
                        return a
                for a in alts:
                    if a and a != ("ext", "None"):
                        return a
                return None
            if head == "Type":
                t = self.ann(args[0], mod)
                return ("type", t[1]) if t and t[0] == "cls" else None
            return None
        if isinstance(node, ast.BinOp) and isinstance(node.op, ast.BitOr):
            return self.ann(node.left, mod) or self.ann(node.right, mod)
        return None

    def _type_alias(self, name: str, mod, depth: int) -> T:
        if mod is None or depth > 4:
            return None
        for st in mod.node.body:
            if isinstance(st, ast.Assign) and isinstance(st.targets[0], ast.Name) and st.targets[0].id == name \
                    and isinstance(st.value, ast.Subscript):
                return self.ann(st.value, mod)
        if name in mod.imports:
            origin = mod.imports[name]
            if "." in origin:
                mn, nm = origin.rsplit(".", 1)
                m2 = self.repo.modules.get(mn)
                if m2 is not None and m2 is not mod:
                    return self._type_alias(nm, m2, depth + 1)
        return None

    def _class_by_name(self, name: str, mod) -> Optional[Class]:
        cands = [c for c in self.repo.classes.values() if c.name == name]
        if not cands:
            return None
        if len(cands) == 1:
            return cands[0]
        same = [c for c in cands if mod is not None and c.module is mod]
        return (same or cands)[0]

    # ------------------------------------------------------------------ delegation (from __getattr__)
    def _build_delegation(self):
        for c in self.repo.classes.values():
            ga = c.methods.get("__getattr__")
            if ga is None:
                continue
            order = []
            for st in ga.node.body:
                if isinstance(st, ast.If) and isinstance(st.test, ast.Call) and call_name(st.test) == "hasattr" \
                        and len(st.test.args) == 2:
                    tgt = attr_chain(st.test.args[0])
                    if tgt and tgt.startswith("self.") and st.body and isinstance(st.body[0], ast.Return) \
                            and isinstance(st.body[0].value, ast.Call) and call_name(st.body[0].value) == "getattr":
                        order.append(tgt[5:])
            if order:
                self._deleg[c.qual] = order
            excl = set()
            gb = c.methods.get("__getattribute__")
            if gb is not None:
                for n in ast.walk(gb.node):
                    if isinstance(n, ast.Compare) and isinstance(n.ops[0], ast.In) \
                            and isinstance(n.comparators[0], (ast.List, ast.Tuple)):
                        excl |= {e.value for e in n.comparators[0].elts if isinstance(e, ast.Constant)}
            self._excluded[c.qual] = excl

    def delegates(self, cq: str) -> List[T]:
        out = []
        c = self.repo.classes[cq]
        for k in self.repo.mro(c):
            for attr in self._deleg.get(k.qual, []):
                t = self.attr_type(("cls", k.qual), attr)
                if t and t[0] == "cls":
                    out.append(t)
        return out

    # ------------------------------------------------------------------ members
    def find_member(self, cq: str, name: str, want: str = "any", _depth=0) -> List[Tuple[str, Func]]:
        """[(kind, Func)] for attribute ``name`` on an instance of class cq; follows delegation."""
        c = self.repo.classes.get(cq)
        if c is None or _depth > 3:
            return []
        if name in self._excluded.get(cq, ()):
            return []
        out = []
        for k in self.repo.mro(c):
            if want in ("any", "getter") and name in k.getters:
                out.append(("getter", k.getters[name]))
                break
            if want in ("any", "method") and name in k.methods:
                out.append(("method", k.methods[name]))
                break
            if want == "setter" and name in k.setters:
                out.append(("setter", k.setters[name]))
                break
        if out:
            return out
        if self.has_instance_attr(cq, name):
            return []
        for dt in self.delegates(cq):
            r = self.find_member(dt[1], name, want, _depth + 1)
            if r:
                return r
        return []

    def has_instance_attr(self, cq: str, name: str) -> bool:
        c = self.repo.classes.get(cq)
        if c is None:
            return False
        for k in self.repo.mro(c):
            if name in k.consts:
                return True
            for f in list(k.methods.values()) + list(k.setters.values()):
                for n in ast.walk(f.node):
                    if isinstance(n, ast.Attribute) and isinstance(n.ctx, ast.Store) and n.attr == name \
                            and isinstance(n.value, ast.Name) and n.value.id == (f.self_name or "self"):
                        return True
        return False

    def attr_type(self, recv: T, name: str, _depth=0) -> T:
        if not recv or recv[0] != "cls" or _depth > 3:
            return None
        key = (recv[1], name)
        if key in self._attr_types:
            return self._attr_types[key]
        self._attr_types[key] = None          # cycle guard
        res: T = None
        c = self.repo.classes[recv[1]]
        if name in self._excluded.get(recv[1], ()):
            return None
        found = False
        for k in self.repo.mro(c):
            if name in k.getters:
                g = k.getters[name]
                res = self.ann(g.node.returns, g.module)
                found = True
                break
            if name in k.methods:
                res = ("bound", k.methods[name].qual, recv)
                found = True
                break
            # instance attribute: annotated store or typed value
            for f in list(k.methods.values()) + list(k.setters.values()):
                sn = f.self_name or "self"
                for st in walk_no_nested(f.node):
                    if isinstance(st, ast.AnnAssign) and isinstance(st.target, ast.Attribute) \
                            and st.target.attr == name and norm(st.target.value) == sn:
                        res = self.ann(st.annotation, f.module)
                        found = True
                        break
                if found:
                    break
            if not found:
                for f in list(k.methods.values()) + list(k.setters.values()):
                    sn = f.self_name or "self"
                    for st in walk_no_nested(f.node):
                        if isinstance(st, ast.Assign):
                            for t in st.targets:
                                if isinstance(t, ast.Attribute) and t.attr == name and norm(t.value) == sn:
                                    tv = self.expr_type(st.value, f)
                                    found = True
                                    if tv is not None and tv != ("ext", "None"):
                                        res = tv
                                        break
                                    if tv is not None and res is None:
                                        none_seen = True
                                if isinstance(t, (ast.Tuple, ast.List)):
                                    for i, el in enumerate(t.elts):
                                        if isinstance(el, ast.Attribute) and el.attr == name and norm(el.value) == sn:
                                            tv = self.expr_type(st.value, f)
                                            found = True
                                            if tv and tv[0] == "tuple" and i < len(tv[1]) and tv[1][i] is not None:
                                                res = tv[1][i]
                                            elif tv and tv[0] in ("list", "tuple*") and tv[1] is not None:
                                                res = tv[1]
                            if res is not None:
                                break
                    if res is not None:
                        break
            if found:
                break
            if name in k.consts:
                res = self._const_type(k.consts[name], k)
                found = True
                break
        if not found:
            for dt in self.delegates(recv[1]):
                r = self.attr_type(dt, name, _depth + 1)
                if r is not None or self.find_member(dt[1], name) or self.has_instance_attr(dt[1], name):
                    res = r
                    break
        self._attr_types[key] = res
        return res

    def _const_type(self, node, cls) -> T:
        if isinstance(node, ast.Constant):
            return ("ext", type(node.value).__name__)
        if isinstance(node, ast.Tuple):
            return ("tuple", tuple(self._const_type(e, cls) for e in node.elts))
        return None

    # ------------------------------------------------------------------ environments
    def env(self, f: Func) -> Dict[str, T]:
        if f.qual in self._env_cache:
            return self._env_cache[f.qual]
        env: Dict[str, T] = {}
        self._env_cache[f.qual] = env
        if f.parent is not None:
            env.update(self.env(f.parent))
        a = f.node.args
        allp = a.posonlyargs + a.args + a.kwonlyargs
        for p in allp:
            env[p.arg] = self.ann(p.annotation, f.module)
        if a.vararg:
            env[a.vararg.arg] = ("tuple*", self.ann(a.vararg.annotation, f.module))
        if f.cls is not None and f.kind in ("method", "getter", "setter") and allp:
            env[allp[0].arg] = ("cls", f.cls.qual)
        if f.cls is not None and f.kind == "classmeth" and allp:
            env[allp[0].arg] = ("type", f.cls.qual)
        # two passes over assignments in source order so that later names see earlier ones
        stmts = sorted([s for s in walk_no_nested(f.node) if isinstance(s, ast.stmt)],
                       key=lambda s: (s.lineno, s.col_offset))
        for _ in range(2):
            for st in stmts:
                self._bind_stmt(st, env, f)
            # comprehension variables (function-wide: the repo does not reuse such names with other types)
            for n in walk_no_nested(f.node):
                if isinstance(n, ast.comprehension):
                    tv = self.elem_type(self.expr_type(n.iter, f, env))
                    self._bind_target(n.target, tv, env)
        return env

    def _bind_stmt(self, st, env, f):
        if isinstance(st, ast.AnnAssign) and isinstance(st.target, ast.Name):
            env[st.target.id] = self.ann(st.annotation, f.module)
        elif isinstance(st, ast.Assign):
            tv = self.expr_type(st.value, f, env)
            for t in st.targets:
                self._bind_target(t, tv, env)
        elif isinstance(st, (ast.For, ast.AsyncFor)):
            self._bind_target(st.target, self.elem_type(self.expr_type(st.iter, f, env)), env)
        elif isinstance(st, ast.With):
            for it in st.items:
                if it.optional_vars is not None:
                    self._bind_target(it.optional_vars, self.expr_type(it.context_expr, f, env), env)
        elif isinstance(st, (ast.Import, ast.ImportFrom)):
            pass

    def _bind_target(self, t, tv: T, env, force=False):
        if isinstance(t, ast.Name):
            if tv is not None or t.id not in env:
                if env.get(t.id) is None or tv is not None:
                    # keep the first informative binding (annotations win)
                    if env.get(t.id) is None:
                        env[t.id] = tv
        elif isinstance(t, (ast.Tuple, ast.List)):
            for i, e in enumerate(t.elts):
                et = None
                if tv and tv[0] == "tuple" and i < len(tv[1]):
                    et = tv[1][i]
                elif tv and tv[0] in ("tuple*", "list"):
                    et = tv[1]
                self._bind_target(e, et, env)
        elif isinstance(t, ast.Starred):
            self._bind_target(t.value, None, env)

    def elem_type(self, tv: T) -> T:
        if not tv:
            return None
        if tv[0] in ("list", "set", "iter", "tuple*"):
            return tv[1]
        if tv[0] == "dict":
            return tv[1]
        if tv[0] == "tuple":
            ts = set(tv[1])
            return tv[1][0] if len(ts) == 1 else None
        if tv[0] == "cls":
            it = self.find_member(tv[1], "__iter__", "method")
            if it:
                r = self.ann(it[0][1].node.returns, it[0][1].module)
                return self.elem_type(r) if r and r[0] in ("iter", "list") else None
            gi = self.find_member(tv[1], "__getitem__", "method")
            if gi:
                return self.ann(gi[0][1].node.returns, gi[0][1].module)
        return None

    # ------------------------------------------------------------------ expressions
    def expr_type(self, e: ast.AST, f: Func, env: Optional[Dict[str, T]] = None) -> T:
        if env is None:
            env = self.env(f)
        if isinstance(e, ast.Name):
            if e.id in env and env[e.id] is not None:
                return env[e.id]
            if e.id in env:
                return None
            return self._global_name(e.id, f)
        if isinstance(e, ast.Constant):
            if e.value is None:
                return ("ext", "None")
            return ("ext", type(e.value).__name__)
        if isinstance(e, ast.JoinedStr):
            return ("ext", "str")
        if isinstance(e, ast.Attribute):
            ch = attr_chain(e)
            if ch and ch.split(".")[0] in ("np", "numpy", "os", "sys", "re", "warnings") \
                    and ch.split(".")[0] not in env:
                return ("ext", ch)
            base = self.expr_type(e.value, f, env)
            if base and base[0] == "cls":
                return self.attr_type(base, e.attr)
            if base and base[0] == "type":
                c = self.repo.classes.get(base[1])
                if c:
                    m = self.repo.lookup_member(c, e.attr, "method")
                    if m:
                        return ("func", m.qual)
                    for k in self.repo.mro(c):
                        if e.attr in k.const_ann:
                            return self.ann(k.const_ann[e.attr], k.module)
                        if e.attr in k.consts:
                            return self._const_type(k.consts[e.attr], k)
                return None
            if base and base[0] == "ext" and base[1] == "module":
                return None
            if base and base[0] == "ext" and base[1] == "ndarray" and e.attr in ("T",):
                return base
            return None
        if isinstance(e, ast.Call):
            return self._call_type(e, f, env)
        if isinstance(e, ast.Subscript):
            base = self.expr_type(e.value, f, env)
            if not base:
                return None
            is_slice = isinstance(e.slice, ast.Slice)
            if base[0] == "list":
                return base if is_slice else base[1]
            if base[0] == "tuple*":
                return base if is_slice else base[1]
            if base[0] == "dict":
                return base[2]
            if base[0] == "tuple":
                if isinstance(e.slice, ast.Constant) and isinstance(e.slice.value, int) \
                        and -len(base[1]) <= e.slice.value < len(base[1]):
                    return base[1][e.slice.value]
                if is_slice and e.slice.step is None:
                    lo = e.slice.lower.value if isinstance(e.slice.lower, ast.Constant) else (0 if e.slice.lower is None else None)
                    hi = e.slice.upper.value if isinstance(e.slice.upper, ast.Constant) else (len(base[1]) if e.slice.upper is None else None)
                    if isinstance(lo, int) and isinstance(hi, int):
                        return ("tuple", tuple(base[1][lo:hi]))
                return None
            if base[0] == "cls":
                gi = self.find_member(base[1], "__getitem__", "method")
                if gi:
                    r = self.ann(gi[0][1].node.returns, gi[0][1].module)
                    if r is None:
                        # overloads were skipped by the loader: look the overloads up in the class body
                        r = self._overload_return(gi[0][1], is_slice)
                    if is_slice and r and r[0] != "list":
                        return ("list", r)
                    return r
            if base[0] == "ext" and base[1] == "ndarray":
                return base
            if base[0] == "ext" and base[1] == "str":
                return base
            return None
        if isinstance(e, (ast.List, ast.ListComp)):
            if isinstance(e, ast.List):
                ts = [self.expr_type(x, f, env) for x in e.elts[:3]]
                return ("list", ts[0] if ts else None)
            env2 = dict(env)
            for g in e.generators:
                self._bind_target_force(g.target, self.elem_type(self.expr_type(g.iter, f, env2)), env2)
            return ("list", self.expr_type(e.elt, f, env2))
        if isinstance(e, (ast.Set, ast.SetComp)):
            if isinstance(e, ast.Set):
                return ("set", self.expr_type(e.elts[0], f, env) if e.elts else None)
            env2 = dict(env)
            for g in e.generators:
                self._bind_target_force(g.target, self.elem_type(self.expr_type(g.iter, f, env2)), env2)
            return ("set", self.expr_type(e.elt, f, env2))
        if isinstance(e, ast.GeneratorExp):
            env2 = dict(env)
            for g in e.generators:
                self._bind_target_force(g.target, self.elem_type(self.expr_type(g.iter, f, env2)), env2)
            return ("iter", self.expr_type(e.elt, f, env2))
        if isinstance(e, (ast.Dict, ast.DictComp)):
            if isinstance(e, ast.Dict) and e.keys:
                return ("dict", self.expr_type(e.keys[0], f, env) if e.keys[0] is not None else None,
                        self.expr_type(e.values[0], f, env))
            if isinstance(e, ast.DictComp):
                env2 = dict(env)
                for g in e.generators:
                    self._bind_target_force(g.target, self.elem_type(self.expr_type(g.iter, f, env2)), env2)
                return ("dict", self.expr_type(e.key, f, env2), self.expr_type(e.value, f, env2))
            return ("dict", None, None)
        if isinstance(e, ast.Tuple):
            return ("tuple", tuple(self.expr_type(x, f, env) for x in e.elts))
        if isinstance(e, ast.BinOp):
            a, b = self.expr_type(e.left, f, env), self.expr_type(e.right, f, env)
            for x in (a, b):
                if x and x == ("ext", "ndarray"):
                    return x
            if a and a[0] in ("list", "tuple", "tuple*") and isinstance(e.op, (ast.Add, ast.Mult)):
                return a
            if a and a[0] == "ext":
                return a
            return a or b
        if isinstance(e, ast.IfExp):
            return self.expr_type(e.body, f, env) or self.expr_type(e.orelse, f, env)
        if isinstance(e, ast.BoolOp):
            for v in e.values:
                t = self.expr_type(v, f, env)
                if t and t != ("ext", "None"):
                    return t
            return None
        if isinstance(e, (ast.Compare,)):
            return ("ext", "bool")
        if isinstance(e, ast.UnaryOp):
            if isinstance(e.op, ast.Not):
                return ("ext", "bool")
            return self.expr_type(e.operand, f, env)
        if isinstance(e, ast.Starred):
            return self.expr_type(e.value, f, env)
        return None

    def _bind_target_force(self, t, tv, env):
        if isinstance(t, ast.Name):
            env[t.id] = tv
        elif isinstance(t, (ast.Tuple, ast.List)):
            for i, x in enumerate(t.elts):
                et = None
                if tv and tv[0] == "tuple" and i < len(tv[1]):
                    et = tv[1][i]
                elif tv and tv[0] in ("tuple*", "list"):
                    et = tv[1]
                self._bind_target_force(x, et, env)

    def _overload_return(self, f: Func, is_slice: bool) -> T:
        if f.cls is None:
            return None
        for st in f.cls.node.body:
            if isinstance(st, ast.FunctionDef) and st.name == f.name and st is not f.node \
                    and any(norm(d).endswith("overload") for d in st.decorator_list):
                idx = st.args.args[1].annotation if len(st.args.args) > 1 else None
                if (norm(idx) == "slice") == is_slice:
                    return self.ann(st.returns, f.module)
        return None

    def _global_name(self, name: str, f: Func) -> T:
        m = f.module
        q = m.name + "." + name
        if q in self.repo.funcs:
            return ("func", q)
        if q in self.repo.classes:
            return ("type", q)
        if name in m.imports:
            return self._resolve_dotted(m.imports[name], 0)
        if name in ("np", "numpy", "os", "re", "sys", "warnings", "argparse", "abc"):
            return ("ext", "module")
        return None

    def _resolve_dotted(self, dotted: str, depth: int) -> T:
        if depth > 6:
            return None
        if dotted in self.repo.funcs:
            return ("func", dotted)
        if dotted in self.repo.classes:
            return ("type", dotted)
        if "." in dotted:
            modname, name = dotted.rsplit(".", 1)
            m = self.repo.modules.get(modname)
            if m is not None:
                if name in m.imports:
                    return self._resolve_dotted(m.imports[name], depth + 1)
                # module-level alias  X = Y
                for st in m.node.body:
                    if isinstance(st, ast.Assign) and isinstance(st.targets[0], ast.Name) \
                            and st.targets[0].id == name:
                        return None
            if dotted in self.repo.modules:
                return ("ext", "module")
        if dotted.split(".")[0] not in (self.repo.PKG,):
            return ("ext", "module") if "." not in dotted else ("ext", dotted)
        return None

    def _call_type(self, e: ast.Call, f: Func, env) -> T:
        fn = e.func
        if isinstance(fn, ast.Name):
            nm = fn.id
            if nm in ("list", "sorted", "reversed"):
                a = self.expr_type(e.args[0], f, env) if e.args else None
                return ("list", self.elem_type(a))
            if nm in ("set", "frozenset"):
                a = self.expr_type(e.args[0], f, env) if e.args else None
                return ("set", self.elem_type(a))
            if nm in ("dict", "defaultdict", "OrderedDict", "Counter"):
                return ("dict", None, None)
            if nm == "deque":
                a = self.expr_type(e.args[0], f, env) if e.args else None
                return ("list", self.elem_type(a))
            if nm in ("tuple",):
                a = self.expr_type(e.args[0], f, env) if e.args else None
                return ("tuple*", self.elem_type(a))
            if nm == "range":
                return ("list", ("ext", "int"))
            if nm == "enumerate":
                a = self.expr_type(e.args[0], f, env) if e.args else None
                return ("iter", ("tuple", (("ext", "int"), self.elem_type(a))))
            if nm == "zip":
                return ("iter", ("tuple", tuple(self.elem_type(self.expr_type(a, f, env)) for a in e.args)))
            if nm in ("len", "hash", "int", "sum", "id", "ord"):
                return ("ext", "int")
            if nm in ("str", "repr", "format"):
                return ("ext", "str")
            if nm in ("float", "round", "abs", "min", "max"):
                if nm in ("min", "max") and e.args:
                    a = self.expr_type(e.args[0], f, env)
                    return self.elem_type(a) if len(e.args) == 1 else a
                return ("ext", "float")
            if nm in ("isinstance", "hasattr", "bool", "any", "all", "callable"):
                return ("ext", "bool")
            if nm in ("open",):
                return ("ext", "file")
            if nm in ("next",):
                a = self.expr_type(e.args[0], f, env) if e.args else None
                if a and a[0] == "cls":
                    nx = self.find_member(a[1], "__next__", "method") or self.find_member(a[1], "next", "method")
                    if nx:
                        return self.ann(nx[0][1].node.returns, nx[0][1].module)
                return self.elem_type(a)
            if nm == "getattr":
                if len(e.args) >= 2 and isinstance(e.args[1], ast.Constant):
                    a = self.expr_type(e.args[0], f, env)
                    return self.attr_type(a, e.args[1].value) if a else None
                return None
            if nm == "super":
                if f.cls is not None:
                    mro = self.repo.mro(f.cls)
                    if len(mro) > 1:
                        return ("cls", mro[1].qual)
                return None
            if nm == "type" and len(e.args) == 1:
                a = self.expr_type(e.args[0], f, env)
                return ("type", a[1]) if a and a[0] == "cls" else None
            if nm in ("islice_extended",):
                a = self.expr_type(e.args[0], f, env) if e.args else None
                return ("iter", self.elem_type(a))
            if nm in ("last", "first"):
                a = self.expr_type(e.args[0], f, env) if e.args else None
                return self.elem_type(a)
            t = env.get(nm) if nm in env else self._global_name(nm, f)
            return self._apply(t, e, f, env)
        t = self.expr_type(fn, f, env)
        if t is not None and not (t[0] == "ext" and isinstance(fn, ast.Attribute)):
            return self._apply(t, e, f, env)
        if isinstance(fn, ast.Attribute):
            base = self.expr_type(fn.value, f, env)
            full = norm(fn)
            if full.startswith(("np.", "numpy.")):
                if fn.attr in ("array", "zeros", "ones", "copy", "cross", "dot", "mean", "concatenate", "append",
                               "transpose", "outer", "eye", "diag", "zeros_like", "round", "sqrt", "cos", "sin"):
                    return ("ext", "ndarray")
                return ("ext", "np")
            if base:
                if base[0] == "dict":
                    if fn.attr == "items":
                        return ("iter", ("tuple", (base[1], base[2])))
                    if fn.attr == "values":
                        return ("iter", base[2])
                    if fn.attr == "keys":
                        return ("iter", base[1])
                    if fn.attr in ("get", "pop", "setdefault"):
                        return base[2]
                    if fn.attr == "copy":
                        return base
                if base[0] in ("list", "set"):
                    if fn.attr in ("copy", "union", "intersection", "difference"):
                        return base
                    if fn.attr == "pop":
                        return base[1]
                if base == ("ext", "ndarray"):
                    return ("ext", "ndarray")
                if base == ("ext", "str"):
                    if fn.attr in ("split", "splitlines", "rsplit"):
                        return ("list", ("ext", "str"))
                    return ("ext", "str")
        return None

    def _apply(self, t: T, e: ast.Call, f: Func, env) -> T:
        if not t:
            return None
        if t[0] == "type":
            return ("cls", t[1])
        if t[0] in ("func", "bound"):
            g = self.repo.funcs.get(t[1])
            if g is None:
                return None
            if g.name == "copy" and t[0] == "bound" and g.node.returns is None:
                return t[2]
            r = self.ann(g.node.returns, g.module)
            if g.kind == "classmeth" and r is None and g.cls is not None:
                return None
            return r
        if t[0] == "cls":
            c = self.find_member(t[1], "__call__", "method")
            if c:
                return self.ann(c[0][1].node.returns, c[0][1].module)
        return None

    # ------------------------------------------------------------------ call resolution
    def callees(self, call: ast.Call, f: Func) -> Tuple[List[Func], str]:
        """Package functions a call may invoke, and a status: resolved | external | unresolved."""
        env = self.env(f)
        fn = call.func
        out: List[Func] = []
        status = "unresolved"
        if isinstance(fn, ast.Name):
            nm = fn.id
            t = env.get(nm) if env.get(nm) is not None else self._global_name(nm, f)
            if nm == "super":
                return [], "external"
            if t is None and nm not in env:
                # local alias  _x = something
                for st in walk_no_nested(f.node):
                    if isinstance(st, ast.Assign) and isinstance(st.targets[0], ast.Name) and st.targets[0].id == nm:
                        t = self.expr_type(st.value, f, env)
            if t is None:
                import builtins
                if hasattr(builtins, nm) or nm in ("deque", "defaultdict", "OrderedDict", "Counter", "groupby",
                                                    "islice_extended", "last", "cdist", "euclidean", "warn"):
                    return [], "external"
                # nested function defined in f
                q = f.qual + ".<locals>." + nm
                if q in self.repo.funcs:
                    return [self.repo.funcs[q]], "resolved"
                return [], "unresolved"
            return self._callees_of_type(t, call, exact=True)
        if isinstance(fn, ast.Attribute):
            # super(...).m(...)
            if isinstance(fn.value, ast.Call) and isinstance(fn.value.func, ast.Name) and fn.value.func.id == "super":
                if f.cls is not None:
                    mro = self.repo.mro(f.cls)
                    for k in mro[1:]:
                        if fn.attr in k.methods:
                            return [k.methods[fn.attr]], "resolved"
                return [], "external"
            # super(X, type(self)).prop.fset(self, v)
            if fn.attr in ("fset", "fget") and isinstance(fn.value, ast.Attribute) \
                    and isinstance(fn.value.value, ast.Call) and call_name(fn.value.value) == "super" and f.cls is not None:
                prop = fn.value.attr
                for k in self.repo.mro(f.cls)[1:]:
                    d = k.setters if fn.attr == "fset" else k.getters
                    if prop in d:
                        return [d[prop]], "resolved"
                return [], "unresolved"
            # ClassName.prop.fset(self, v): the setter found from that class upwards
            if fn.attr in ("fset", "fget") and isinstance(fn.value, ast.Attribute) and isinstance(fn.value.value, ast.Name):
                cands = [k for k in self.repo.classes.values() if k.name == fn.value.value.id]
                if len(cands) == 1:
                    prop = fn.value.attr
                    for k in self.repo.mro(cands[0]):
                        d = k.setters if fn.attr == "fset" else k.getters
                        if prop in d:
                            return [d[prop]], "resolved"
                    return [], "unresolved"
            full = norm(fn)
            if full.split(".")[0] in ("np", "numpy", "os", "re", "sys", "warnings", "argparse", "scipy"):
                return [], "external"
            base = self.expr_type(fn.value, f, env)
            if base:
                if base[0] == "cls":
                    ms = self.find_member(base[1], fn.attr, "method")
                    res = [m for _, m in ms]
                    # virtual dispatch: overriding definitions in subclasses
                    c = self.repo.classes[base[1]]
                    for k in self.repo.subclasses(c):
                        if k is not c and fn.attr in k.methods and k.methods[fn.attr] not in res:
                            res.append(k.methods[fn.attr])
                    if res:
                        return res, "resolved"
                    at = self.attr_type(base, fn.attr)
                    if at is not None:
                        return self._callees_of_type(at, call)
                    return [], "unresolved"
                if base[0] == "type":
                    c = self.repo.classes.get(base[1])
                    m = self.repo.lookup_member(c, fn.attr, "method") if c else None
                    return ([m], "resolved") if m else ([], "unresolved")
                if base[0] in ("list", "set", "dict", "tuple", "tuple*", "iter", "ext"):
                    return [], "external"
            # unknown receiver: every method of that name in the package (may-call over-approximation),
            # except for names that only exist on builtin containers
            cands = [g for g in self.repo.funcs.values() if g.name == fn.attr and g.cls is not None
                     and g.kind in ("method", "static", "classmeth")]
            if cands:
                return cands, "unresolved"
            return [], "external"
        t = self.expr_type(fn, f, env)
        return self._callees_of_type(t, call) if t else ([], "unresolved")

    def _callees_of_type(self, t: T, call, exact: bool = False) -> Tuple[List[Func], str]:
        if not t:
            return [], "unresolved"
        if t[0] == "type":
            c = self.repo.classes.get(t[1])
            inits = []
            if c:
                for k in ([c] if exact else self.repo.subclasses(c)):
                    init = self.repo.lookup_member(k, "__init__", "method")
                    if init and init not in inits:
                        inits.append(init)
            return inits, "resolved"
        if t[0] in ("func", "bound"):
            g = self.repo.funcs.get(t[1])
            return ([g] if g else []), "resolved" if g else "unresolved"
        if t[0] == "cls":
            c = self.find_member(t[1], "__call__", "method")
            return [m for _, m in c], "resolved" if c else "unresolved"
        if t[0] == "ext":
            return [], "external"
        return [], "unresolved"

    # property reads / writes as calls
    def attr_loads(self, f: Func) -> List[Tuple[ast.Attribute, List[Func]]]:
        """Attribute loads in ``f`` that invoke a property getter of a package class."""
        env = self.env(f)
        out = []
        for n in walk_no_nested(f.node):
            if isinstance(n, ast.Attribute) and isinstance(n.ctx, ast.Load):
                base = self.expr_type(n.value, f, env)
                if base and base[0] == "cls":
                    gs = [m for k, m in self.find_member(base[1], n.attr, "getter") if k == "getter"]
                    c = self.repo.classes[base[1]]
                    for k in self.repo.subclasses(c):
                        if k is not c and n.attr in k.getters and k.getters[n.attr] not in gs:
                            gs.append(k.getters[n.attr])
                    if gs:
                        out.append((n, gs))
        return out

    def attr_store_targets(self, recv: T, name: str) -> List[Tuple[str, str, Optional[Func]]]:
        """Where does `x.name = v` land for x of type recv?  [(class qual, attr, setter Func|None)]
        following the __setattr__ ladder of wrapper classes as written."""
        if not recv or recv[0] != "cls":
            return []
        cq = recv[1]
        c = self.repo.classes[cq]
        sa = self.repo.lookup_member(c, "__setattr__", "method")
        st = self.find_member_local(cq, name, "setter")
        if sa is None:
            if st:
                return [(st.cls.qual, name, st)]
            return [(cq, name, None)]
        # wrapper ladder: names routed to both, own attributes, then delegates in the order written
        both: Set[str] = set()
        order: List[str] = []
        for n in ast.walk(sa.node):
            if isinstance(n, ast.If):
                t, when_t, when_f = n.test, n.body, n.orelse
                while isinstance(t, ast.UnaryOp) and isinstance(t.op, ast.Not):
                    t, when_t, when_f = t.operand, when_f, when_t
                if isinstance(t, ast.Compare) and isinstance(t.ops[0], ast.NotIn):
                    t, when_t, when_f = ast.Compare(t.left, [ast.In()], t.comparators), when_f, when_t
                if isinstance(t, ast.Compare) and isinstance(t.ops[0], ast.In) and isinstance(t.comparators[0], (ast.Tuple, ast.List)):
                    names = {e.value for e in t.comparators[0].elts if isinstance(e, ast.Constant)}
                    sets = [c2 for s in when_t if not isinstance(s, ast.If) for c2 in calls_in(s) if call_name(c2) == "setattr"]
                    if len(sets) >= 2:
                        both |= names
                if isinstance(t, ast.Call) and call_name(t) == "hasattr" and len(t.args) == 2:
                    tgt = attr_chain(t.args[0])
                    if tgt and tgt.startswith("self."):
                        order.append(tgt[5:])
        out = []
        if name in both:
            for d in order:
                dt = self.attr_type(recv, d)
                out += self.attr_store_targets(dt, name)
            return out
        if st:
            return [(st.cls.qual, name, st)]
        if self.has_instance_attr(cq, name) and not self.find_member_local(cq, name, "getter"):
            return [(cq, name, None)]
        for d in order:
            dt = self.attr_type(recv, d)
            if dt and dt[0] == "cls" and (self.find_member(dt[1], name) or self.has_instance_attr(dt[1], name)):
                return self.attr_store_targets(dt, name)
        return [(cq, name, None)]

    def find_member_local(self, cq: str, name: str, want: str) -> Optional[Func]:
        c = self.repo.classes.get(cq)
        if c is None:
            return None
        for k in self.repo.mro(c):
            d = {"setter": k.setters, "getter": k.getters, "method": k.methods}[want]
            if name in d:
                return d[name]
        return None

    # ------------------------------------------------------------------ call graph
    def callgraph(self, include_props: bool = True) -> Dict[str, Set[str]]:
        g: Dict[str, Set[str]] = {}
        for f in self.repo.funcs.values():
            outs: Set[str] = set()
            for c in calls_in(f.node, nested=False):
                cs, status = self.callees(c, f)
                self.stats["calls"] += 1
                self.stats[status] += 1
                for x in cs:
                    outs.add(x.qual)
            if include_props:
                for n, gs in self.attr_loads(f):
                    for x in gs:
                        outs.add(x.qual)
                env = self.env(f)
                for n in walk_no_nested(f.node):
                    if isinstance(n, ast.Attribute) and isinstance(n.ctx, ast.Store):
                        base = self.expr_type(n.value, f, env)
                        for cq, an, setter in self.attr_store_targets(base, n.attr):
                            if setter is not None:
                                outs.add(setter.qual)
                    # implicit protocol calls
                    if isinstance(n, (ast.For, ast.comprehension)):
                        it = self.expr_type(n.iter, f, env)
                        if it and it[0] == "cls":
                            for _, m in self.find_member(it[1], "__iter__", "method"):
                                outs.add(m.qual)
                    if isinstance(n, ast.Subscript) and isinstance(n.ctx, ast.Load):
                        bt = self.expr_type(n.value, f, env)
                        if bt and bt[0] == "cls":
                            for _, m in self.find_member(bt[1], "__getitem__", "method"):
                                outs.add(m.qual)
                    if isinstance(n, ast.Compare):
                        for side in [n.left] + list(n.comparators):
                            bt = self.expr_type(side, f, env)
                            if bt and bt[0] == "cls":
                                for op in n.ops:
                                    mname = {ast.Eq: "__eq__", ast.NotEq: "__ne__"}.get(type(op))
                                    if mname:
                                        for _, m in self.find_member(bt[1], mname, "method"):
                                            outs.add(m.qual)
                    if isinstance(n, ast.Call) and isinstance(n.func, ast.Name) and n.func.id in ("len", "hash", "str") and n.args:
                        bt = self.expr_type(n.args[0], f, env)
                        if bt and bt[0] == "cls":
                            for _, m in self.find_member(bt[1], "__%s__" % n.func.id, "method"):
                                outs.add(m.qual)
            # nested functions are part of their parent
            for q, sub in self.repo.funcs.items():
                if sub.parent is f:
                    outs.add(q)
            g[f.qual] = outs
        return g
