"""CLI: python -m gmsa <Cxx> --tier quick|thorough [--replay path]"""
import argparse
import importlib
import json
import os
import sys
import time
import traceback

from .core import AnalysisError, Ctx, Repo, finish

PROPS = ["C%02d" % i for i in range(1, 21)]


def run_property(prop, tier, root=None, write=True, quiet=False):
    """Analyse one property on the tree under ``root``; returns (exit, ctx)."""
    t0 = time.time()
    mod = importlib.import_module("gmsa.props.%s" % prop.lower())
    repo = Repo(root)
    from .props import frames, exmap
    frames._cache.clear()
    exmap._DEFS.clear()
    ctx = Ctx(prop, tier, repo)
    # anything a rule could not anchor, outside the per-rule wrappers, on a tree that differs from the reference tree: the
    # rest of this property is not decided on this tree (on the reference tree itself it stays an analysis error)
    ctx.attempt(prop, lambda: mod.run(ctx))
    from .props import precision
    if prop in precision.NUMERIC_PROPS:
        precision.run(ctx)
    extra = None
    if tier == "thorough" and write:
        from . import thorough
        extra = thorough.widen(ctx, mod)
    code = finish(ctx, t0, mod.SPEC, extra, write=write)
    return code, ctx


def main(argv=None):
    ap = argparse.ArgumentParser(prog="gmsa")
    ap.add_argument("prop")
    ap.add_argument("--tier", default=os.environ.get("VERIF_TIER", "quick"),
                    choices=["quick", "thorough"])
    ap.add_argument("--replay", default=None,
                    help="replay file of an earlier violation: the property is re-analysed on the "
                         "current tree and the recorded construct is looked for in the report")
    ap.add_argument("--root", default=None, help="analyse the package under this root instead of /repo (scratch variants)")
    ap.add_argument("--no-write", action="store_true", help="do not write evidence / replay files (scratch variants)")
    args = ap.parse_args(argv)
    prop = args.prop.upper()
    if prop not in PROPS:
        print("ANALYSIS-ERROR unknown property %s" % prop)
        return 2
    try:
        code, ctx = run_property(prop, args.tier, args.root, write=not args.no_write)
        if args.replay:
            rec = json.load(open(args.replay))
            hit = [o for o in ctx.obligations if not o.ok and o.rule == rec.get("rule")
                   and o.function == rec.get("function") and o.construct == rec.get("construct")]
            print("REPLAY: recorded violation %s" % ("still present" if hit else "no longer reported"))
        return code
    except AnalysisError as exc:
        print("ANALYSIS-ERROR property=%s %s" % (prop, exc))
        return 2
    except Exception:                                   # never let a traceback look like a verdict
        traceback.print_exc()
        print("ANALYSIS-ERROR property=%s internal error in the analyser (traceback above)" % prop)
        return 2


if __name__ == "__main__":
    sys.stdout.reconfigure(line_buffering=True)
    rc = main()
    sys.stdout.flush()
    os._exit(rc)
