"""Catalogue of scratch-copy variants used by the thorough tier to test each rule both ways.

Each entry: (property, kind, relative file, old text, new text, description)
  kind 'B' = breaking: the property's check must report a violation (exit 1)
  kind 'P' = behaviour-preserving: the check must stay silent (exit 0)
Entries are text edits anchored in today's source; an entry whose anchor text is not present in the tree
being analysed is reported as 'not applicable on this tree' and skipped.  Variants are only parsed and
analysed, never imported or executed.
"""

A = "gaddlemaps/_auxilliary.py"
E = "gaddlemaps/_exchage_map.py"
T = "gaddlemaps/components/_components_top.py"
B = "gaddlemaps/_backend.py"
TM = "gaddlemaps/_transform_molecule.py"
AL = "gaddlemaps/_alignment.py"
M = "gaddlemaps/_manager.py"
R = "gaddlemaps/components/_residue.py"
C = "gaddlemaps/components/_components.py"
S = "gaddlemaps/components/_system.py"
P = "gaddlemaps/parsers/__init__.py"
I = "gaddlemaps/parsers/_itp_parse.py"
TP = "gaddlemaps/parsers/_top_parsers.py"
CI = "gaddlemaps/components/__init__.py"
CLI = "gaddlemaps/_cli.py"

V = []


def add(prop, kind, f, old, new, desc, more=None):
    V.append({"property": prop, "kind": kind, "file": f, "old": old, "new": new, "desc": desc, "more": list(more or [])})


# ----------------------------------------------------------------------------- C01 / C02 / C03
for p in ("C01",):
    add(p, "B", E, "return center + np.dot(proyection, vectores)", "return center + np.dot(proyection, vectores) * self.scale_factor", "scale applied twice")
    add(p, "B", E, "return proyect * self.scale_factor", "return proyect", "scale dropped")
    add(p, "B", E, "if len(atom.bonds) >= 2:", "if len(atom.bonds) > 2:", "anchors need three bonds")
    add(p, "B", E, "if len(atom.bonds) >= 2:", "if len(atom.bonds) >= 1:", "anchors with one bond")
    add(p, "B", T, "return sorted(self.bonds)[:natoms]", "return list(self.bonds)[:natoms]", "neighbours not the lowest-numbered")
    add(p, "B", E, "np.dot(proyection, vectores)", "np.dot(vectores, proyection)", "restore without transpose")
    add(p, "B", E, "return sorted(distances)[0][1]", "return sorted(distances)[-1][1]", "farthest anchor")
    add(p, "B", E, "center = self._refsystems[atomref][1]", "center = self._refmolecule.geometric_center", "restore about the molecule centre")
    add(p, "B", E, "for index in self._refsystems]", "for index in self._refsystems if index > 0]", "anchor search skips a frame")
    add(p, "B", A, "    vec3 /= np.linalg.norm(vec3)\n", "", "frame vector not normalised")
    add(p, "P", E, "if len(atom.bonds) >= 2:", "if len(atom.bonds) > 1:", ">= 2 written as > 1")
    add(p, "P", E, "return sorted(distances)[0][1]", "return min(distances)[1]", "sorted()[0] written as min()")
    add(p, "P", E, "return proyect * self.scale_factor", "return self.scale_factor * proyect", "commuted product")
    add(p, "P", A, "    vec1 /= np.linalg.norm(vec1)", "    vec1 = vec1 / np.linalg.norm(vec1)", "in-place normalisation written out of place")
add("C02", "B", E, "        self._calculate_refsystems(refmolecule)\n        new_mol", "        if not self._refsystems:\n            self._calculate_refsystems(refmolecule)\n        new_mol", "memoised frames")
add("C02", "B", E, "        self._calculate_refsystems(refmolecule)\n        new_mol", "        self._calculate_refsystems(self._refmolecule)\n        new_mol", "frames from the construction molecule")
add("C02", "B", E, "positions = np.insert(pos, 1, rand_pos, axis=0)", "positions = np.append(pos, rand_pos, axis=0)", "random point in the axis slot (D2)")
add("C02", "B", A, "    vec3 = np.cross(vec1, pos1-pos0)", "    vec3 = np.cross(vec1, np.array([0., 0., 1.]))", "lab axis on the generic path")
add("C02", "B", A, "        vec3 = np.cross(vec1, axis)\n", "        v10, v11, _ = vec1\n        vec3 = np.array([v11, -v10, 0]) / (v10**2+v11**2)\n        return (vec1, np.cross(vec3, vec1), vec3), pos0\n", "collinear fallback mis-normalised (D1)")
add("C02", "P", E, "positions = np.insert(pos, 1, rand_pos, axis=0)", "positions = np.concatenate((pos[:1], rand_pos, pos[1:]))", "insert written as concatenate")
add("C03", "B", E, "        new_mol.resids = refmolecule.resids", "        new_mol.move_to(refmolecule.geometric_center)\n        new_mol.resids = refmolecule.resids", "global re-centring")
add("C03", "B", T, "return sorted(self.bonds)[:natoms]", "return sorted(self.bonds, reverse=True)[:natoms]", "highest-numbered neighbours")
add("C03", "B", E, "positions = [atom.position, neighbour1.position,\n                             neighbour2.position]", "positions = [atom.position, neighbour1.position,\n                             molecule[-1].position]", "frame uses an unrelated atom")
add("C03", "P", E, "                ind1, ind2 = atom.closest_atoms()\n                neighbour1, neighbour2 = (molecule[ind1], molecule[ind2])", "                ind1, ind2 = atom.closest_atoms()\n                neighbour1 = molecule[ind1]\n                neighbour2 = molecule[ind2]", "tuple assignment split")

# ----------------------------------------------------------------------------- C04
add("C04", "B", E, "new_mol = self._targetmolecule.copy()", "new_mol = self._targetmolecule", "result aliases the target")
add("C04", "B", E, "            refname = self._equivalences[hash(atom)]", "            refname = self._equivalences.setdefault(hash(atom), 0)", "call writes the equivalences")
add("C04", "B", E, "        if self._refmolecule != refmolecule:\n            raise TypeError((\"refmolecule must be:\\n{}\"\n                             \"\").format(self._refmolecule))\n\n        self._calculate_refsystems(refmolecule)",
    "        self._calculate_refsystems(refmolecule)\n        if self._refmolecule != refmolecule:\n            raise TypeError((\"refmolecule must be:\\n{}\"\n                             \"\").format(self._refmolecule))\n", "species check after the recomputation")
add("C04", "B", E, "            atom.position = self._restore_point(refname, proyection)", "            if refname in self._refsystems:\n                atom.position = self._restore_point(refname, proyection)", "conditional position store")
add("C04", "B", E, "        new_mol.resids = refmolecule.resids\n", "", "residue numbers not transferred")
add("C04", "B", E, "        self._calculate_refsystems(refmolecule)\n        new_mol", "        refmolecule.move_to(self._refmolecule.geometric_center)\n        self._calculate_refsystems(refmolecule)\n        new_mol", "argument moved")
add("C04", "B", C, "self._residues.append(res.copy())", "self._residues.append(res)", "Molecule keeps the caller's residues")
add("C04", "P", E, "        if self._refmolecule != refmolecule:", "        if not self._refmolecule == refmolecule:", "!= written as not ==")
add("C04", "P", E, "        new_mol.resids = refmolecule.resids\n        return new_mol", "        new_mol.resids = refmolecule.resids\n        self._last = new_mol\n        return new_mol", "write-only cache attribute")

add("C04", "B", C, "                         self.top_resid == atom.top_resid and\n                         self.bonds == atom.bonds)", "                         self.top_resid == atom.top_resid)", "species check ignores bonds (D12)")
add("C04", "B", C, "        if (isinstance(molecule, Molecule) and\n            molecule.name == self.name and\n            len(molecule) == len(self)):", "        if (isinstance(molecule, Molecule) and\n            molecule.name == self.name):", "species check ignores the atom count")

# ----------------------------------------------------------------------------- C05
add("C05", "B", M, "        complete_correspondence = self.complete_correspondence\n        # Check if there is something to map", "        open(fgro_out, 'w').close()\n        complete_correspondence = self.complete_correspondence\n        # Check if there is something to map", "file created before the checks")
add("C05", "B", M, "            atom_index = 1", "            atom_index = 0", "numbering from 0")
add("C05", "B", M, "                    line[3] = atom_index\n                    atom_index += 1", "                    atom_index += 1\n                    line[3] = atom_index", "increment before store")
add("C05", "B", M, "                    atom_index += 1\n", "                    atom_index += 1\n                    atom_index += 1\n", "double increment")
add("C05", "B", M, "            fgro.box_matrix = self.system.system_gro.box_matrix\n", "", "box not forwarded")
add("C05", "B", M, "            fgro.comment = self.system.system_gro.comment_line\n", "", "title not forwarded")
add("C05", "B", M, "new_mol = complete_correspondence[name].exchange_map(mol)", "new_mol = complete_correspondence[mol.resnames[0]].exchange_map(mol)", "map looked up under another key")
add("C05", "B", M, "            for mol in self.system:\n                name = mol.name", "            for mol in sorted(self.system, key=lambda m: m.name):\n                name = mol.name", "per-species order")
add("C05", "B", M, "                new_mol = complete_correspondence[name].exchange_map(mol)  # type: ignore", "                new_mol = complete_correspondence[name].exchange_map(mol)  # type: ignore\n                atom_index = 1", "counter reset per molecule")
add("C05", "B", M, "                    line = atom.gro_line()", "                    if atom.name.startswith('H'):\n                        continue\n                    line = atom.gro_line()", "atoms skipped")
add("C05", "P", M, "                    atom_index += 1", "                    atom_index = atom_index + 1", "+= written out")
add("C05", "P", M, "                name = mol.name\n                if name not in complete_correspondence:\n                    continue\n                new_mol = complete_correspondence[name].exchange_map(mol)  # type: ignore",
    "                if mol.name not in complete_correspondence:\n                    continue\n                new_mol = complete_correspondence[mol.name].exchange_map(mol)  # type: ignore", "name not hoisted")

# ----------------------------------------------------------------------------- C06
add("C06", "B", AL, "        if (self._end is None) or (self._start is None):\n            self._start = molecule.copy()", "        if (self._end is None) or (self._start is None):\n            self._start = molecule", "setter stores the caller's molecule")
add("C06", "B", AL, "            self.start.atoms_positions = mol2_positions\n        else:\n            self.end.atoms_positions = mol2_positions", "            self.end.atoms_positions = mol2_positions\n        else:\n            self.start.atoms_positions = mol2_positions", "write-back swapped")
add("C06", "B", AL, "        # Change mol2 positions. Ensure that the changes are applied.\n        if len(self.start) < len(self.end):", "        # Change mol2 positions. Ensure that the changes are applied.\n        if len(self.start) <= len(self.end):", "<= in one of the two role tests")
add("C06", "B", TM, "        atom_index = np.random.randint(n_atoms)", "        import random\n        atom_index = int(random.random() * n_atoms)", "second random stream")
add("C06", "B", B, "            desplazamiento = _rand_norm(0, displacement_module, 3)", "            desplazamiento = np.random.default_rng().normal(0, displacement_module, 3)", "unseeded generator")
add("C06", "B", AL, "        self.start.move_to(self.end.geometric_center)", "        self.end.move_to(self.start.geometric_center)", "end molecule translated")
add("C06", "B", AL, "        start = self.start.deep_copy()", "        start = self.start.copy()", "comparison file renames the shared topology")
add("C06", "B", TM, "    atoms_pos = np.copy(atoms_pos)\n", "", "single-atom move modifies its input")
add("C06", "P", AL, "        if len(self.start) < len(self.end):\n            molecules = [self.end, self.start]", "        if len(self.end) > len(self.start):\n            molecules = [self.end, self.start]", "role test with flipped operands")

# ----------------------------------------------------------------------------- C07
add("C07", "B", TM, "    atoms_pos = np.copy(atoms_pos)\n", "", "np.copy removed")
add("C07", "B", TM, "                queue.append((ind2, bonds[0], bonds[1]))  # type: ignore\n                wait_queue.remove(bonds[0])", "                queue.append((ind2, bonds[0], bonds[1]))  # type: ignore", "visited marking dropped")
add("C07", "B", TM, "            if bonds[0] in wait_queue:", "            if bonds[0] != ind1:", "visited guard dropped")
add("C07", "B", TM, "    wait_queue.remove(atom_index)\n", "    wait_queue.remove(atom_index)\n    atoms_pos[atom_index] += displ\n", "moved atom displaced twice")
add("C07", "B", TM, "                             atoms_pos[bonds_info[atom_index][0][0]] -\n                             atoms_pos[atom_index])", "                             atoms_pos[bonds_info[atom_index][0][0]] +\n                             atoms_pos[atom_index])", "wrong vector in the cross product")
add("C07", "B", TM, "(modulo - bond) * unit", "(bond - modulo) * unit", "pull with the wrong sign")
add("C07", "B", TM, "diferencia = atoms_pos[ind1] - atoms_pos[ind2]", "diferencia = atoms_pos[ind2] - atoms_pos[ind1]", "separation reversed without flipping the update")
add("C07", "B", TM, "queue.append((ind2, bonds[0], bonds[1]))", "queue.append((ind2, bonds[0], bond))", "length of the wrong bond")
add("C07", "P", TM, "        diferencia = atoms_pos[ind1] - atoms_pos[ind2]\n        modulo = np.linalg.norm(diferencia)\n        unit = diferencia/modulo\n        atoms_pos[ind2] = atoms_pos[ind2] + (modulo - bond) * unit",
    "        diferencia = atoms_pos[ind2] - atoms_pos[ind1]\n        modulo = np.linalg.norm(diferencia)\n        unit = diferencia/modulo\n        atoms_pos[ind2] = atoms_pos[ind2] - (modulo - bond) * unit", "separation reversed and update flipped")
add("C07", "P", TM, "        unit = diferencia/modulo\n        atoms_pos[ind2] = atoms_pos[ind2] + (modulo - bond) * unit", "        atoms_pos[ind2] = atoms_pos[ind2] + (modulo - bond) * (diferencia/modulo)", "unit vector inlined")

# ----------------------------------------------------------------------------- C08
add("C08", "B", B, "            self._mol1_restriction = mol1[restriction1]", "            self._mol1_restriction = mol1[restriction1]\n            self._mol2_restriction = mol2[self.restriction2]", "mobile coordinates cached at construction")
add("C08", "B", B, "        mol2_restrictions = mol2[self.restriction2]\n        return", "        mol2_restrictions = self._mol1_restriction\n        return", "restraint term ignores the evaluated array")
add("C08", "B", B, "            chi2 *= 1.1**n_cg_far\n        return chi2\n\n    def chi2_molecules", "            chi2 *= 1.2**n_cg_far\n        return chi2\n\n    def chi2_molecules", "penalty base differs on one path")
add("C08", "B", B, "len(self.set_restriction2.union(distances.argmin(axis=1)))", "len(self.set_restriction2.union(distances.argmin(axis=0)))", "argmin over the other axis")
add("C08", "B", B, "        distances = cdist(self._mol1_not_restriction, mol2, 'sqeuclidean')", "        distances = cdist(self._mol1_not_restriction, mol2, 'euclidean')", "metric differs on one path")
add("C08", "B", B, "restriction1, self.restriction2 = self.restrictions.T", "self.restriction2, restriction1 = self.restrictions.T", "restraint columns swapped")
add("C08", "B", B, "len(self.set_restriction2.union(distances.argmin(axis=1)))", "len(set(distances.argmin(axis=1)))", "exponent ignores restrained atoms")
add("C08", "B", B, "            if not mol1_not_restriction_mask.any():", "            if mol1_not_restriction_mask.all():", "dispatch condition wrong")
add("C08", "P", B, "        distances = cdist(self._mol1_positions, mol2, 'sqeuclidean')\n        chi2 = np.sum(distances.min(axis=1))\n        n_cg_far = len(mol2) - len(set(distances.argmin(axis=1)))",
    "        dmat = cdist(self._mol1_positions, mol2, 'sqeuclidean')\n        chi2 = np.sum(dmat.min(axis=1))\n        n_cg_far = len(mol2) - len(set(dmat.argmin(axis=1)))", "local renamed")
add("C08", "P", B, "        if n_cg_far:\n            chi2 *= 1.1**n_cg_far\n        return chi2\n\n    def chi2_molecules", "        chi2 *= 1.1**n_cg_far\n        return chi2\n\n    def chi2_molecules", "unconditional multiply")

# ----------------------------------------------------------------------------- C09
add("C09", "B", B, "if _accept_metropolis(chi2, chi2_new):", "if _accept_metropolis(chi2_min, chi2_new):", "judged against the best energy")
add("C09", "B", B, "            chi2 = chi2_new\n", "", "held energy not updated")
add("C09", "B", B, "test = mol2_positions + desplazamiento", "test = test + desplazamiento", "proposal chained from the previous proposal")
add("C09", "B", B, "            mol2_com = _mean(mol2_positions, axis=0)\n", "", "stale rotation centre")
add("C09", "B", B, "    return mol2_positions\n\n\ndef accept", "    return test\n\n\ndef accept", "returns the last proposal")
add("C09", "B", B, "if chi2 < chi2_min:", "if chi2 <= chi2_min:", "reset on <=")
add("C09", "B", B, "                chi2_min = chi2\n", "", "minimum not updated")
add("C09", "B", B, "                continue\n        counter += 1", "                continue\n        else:\n            counter += 1", "no increment after accept without new minimum")
add("C09", "B", B, "_accept_metropolis(chi2, chi2_new)", "_accept_metropolis(chi2, chi2_new, 0.1)", "acceptance overridden at the call site")
add("C09", "B", B, "_accept_metropolis(chi2, chi2_new)", "_accept_metropolis(chi2_new, chi2)", "energies swapped")
add("C09", "B", B, "condition = factor >= 1", "condition = factor > 1", "equal energy not always accepted")
add("C09", "B", B, "acceptance: float = 0.01", "acceptance: float = 0.1", "acceptance constant changed")
add("C09", "B", B, "        counter += 1\n\n    print", "        counter += 1\n        mol2_positions = test\n\n    print", "held rebound outside the accept branch")
add("C09", "P", B, "while counter < n_steps:", "while n_steps > counter:", "loop test flipped")
add("C09", "P", B, "                counter = 0\n                continue\n        counter += 1", "                counter = 0\n            else:\n                counter += 1\n        else:\n            counter += 1", "increment in else branches")

# ----------------------------------------------------------------------------- C10
add("C10", "B", AL, "            restrictions = [i[::-1] for i in restrictions]\n", "", "swap dropped")
add("C10", "B", AL, "            molecules = [self.start, self.end]\n        if len(self.end) == 1:", "            molecules = [self.start, self.end]\n            restrictions = [i[::-1] for i in restrictions]\n        if len(self.end) == 1:", "swap in both branches")
add("C10", "B", AL, "            new_restrictions.append((index_1map[index_1], index_2))", "            new_restrictions.append((index_1, index_1map[index_2]))", "wrong component re-indexed")
add("C10", "B", AL, "        offset1 += len(mol_res1)\n        offset2 += len(mol_res2)", "        offset1 += len(mol_res2)\n        offset2 += len(mol_res1)", "offsets crossed")
add("C10", "B", AL, "    if len(mol1.resnames) != len(mol2.resnames):", "    if False:", "residue-count refusal removed")
add("C10", "B", AL, "(i+1)*length // wanted_parts]", "i*length // wanted_parts + 1]", "group end bound wrong")
add("C10", "B", M, "            defor = deformation_types[name]", "            defor = deformation_types[list(deformation_types)[0]]", "option routed by another key")
add("C10", "B", M, "mols_corr[name].align_molecules(restr, defor, ignor)", "mols_corr[name].align_molecules(restr, ignor, defor)", "options in the wrong positional order")
add("C10", "B", B, "        positions = py_minimize_molecules(mol1_positions, mol2_positions,", "        positions = py_minimize_molecules(mol2_positions, mol1_positions,", "engines get different argument orders")
add("C10", "B", AL, "remove_hydrogens(molecules[0],", "remove_hydrogens(molecules[1],", "hydrogen filter on the mobile molecule")
add("C10", "B", M, "        deformation_types = self._parse_deformations(deformation_types)\n        ignore_hydrogens", "        ignore_hydrogens", "validation skipped")
add("C10", "P", AL, "restrictions = [i[::-1] for i in restrictions]", "restrictions = [(i[1], i[0]) for i in restrictions]", "reversal written with indices")
add("C10", "P", AL, "restrictions = [i[::-1] for i in restrictions]", "restrictions = [(b, a) for a, b in restrictions]", "reversal written with unpacking")

# ----------------------------------------------------------------------------- C11
add("C11", "B", S, "        self._molecules_ordered.sort(key=lambda x: x[1])\n", "", "sort dropped")
add("C11", "B", S, "                else:\n                    self._molecules_ordered[-1][2] += 1", "                else:\n                    pass", "consumed without being recorded")
add("C11", "B", S, "                av_gro[start_index:start_index+l_index_mol] = -1\n", "", "recorded without being consumed")
add("C11", "B", S, "                start_index += l_index_mol", "                start_index += 1", "advance by one after a match")
add("C11", "B", S, "                residues = self.system_gro[gro_start:gro_end]\n                mol = self.different_molecules[itp_index].copy(residues)\n                return mol", "                mol = self.different_molecules[itp_index].copy()\n                return mol", "accessor returns the template's coordinates")
add("C11", "B", S, "        # Try to init the molecule\n        residues", "        self._molecules_ordered.append([len(self.different_molecules), start_index, 0])\n        residues", "state written before validation")
add("C11", "B", C, "            if atom.resname != at_top.resname or atom.name != at_top.name:\n                return False\n            index += 1", "            if atom.name != at_top.name:\n                return False\n            index += 1", "residue name not compared")
add("C11", "B", S, "yield (index, gro_start+i*len_mol, gro_start+(i+1)*len_mol)", "yield (index, gro_start+i*len_mol, gro_start+(i+1)*len_mol-1)", "instance window one residue short")
add("C11", "P", S, "        self._molecules_ordered.sort(key=lambda x: x[1])", "        self._molecules_ordered = sorted(self._molecules_ordered, key=lambda b: b[1])", "sort written as sorted()")

# ----------------------------------------------------------------------------- C12
add("C12", "B", S, "            self._open_fgro.seek_atom(start)\n            yield Residue(", "            yield Residue(", "seek removed in __iter__")
add("C12", "B", S, "                self._open_fgro.seek_atom(start)\n                return Residue(", "                return Residue(", "seek removed in integer indexing")
add("C12", "B", S, "                    self._open_fgro.seek_atom(start)\n                    molecules.append(", "                    molecules.append(", "seek removed in slicing")
add("C12", "B", S, "            for _ in range(ammount):\n                yield (index, start_atom, len_mol)\n                start_atom += len_mol", "            for _ in range(ammount):\n                yield (index, start_atom, len_mol)\n            start_atom += len_mol", "offset advanced once per kind")
add("C12", "B", S, "            if (atom.resid, atom.resname) == prev_atom_residname:", "            if atom.resname == prev_atom_residname[1]:", "boundary on the name only")
add("C12", "B", S, "            if (atom.resid, atom.resname) == prev_atom_residname:", "            if atom.residname == '{}{}'.format(*prev_atom_residname):", "boundary on the concatenation (D9)")
add("C12", "B", P, "        self._current_atom = index\n        if index > self.natoms:", "        if index > self.natoms:", "record counter not set by seek_atom")
add("C12", "P", S, "            if (atom.resid, atom.resname) == prev_atom_residname:", "            if atom.resid == prev_atom_residname[0] and atom.resname == prev_atom_residname[1]:", "tuple compare written as two comparisons")

# ----------------------------------------------------------------------------- C13
add("C13", "B", P, '            "{:5d}",\n            "{:5s}",', '            "{:6d}",\n            "{:5s}",', "writer column widened")
add("C13", "B", P, "atomline[5:10].strip(),", "atomline[5:11].strip(),", "reader slice off by one")
add("C13", "B", P, "            self._format[\"position\"] = self.DEFAULT_POSTION_FORMAT\n        self._format[\"velocities\"] = len(atomlist) == 10", "            self._format[\"position\"] = self.DEFAULT_POSTION_FORMAT\n            self._format[\"velocities\"] = len(atomlist) == 10", "velocities key left conditional (D4)")
add("C13", "B", P, "atominfo[0] = atomlist[0] % 100000", "atominfo[0] = atomlist[0] % 99999 + int(atomlist[0] > 99999)", "wrap modulo 99999 (D3)")
add("C13", "B", P, "atominfo[3] = atomlist[3] % 100000\n", "", "atom number not wrapped")
add("C13", "B", P, "    vectors = vectors.ravel()\n    index = (0, 4, 8, 1, 2, 3, 5, 6, 7)", "    vectors = vectors.ravel()\n    index = (0, 4, 8, 1, 2, 3, 6, 5, 7)", "box tables differ")
add("C13", "B", P, "self._file.seek(self._init_position-1-self.NUMBER_FIGURES)", "self._file.seek(self._init_position-self.NUMBER_FIGURES)", "back-fill seek off by one")
add("C13", "B", P, 'float_format_dict["velocities"] = float_format_dict["decimals"]+1', 'float_format_dict["velocities"] = float_format_dict["decimals"]', "velocity precision not decimals+1")
add("C13", "P", P, "atominfo[0] = atomlist[0] % 100000", "atominfo[0] = atomlist[0] if atomlist[0] < 100000 else atomlist[0] % 100000", "wrap written with a conditional")
add("C13", "P", P, '            "{:>5s}",\n            "{:5d}",', '            "{:>5s}",\n            "{:>5d}",', "explicit right alignment")

# ----------------------------------------------------------------------------- C14
add("C14", "B", P, 'self._file.write(" "*self.NUMBER_FIGURES+"\\n")', 'self._file.write("0"*self.NUMBER_FIGURES+"\\n")', "numeric placeholder")
add("C14", "B", P, "        if not line:\n            error_text", "        if False:\n            error_text", "missing box line tolerated")
add("C14", "B", P, "        except ValueError:\n            raise IOError((\"Second line", "        except ValueError:\n            self._natoms = 0\n        if False:\n            raise IOError((\"Second line", "count parse error swallowed")
add("C14", "B", P, "        self._init_position = self._file.tell()\n        self.writeline(atomlist)", "        self._init_position = self._file.tell()\n        self._file.write(dump_lattice_gro(self._box_matrix))\n        self.writeline(atomlist)", "box written at set-up")
add("C14", "B", P, "        if not self._comment:\n            raise IOError(\"First line of a gro line must not be empty\")", "        if not self._comment:\n            self._comment = ''", "empty file accepted")
add("C14", "B", P, "        return self.parse_atomline(info, self._format)", "        return self.parse_atomline(info)", "records re-guessed line by line")
add("C14", "P", P, 'raise IOError("First line of a gro line must not be empty")', 'raise IOError("empty .gro file")', "error text changed")

# ----------------------------------------------------------------------------- C15
add("C15", "B", TP, "bonds.append((atoms_number[bond[0]], atoms_number[bond[1]]))", "bonds.append((atoms_number[bond[0]], bond[1] - 1))", "endpoint not translated")
add("C15", "B", T, "        self.bonds.add(hash(atom))\n        atom.bonds.add(hash(self))", "        self.bonds.add(hash(atom))", "one-directional connect")
add("C15", "B", T, "        atom.bonds = self.bonds.copy()", "        atom.bonds = self.bonds", "copy shares the bond set")
add("C15", "B", TP, "for key in ('constraints', 'bonds', 'pairs'):", "for key in ('constraints', 'bonds'):", "pairs section not gathered")
add("C15", "B", CI, "     pending = [index]\n     while pending:\n         current = pending.pop()\n         for new_index in atoms[current].bonds:\n             if new_index in connected:\n                 continue\n             connected.append(new_index)\n             pending.append(new_index)",
    "     for new_index in atoms[index].bonds:\n         if new_index in connected:\n             continue\n         _find_connected_atoms(atoms, new_index, connected)", "recursive walk (D6)")
add("C15", "B", I, "                if sec not in self:\n                    self[sec] = ItpSection(sec, [])", "                self[sec] = ItpSection(sec, [])", "repeated section replaces the first (D7)")
add("C15", "B", TP, "            atoms_number[atom_line.number] = index\n            index += 1", "            index += 1\n            atoms_number[atom_line.number] = index", "positions become 1-based")
add("C15", "P", CI, "     pending = [index]\n     while pending:\n         current = pending.pop()", "     from collections import deque\n     pending = deque([index])\n     while pending:\n         current = pending.popleft()", "stack replaced by a queue")

# ----------------------------------------------------------------------------- C16
add("C16", "B", I, "                if sec not in self:\n                    self[sec] = ItpSection(sec, [])", "                self[sec] = ItpSection(sec, [])", "unconditional overwrite (D7)")
add("C16", "B", I, "        if parse.content:\n            super(ItpSection, self).append(parse)\n        self._lines.append(parse)", "        if parse.content:\n            super(ItpSection, self).append(parse)\n            self._lines.append(parse)", "comment lines not recorded")
add("C16", "B", I, "        msg += ''.join((str(line) for line in self._lines))", "        msg += ''.join((str(line) for line in self))", "section serialised from the content view")
add("C16", "B", I, "            if header == 'header':\n                for line in section:\n                    fopen.write(line)\n            else:", "            if header == 'header':\n                continue\n            else:", "header lines not written")
add("C16", "B", I, "        if self._comment:\n            if not self.content and self._comment.startswith('#'):", "        if self.comment:\n            if self.comment.startswith('#'):", "stripped comment tested (D8)")
add("C16", "P", I, "                if sec not in self:\n                    self[sec] = ItpSection(sec, [])", "                self.setdefault(sec, ItpSection(sec, []))", "guard written as setdefault")

# ----------------------------------------------------------------------------- C17
add("C17", "B", A, "[-norm_ax[2], 0, norm_ax[0]]", "[norm_ax[2], 0, norm_ax[0]]", "skew sign flipped")
add("C17", "B", A, "np.cos(theta) * (eye - ddt) + np.sin(theta) * skew", "np.sin(theta) * (eye - ddt) + np.cos(theta) * skew", "cos and sin swapped")
add("C17", "B", A, "np.cos(theta) * (eye - ddt)", "np.cos(theta) * eye", "eye - ddt replaced by eye")
add("C17", "B", A, "[0, norm_ax[2], -norm_ax[1]]", "[0, axis[2], -norm_ax[1]]", "raw axis in the generator")
add("C17", "B", A, "mtx = ddt + ", "mtx = 2 * ddt + ", "axis term doubled")
add("C17", "B", A, "vec2 = np.cross(vec3, vec1)", "vec2 = np.cross(vec1, vec3)", "left-handed frame")
add("C17", "B", A, "return (vec1, vec2, vec3), pos0", "return (vec1, vec2, vec3), pos1", "origin is the second point")
add("C17", "B", A, "    vec3 /= np.linalg.norm(vec3)\n", "", "normalisation dropped")
add("C17", "B", A, "vec1 = pos2-pos0", "vec1 = pos2\n    vec1 -= pos0", "in-place on an input row")
add("C17", "B", A, "        vec3 = np.cross(vec1, axis)\n", "        v10, v11, _ = vec1\n        vec3 = np.array([v11, -v10, 0]) / (v10**2+v11**2)\n        return (vec1, np.cross(vec3, vec1), vec3), pos0\n", "collinear fallback mis-normalised (D1)")
add("C17", "P", A, "norm_ax = axis / np.linalg.norm(axis)", "norm_ax = axis / np.sqrt(np.dot(axis, axis))", "other normaliser idiom")
add("C17", "P", A, "mtx = ddt + np.cos(theta) * (eye - ddt) + np.sin(theta) * skew", "mtx = np.sin(theta) * skew + ddt + np.cos(theta) * (eye - ddt)", "summands reordered")

# ----------------------------------------------------------------------------- C18
add("C18", "B", R, "        return AtomGro(input_list)  # type: ignore", "        new = AtomGro(input_list)  # type: ignore\n        new.position = self.position\n        return new", "AtomGro.copy shares the position array")
add("C18", "B", R, "        return Residue(self.atoms)", "        return Residue(self._atoms_gro)", "Residue.copy shares the atoms")
add("C18", "B", C, "self._residues.append(res.copy())", "self._residues.append(res)", "Molecule keeps the caller's residues")
add("C18", "B", R, "        self.atoms_positions = self.atoms_positions + displacement", "        for atom in self:\n            atom.position += displacement", "in-place move")
add("C18", "B", C, "return Atom(self._molecule_top[index], self._residues[residue_index][atom_index])", "return Atom(self._molecule_top[index], self._residues[residue_index][atom_index].copy())", "indexing returns a copy")
add("C18", "B", R, "new_pos = np.dot(atoms_pos, np.transpose(rotation_matrix)) + com", "new_pos = np.dot(atoms_pos, np.transpose(rotation_matrix)) + self.atoms_positions[0]", "rotation re-centred on another point")
add("C18", "B", R, "displacement = new_position - self.geometric_center", "displacement = self.geometric_center - new_position", "move_to in the wrong direction")
add("C18", "B", AL, "            if molecule == self._end:\n                self._end = molecule.copy()", "            if molecule == self._end:\n                self._end = molecule", "alignment stores the caller's molecule")
add("C18", "B", R, "return [atom.copy() for atom in self._atoms_gro]", "return [atom for atom in self._atoms_gro]", "Residue.atoms returns the stored atoms")
add("C18", "B", C, "    def index(self, atom: 'Atom') -> int:", "    def rotate(self, rotation_matrix):\n        for res in self._residues:\n            res.rotate(rotation_matrix)\n\n    def index(self, atom: 'Atom') -> int:", "per-residue rotation")
add("C18", "P", R, "        input_list += list(self.position)", "        input_list += list(self.position.copy())", "explicit copy of the position")

# ----------------------------------------------------------------------------- C19
add("C19", "B", R, "            vect = vect.dot(inv_box)\n            vect -= np.round(vect)\n            vect = vect.dot(box_vects)", "            vect = vect.dot(inv_box)\n            vect -= np.round(vect)\n            vect = vect.dot(inv_box)", "inverse box twice (D5)")
add("C19", "B", R, "            vect -= np.round(vect)", "            vect -= np.floor(vect)", "floor instead of round")
add("C19", "B", R, "            vect = vect.dot(inv_box)\n            vect -= np.round(vect)", "            vect = inv_box.dot(vect)\n            vect -= np.round(vect)", "left multiplication")
add("C19", "B", R, "            if inv:\n                inv_box = box_vects\n                box_vects = np.linalg.inv(inv_box)\n            else:\n                inv_box = np.linalg.inv(box_vects)", "            inv_box = np.linalg.inv(box_vects)", "inverse flag ignored")
add("C19", "P", R, "            vect -= np.round(vect)", "            vect -= np.rint(vect)", "rint instead of round")
add("C19", "P", R, "            vect -= np.round(vect)", "            vect = vect - np.floor(vect + 0.5)", "floor(x + 0.5)")

# ----------------------------------------------------------------------------- C20
add("C20", "B", CLI, "for i in sorted(topology_files)]", "for i in topology_files]", "raw set iteration (D10)")
add("C20", "B", CLI, "for coordinate_file in sorted(coordinate_files):", "for coordinate_file in coordinate_files:", "raw set iteration (D10)")
add("C20", "B", CLI, 'if "coor_AA" not in molecule_info and "top_AA" in molecule_info:', 'if "coor_AA" not in molecule_info:', "optional key unguarded (D11)")
add("C20", "B", CLI, "                if (args.exclude is not None) and (molecule_name in args.exclude):\n                    print(f\"Excluding automatically found molecule {molecule_name}\")\n                    continue\n", "", "exclusion dropped")
add("C20", "B", CLI, "    manager.calculate_exchange_maps(scale_factor=scale)", "    manager.calculate_exchange_maps()", "scale not forwarded")
add("C20", "B", CLI, '                new_mol = [molecule_info[molecule_name]["top_CG"],\n                           molecule_info[molecule_name]["coor_AA"],\n                           molecule_info[molecule_name]["top_AA"]]', '                new_mol = [molecule_info[molecule_name]["top_CG"],\n                           molecule_info[molecule_name]["top_AA"],\n                           molecule_info[molecule_name]["coor_AA"]]', "triple order changed at one site")
add("C20", "B", CLI, '        out_path = os.path.join(folder, f"mapped_{basename}")', '        out_path = f"mapped_{basename}"', "default output not beside the input")
add("C20", "B", CLI, "        if molecule_files[2] in topology_files:\n            topology_files.remove(molecule_files[2])\n", "", "explicit end topology still scanned")
add("C20", "P", CLI, "    topology_molecues = [(i, MoleculeTop(i)) for i in sorted(topology_files)]", "    ordered_tops = sorted(topology_files)\n    topology_molecues = [(i, MoleculeTop(i)) for i in ordered_tops]", "sorted list materialised earlier")


# ----------------------------------------------------------------------------- rules added after the seeded rounds
_PULL = """        diferencia = atoms_pos[ind1] - atoms_pos[ind2]
        modulo = np.linalg.norm(diferencia)
        unit = diferencia/modulo
        atoms_pos[ind2] = atoms_pos[ind2] + (modulo - bond) * unit
"""
_HELPER = """def _restore_bond(anchor, atom, bond):
    diferencia = anchor - atom
    modulo = np.linalg.norm(diferencia)
%s    return atom + (modulo - bond) * diferencia / modulo


def find_atom_random_displ("""
for p in ("C07", "C06"):
    add(p, "P", TM, _PULL, "        atoms_pos[ind2] = _restore_bond(atoms_pos[ind1], atoms_pos[ind2], bond)\n",
        "pull moved into a module-level helper (same arithmetic)", more=[(TM, "def find_atom_random_displ(", _HELPER % "")])
    add(p, "B", TM, _PULL, "        atoms_pos[ind2] = _restore_bond(atoms_pos[ind1], atoms_pos[ind2], bond)\n",
        "helper leaves the atom where it is when the bond is np.isclose to the table",
        more=[(TM, "def find_atom_random_displ(", _HELPER % "    if np.isclose(modulo, bond):\n        return atom\n")])
for p in ("C01", "C02", "C03"):
    add(p, "B", E, "        new_mol = self._targetmolecule.copy()\n        for atom in new_mol:",
        "        new_mol = self._targetmolecule.copy()\n        scratch = np.empty((len(new_mol), 3), dtype=np.float32)\n        for atom in new_mol:",
        "a float32 buffer on the restoration path")
add("C08", "B", B, "        return self._meth_to_call(mol2)", "        return self._meth_to_call(np.asarray(mol2, dtype=self._mol1_positions.dtype))",
    "evaluated configuration cast to the fixed array's dtype")
add("C08", "P", B, "        return self._meth_to_call(mol2)", "        return self._meth_to_call(np.asarray(mol2, dtype=np.float64))",
    "evaluated configuration converted to float64")
for p in ("C13", "C05"):
    add(p, "B", P, "            if value[-1] == '\\n':\n                value = value[:-1]\n            self._comment = value",
        "            self._comment = value.strip()", "title stripped of leading/trailing blanks")
    add(p, "P", P, "            if value[-1] == '\\n':\n                value = value[:-1]\n            self._comment = value",
        "            self._comment = value.rstrip('\\n')", "title less its newline via rstrip('\\n')")
add("C02", "B", E, "        vectores = np.array(self._refsystems[atomref][0])\n        return center + np.dot(proyection, vectores)",
    "        if atomref not in self._equivalences_m:\n            self._equivalences_m[atomref] = np.array(self._refsystems[atomref][0])\n        return center + np.dot(proyection, self._equivalences_m[atomref])",
    "basis matrices cached per anchor and never invalidated",
    more=[(E, "        self._equivalences: Dict[int, int] = {}", "        self._equivalences: Dict[int, int] = {}\n        self._equivalences_m = {}")])
add("C20", "B", CLI, "for i in sorted(topology_files)]", "for i in sorted(topology_files, key=len)]", "candidates sorted by a non-injective key")
add("C20", "P", CLI, "for i in sorted(topology_files)]", "for i in sorted(topology_files, key=lambda x: (len(x), x))]", "candidates sorted by (len, name)")
add("C17", "B", A, "np.sin(theta) * skew", "np.sqrt(1 - np.cos(theta) ** 2) * skew", "sin replaced by sqrt(1 - cos^2)")
add("C15", "B", TP, "    for key in ('constraints', 'bonds', 'pairs'):", "    keys = ['constraints', 'bonds']\n    if not condition_bonds:\n        keys.append('pairs')\n    for key in keys:",
    "pairs gathered only when there is no bonds section")
add("C15", "P", TP, "    for key in ('constraints', 'bonds', 'pairs'):", "    keys = ['constraints', 'bonds']\n    keys.append('pairs')\n    for key in keys:",
    "key list built in a local")
add("C01", "B", E, "        if n_atoms in [1, 2]:", "        if n_atoms <= 3:", "three-atom references take the single-frame branch")
add("C01", "P", E, "        if n_atoms in [1, 2]:", "        if n_atoms < 3:", "size test written n < 3")
add("C05", "B", S, "                new_block = True\n                start_index += 1", "                new_block = True\n                start_index += l_index_mol",
    "scanner jumps over the discarded window")

# ----------------------------------------------------------------------------- rules added in round 3 (DESIGN 10.15)
add("C07", "B", TM, "    n_atoms = len(atoms_pos)\n", "    n_atoms = len(atoms_pos)\n    if id(bonds_info) not in _SIZES:\n        _SIZES[id(bonds_info)] = len(bonds_info)\n    n_atoms = max(n_atoms, _SIZES[id(bonds_info)])\n",
    "a table kept between calls, keyed by the identity of the bond table", more=[(TM, "def move_mol_atom(", "_SIZES: dict = {}\n\n\ndef move_mol_atom(")])
add("C07", "P", TM, "    n_atoms = len(atoms_pos)\n", "    n_atoms = len(atoms_pos)\n    if n_atoms not in _RANGES:\n        _RANGES[n_atoms] = tuple(range(n_atoms))\n",
    "a memo keyed by the value everything in it is computed from", more=[(TM, "def move_mol_atom(", "_RANGES: dict = {}\n\n\ndef move_mol_atom(")])
add("C07", "P", TM, "    n_atoms = len(atoms_pos)\n", "    n_atoms = len(atoms_pos)\n    _CALLS.append(n_atoms)\n",
    "a write-only log list at module level", more=[(TM, "def move_mol_atom(", "_CALLS: list = []\n\n\ndef move_mol_atom(")])
add("C11", "B", S, "        for index, gro_start, ammount in self._molecules_ordered:\n            len_mol = len(self.different_molecules[index].resnames)\n            for i in range(ammount):\n                yield (index, gro_start+i*len_mol, gro_start+(i+1)*len_mol)",
    "        if not getattr(self, '_all_cache', None):\n            self._all_cache = []\n            for index, gro_start, ammount in self._molecules_ordered:\n                len_mol = len(self.different_molecules[index].resnames)\n                for i in range(ammount):\n                    self._all_cache.append((index, gro_start+i*len_mol, gro_start+(i+1)*len_mol))\n        for item in self._all_cache:\n            yield item",
    "instance list remembered on the System and never reset")
add("C12", "B", P, "        return self.readline()  #type: ignore\n", "        return self.readline()  #type: ignore\n\n    def __iter__(self):\n        for line in self._file:\n            yield self.parse_atomline(line, self._format)\n",
    "public iteration reads the file without advancing the record counter")
add("C14", "B", P, "            self._file = open(path, mode) # type: ignore", "            self._file = open(path, mode, opener=lambda p_, fl_: os.open(p_, fl_ & ~os.O_TRUNC, 0o666)) # type: ignore",
    "write mode no longer truncates at open time")
add("C14", "P", P, "            self._file = open(path, mode) # type: ignore", "            self._file = open(path, mode=mode) # type: ignore", "mode passed by keyword")
add("C17", "B", A, "    if not np.any(vec3):", "    if np.linalg.norm(vec3) < 1e-8:", "collinearity decided with a tolerance")
add("C17", "B", A, "        axis[np.argmin(np.abs(vec1))] = 1", "        axis[np.argmin(np.abs(pos1-pos0))] = 1", "lab axis chosen from another vector (zero for coincident points)")
add("C18", "B", C, "        return Molecule(self._molecule_top.copy(), new_residues)", "        if new_residues is not self._residues:\n            return self.copy(new_residues)\n        return Molecule(self._molecule_top.copy(), new_residues)",
    "deep copy with replacement residues shares the topology")
add("C18", "P", C, "        return Molecule(self._molecule_top.copy(), new_residues)", "        top = self._molecule_top.copy()\n        return Molecule(top, new_residues)", "cloned topology bound to a local first")
add("C20", "B", CLI, "        extension = name.split(\".\")[-1]", "        extension = name.split(\".\", 1)[-1]", "extension = everything after the FIRST dot")
add("C20", "P", CLI, "        extension = name.split(\".\")[-1]", "        extension = name.rsplit(\".\", 1)[-1]", "split written as rsplit")
# canonical forms added in round 3
add("C04", "P", E, "        if not isinstance(refmolecule, Molecule):\n            raise TypeError(\"Argument must be a Molecule\")\n        if self._refmolecule != refmolecule:\n            raise TypeError((\"refmolecule must be:\\n{}\"\n                             \"\").format(self._refmolecule))\n",
    "        error = None\n        if not isinstance(refmolecule, Molecule):\n            error = \"Argument must be a Molecule\"\n        elif self._refmolecule != refmolecule:\n            error = \"refmolecule must be:\\n{}\".format(self._refmolecule)\n        if error is not None:\n            raise TypeError(error)\n",
    "single raise site with an error text chosen first")
add("C18", "P", R, "        for atom in self._atoms_gro:\n            yield atom", "        yield from self._atoms_gro", "loop-and-yield written as yield from")
add("C06", "P", R, "        for atom in self._atoms_gro:\n            yield atom", "        yield from self._atoms_gro", "loop-and-yield written as yield from")
add("C20", "P", CLI, "    if args.mol is None:\n        molecules = []\n    else:\n        molecules = args.mol", "    molecules = args.mol\n    if molecules is None:\n        molecules = []", "default-then-override")
add("C08", "P", B, "        chi2 = np.sum(distances.min(axis=1))\n        n_cg_far = len(mol2) - len(set(distances.argmin(axis=1)))", "        chi2 = np.min(distances, axis=1).sum()\n        n_cg_far = len(mol2) - np.unique(np.argmin(distances, axis=1)).size", "reductions written the other way round")
# ----------------------------------------------------------------------------- rules added with seed batch 8 (DESIGN 10.18)
add("C20", "B", CLI, "    for coordinate_file in sorted(coordinate_files):\n        for molecule_name, molecule_info in added_molecues.items():",
    "    species = iter(added_molecues.items())\n    for coordinate_file in sorted(coordinate_files):\n        for molecule_name, molecule_info in species:",
    "one-shot iterator over the species shared by every candidate file")
add("C20", "P", CLI, "    for coordinate_file in sorted(coordinate_files):\n        for molecule_name, molecule_info in added_molecues.items():",
    "    species = list(added_molecues.items())\n    for coordinate_file in sorted(coordinate_files):\n        for molecule_name, molecule_info in species:",
    "species materialised once as a list and reused")
add("C06", "B", B, "        if _accept_metropolis(chi2, chi2_new):",
    "        if not (chi2_new > chi2 and np.random.rand() > 0.01*chi2/chi2_new):",
    "acceptance written out in negative form: a NaN energy is accepted")
# ----------------------------------------------------------------------------- R1.5 explicit-loop form (DESIGN 10.19)
_SEARCH_OLD = "        distances = [(euclidean(targetatom.position, ref_pos(index)), index)\n                     for index in self._refsystems]\n"
_SEARCH_LOOP = ("        distances = []\n        for index in self._refsystems:\n            dist = euclidean(targetatom.position, ref_pos(index))\n"
                "            if dist < %s:\n                return index\n            distances.append((dist, index))\n")
_RADIUS_INIT = (E, "        self._target_coordinates: Dict[int, np.ndarray] = {}\n", "        self._target_coordinates: Dict[int, np.ndarray] = {}\n        self._capture_radius = 0.\n")
add("C01", "B", E, _SEARCH_OLD, _SEARCH_LOOP % "self._capture_radius",
    "early exit inside a capture radius accumulated from each anchor's own frame (bonded pairs only)",
    more=[_RADIUS_INIT,
          (E, "                self._refsystems[hash(atom)] = coord_syst\n",
           "                self._refsystems[hash(atom)] = coord_syst\n                self._capture_radius = min(self._capture_radius or np.inf, euclidean(positions[0], positions[1]) / 2)\n")])
add("C01", "B", E, _SEARCH_OLD, _SEARCH_LOOP % "0.05", "early exit inside a fixed capture length")
add("C01", "P", E, _SEARCH_OLD, _SEARCH_LOOP % "0.", "early exit that is never taken (threshold 0)")
add("C01", "P", E, _SEARCH_OLD, _SEARCH_LOOP % "self._capture_radius",
    "early exit inside half the smallest separation over ALL anchor pairs",
    more=[_RADIUS_INIT,
          (E, "    def _make_map(self):\n",
           "    def _set_capture_radius(self):\n        pts = [self._refmolecule[i].position for i in self._refsystems]\n"
           "        self._capture_radius = min([euclidean(a, b) for k, a in enumerate(pts) for b in pts[k + 1:]], default=0.) / 2\n\n    def _make_map(self):\n")])
