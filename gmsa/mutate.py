"""Scratch-copy variants of the package for testing the checker both ways.

A variant is a list of (relative file, old text, new text) replacements applied to a copy of
/repo/gaddlemaps under $TMPDIR (never under /repo or /verif); the copy is only *analysed*
(parsed), never imported or executed, and is removed afterwards.
"""
from __future__ import annotations

import ast
import contextlib
import io
import os
import shutil
import tempfile
from typing import Dict, List, Optional, Tuple

from .core import AnalysisError, repo_root


class VariantError(Exception):
    pass


@contextlib.contextmanager
def variant_tree(edits: List[Tuple[str, str, str]], base: Optional[str] = None):
    base = base or repo_root()
    tmp = tempfile.mkdtemp(prefix="gmsa-")
    try:
        dst = os.path.join(tmp, "gaddlemaps")
        shutil.copytree(os.path.join(base, "gaddlemaps"), dst,
                        ignore=shutil.ignore_patterns("__pycache__", "data", "*.pyc"))
        for rel, old, new in edits:
            p = os.path.join(tmp, rel)
            with open(p, encoding="utf-8") as fh:
                src = fh.read()
            if src.count(old) < 1:
                raise VariantError("anchor text not found in %s: %r" % (rel, old[:60]))
            src = src.replace(old, new, 1)
            try:
                ast.parse(src)
            except SyntaxError as exc:
                raise VariantError("variant does not parse: %s" % exc)
            with open(p, "w", encoding="utf-8") as fh:
                fh.write(src)
        yield tmp
    finally:
        shutil.rmtree(tmp, ignore_errors=True)


def analyse_variant(prop: str, edits, tier: str = "quick", base: Optional[str] = None):
    """Returns (exit code, [failed obligations as dicts], stdout text)."""
    from .__main__ import run_property
    from .props import frames
    buf = io.StringIO()
    with variant_tree(edits, base) as root:
        frames._cache.clear()
        with contextlib.redirect_stdout(buf):
            try:
                code, ctx = run_property(prop, tier, root=root, write=False)
                failed = [{"rule": o.rule, "function": o.function, "construct": o.construct, "what": o.what}
                          for o in ctx.obligations if not o.ok and not o.undecided]
                if code == 2:
                    failed.append({"rule": "ANALYSIS-ERROR", "function": "", "construct": "", "what": "; ".join(ctx.floor_failures)})
            except AnalysisError as exc:
                code, failed = 2, [{"rule": "ANALYSIS-ERROR", "function": "", "construct": "", "what": str(exc)}]
    return code, failed, buf.getvalue()
