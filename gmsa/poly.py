"""Tiny exact polynomial arithmetic over named symbols (Fraction coefficients).

Used for closed-form normalisation only (column layouts, squared norms of
literal vectors, the pull length in move_mol_atom) - what a compiler's
constant folder / algebraic simplifier does.  Rational functions are kept as
(numerator, denominator) pairs of polynomials.
"""
from __future__ import annotations

import ast
from fractions import Fraction
from typing import Callable, Dict, Optional, Tuple

Mono = Tuple[Tuple[str, int], ...]


class Poly:
    __slots__ = ("t",)

    def __init__(self, terms: Optional[Dict[Mono, Fraction]] = None):
        self.t: Dict[Mono, Fraction] = {m: Fraction(c) for m, c in (terms or {}).items() if c != 0}

    @staticmethod
    def const(c) -> "Poly":
        return Poly({(): Fraction(c)})

    @staticmethod
    def sym(name: str) -> "Poly":
        return Poly({((name, 1),): Fraction(1)})

    def __add__(self, o):
        o = _p(o)
        d = dict(self.t)
        for m, c in o.t.items():
            d[m] = d.get(m, Fraction(0)) + c
        return Poly(d)

    __radd__ = __add__

    def __neg__(self):
        return Poly({m: -c for m, c in self.t.items()})

    def __sub__(self, o):
        return self + (-_p(o))

    def __rsub__(self, o):
        return _p(o) - self

    def __mul__(self, o):
        o = _p(o)
        d: Dict[Mono, Fraction] = {}
        for m1, c1 in self.t.items():
            for m2, c2 in o.t.items():
                mm: Dict[str, int] = dict(m1)
                for s, e in m2:
                    mm[s] = mm.get(s, 0) + e
                key = tuple(sorted((s, e) for s, e in mm.items() if e))
                d[key] = d.get(key, Fraction(0)) + c1 * c2
        return Poly(d)

    __rmul__ = __mul__

    def __pow__(self, n: int):
        r = Poly.const(1)
        for _ in range(n):
            r = r * self
        return r

    def __eq__(self, o):
        return (self - _p(o)).t == {}

    def __hash__(self):
        return hash(tuple(sorted(self.t.items())))

    def is_zero(self) -> bool:
        return not self.t

    def is_const(self) -> bool:
        return all(m == () for m in self.t)

    def const_value(self) -> Optional[Fraction]:
        if self.is_const():
            return self.t.get((), Fraction(0))
        return None

    def symbols(self):
        return {s for m in self.t for s, _ in m}

    def subst(self, env: Dict[str, "Poly"]) -> "Poly":
        out = Poly()
        for m, c in self.t.items():
            term = Poly.const(c)
            for s, e in m:
                term = term * ((env[s] if s in env else Poly.sym(s)) ** e)
            out = out + term
        return out

    def __repr__(self):
        if not self.t:
            return "0"
        bits = []
        for m, c in sorted(self.t.items()):
            mono = "*".join(s if e == 1 else "%s^%d" % (s, e) for s, e in m)
            if not mono:
                bits.append(str(c))
            elif c == 1:
                bits.append(mono)
            elif c == -1:
                bits.append("-" + mono)
            else:
                bits.append("%s*%s" % (c, mono))
        return " + ".join(bits).replace("+ -", "- ")


def _p(x) -> Poly:
    return x if isinstance(x, Poly) else Poly.const(x)


class Rat:
    """Rational function num/den."""
    __slots__ = ("n", "d")

    def __init__(self, n, d=None):
        self.n = _p(n)
        self.d = _p(1) if d is None else _p(d)

    def __add__(self, o):
        o = _r(o)
        return Rat(self.n * o.d + o.n * self.d, self.d * o.d)

    __radd__ = __add__

    def __neg__(self):
        return Rat(-self.n, self.d)

    def __sub__(self, o):
        return self + (-_r(o))

    def __rsub__(self, o):
        return _r(o) - self

    def __mul__(self, o):
        o = _r(o)
        return Rat(self.n * o.n, self.d * o.d)

    __rmul__ = __mul__

    def __truediv__(self, o):
        o = _r(o)
        return Rat(self.n * o.d, self.d * o.n)

    def __pow__(self, k: int):
        return Rat(self.n ** k, self.d ** k)

    def equals(self, o) -> bool:
        o = _r(o)
        return (self.n * o.d - o.n * self.d).is_zero()

    def is_zero(self):
        return self.n.is_zero()

    def __repr__(self):
        if self.d == Poly.const(1):
            return repr(self.n)
        return "(%r)/(%r)" % (self.n, self.d)


def _r(x) -> Rat:
    return x if isinstance(x, Rat) else Rat(x)


def poly_of(node: ast.AST, leaf: Callable[[ast.AST], Optional[Poly]]) -> Optional[Poly]:
    """Polynomial of an arithmetic expression; ``leaf`` maps atoms to polynomials
    (return None for 'not an atom I know').  Division only by constants."""
    v = leaf(node)
    if v is not None:
        return v
    if isinstance(node, ast.Constant) and isinstance(node.value, (int, float)) \
            and not isinstance(node.value, bool):
        return Poly.const(Fraction(node.value).limit_denominator(10 ** 9)
                          if isinstance(node.value, float) else node.value)
    if isinstance(node, ast.Constant) and isinstance(node.value, bool):
        return Poly.const(int(node.value))
    if isinstance(node, ast.UnaryOp) and isinstance(node.op, (ast.USub, ast.UAdd)):
        a = poly_of(node.operand, leaf)
        if a is None:
            return None
        return -a if isinstance(node.op, ast.USub) else a
    if isinstance(node, ast.BinOp):
        a, b = poly_of(node.left, leaf), poly_of(node.right, leaf)
        if a is None or b is None:
            return None
        if isinstance(node.op, ast.Add):
            return a + b
        if isinstance(node.op, ast.Sub):
            return a - b
        if isinstance(node.op, ast.Mult):
            return a * b
        if isinstance(node.op, ast.Pow):
            k = b.const_value()
            if k is not None and k.denominator == 1 and 0 <= k <= 8:
                return a ** int(k)
            return None
        if isinstance(node.op, ast.Div):
            k = b.const_value()
            if k:
                return a * Poly.const(1 / k)
            return None
    return None
