"""Load-time inlining of helper functions that do not exist in the reference tree.

The rules of this analyser are anchored in the functions of the pinned tree (their names are the table in
`known_functions.json`, regenerated with `tools/gen_known_functions.py`).  The most common behaviour-preserving edit
is *extract function*: part of an anchored function moves into a new private helper.  To a rule that reads the
anchored function the moved statements are gone.  Rather than teaching every rule about every possible helper, the
loader undoes the extraction: a call to a function that is **not** in the table (a helper introduced after the
reference tree), defined in the same module, whose body can be spliced in without changing what is computed, is
replaced by its body.  Functions of the reference tree are never inlined, so on the reference tree this pass is the
identity.  A helper that cannot be spliced (generator, recursion, `return` inside a loop at a non-tail call site,
*args ...) is left alone; the rules then see the call, exactly as before.

What is spliced is the callee's own statements with parameters replaced by the argument expressions (or bound to
fresh locals when an argument is not a plain name/attribute/constant or the parameter is reassigned), locals renamed
when they clash with the caller's, and `return E` turned into an assignment to the call's result (tail positions
only) - or kept as `return E` when the call is itself the operand of a `return`.
"""
from __future__ import annotations

import ast
import copy
import json
import os
from typing import Dict, List, Optional, Set, Tuple

_HERE = os.path.dirname(os.path.abspath(__file__))


def known_functions() -> Set[str]:
    p = os.path.join(_HERE, "known_functions.json")
    try:
        with open(p) as fh:
            return set(json.load(fh)["functions"])
    except (OSError, ValueError, KeyError):
        return set()


def known_fingerprints() -> Dict[str, dict]:
    p = os.path.join(_HERE, "known_functions.json")
    try:
        with open(p) as fh:
            return json.load(fh).get("fingerprints", {})
    except (OSError, ValueError):
        return {}


def digest(fn: ast.AST) -> str:
    """hash of a function's syntax tree as written (docstring dropped): equal iff the code is the same token for token"""
    import copy, hashlib
    f2 = copy.deepcopy(fn)
    if f2.body and isinstance(f2.body[0], ast.Expr) and isinstance(f2.body[0].value, ast.Constant) and isinstance(f2.body[0].value.value, str):
        f2.body = f2.body[1:] or [ast.Pass()]
    return hashlib.sha1(ast.dump(f2, annotate_fields=False, include_attributes=False).encode()).hexdigest()[:16]


def known_constants() -> Set[str]:
    p = os.path.join(_HERE, "known_functions.json")
    try:
        with open(p) as fh:
            return set(json.load(fh).get("constants", []))
    except (OSError, ValueError):
        return set()


def known_backing_reads() -> Set[str]:
    p = os.path.join(_HERE, "known_functions.json")
    try:
        with open(p) as fh:
            return set(json.load(fh).get("backing_reads", []))
    except (OSError, ValueError):
        return set()


def known_digests() -> Dict[str, List[str]]:
    p = os.path.join(_HERE, "known_functions.json")
    try:
        with open(p) as fh:
            return json.load(fh).get("digests", {})
    except (OSError, ValueError):
        return {}


def changed_functions(trees: Dict[str, ast.Module]) -> Set[str]:
    """functions (module:qualname) of the tree being analysed that are not, token for token, functions of the reference
    tree - edited, new or removed.  Empty on the reference tree itself."""
    ref = known_digests()
    if not ref:
        return set()
    cur: Dict[str, List[str]] = {}
    for mod, tree in trees.items():
        for st in tree.body:
            if isinstance(st, (ast.FunctionDef, ast.AsyncFunctionDef)):
                cur.setdefault("%s:%s" % (mod, st.name), []).append(digest(st))
            elif isinstance(st, ast.ClassDef):
                for s2 in st.body:
                    if isinstance(s2, (ast.FunctionDef, ast.AsyncFunctionDef)):
                        cur.setdefault("%s:%s.%s" % (mod, st.name, s2.name), []).append(digest(s2))
    out = set()
    for k in set(ref) | set(cur):
        if sorted(ref.get(k, [])) != sorted(cur.get(k, [])):
            out.add(k)
    return out


def fingerprint(fn: ast.AST) -> dict:
    """what a function is made of, independent of its own name: parameter names and the identifiers it uses"""
    a = fn.args
    params = [x.arg for x in a.posonlyargs + a.args + a.kwonlyargs]
    idents = set()
    for x in ast.walk(fn):
        if isinstance(x, ast.Name):
            idents.add(x.id)
        elif isinstance(x, ast.Attribute):
            idents.add("." + x.attr)
    return {"params": params, "idents": sorted(idents), "decorators": sorted(ast.unparse(d) for d in fn.decorator_list)}


def detect_renames(trees: Dict[str, ast.Module]) -> Dict[str, Dict[str, str]]:
    """{module: {new name: reference name}} for functions/methods of the reference tree that are absent under their
    own name while a function absent from the reference tree, in the same scope, has the same parameter count, the
    same decorators and mostly the same identifiers (Jaccard >= 0.5, best and unambiguous match)."""
    fps = known_fingerprints()
    if not fps:
        return {}
    out: Dict[str, Dict[str, str]] = {}
    for mod, tree in trees.items():
        scopes = [("", tree.body)] + [(c.name + ".", c.body) for c in tree.body if isinstance(c, ast.ClassDef)]
        for prefix, body in scopes:
            defs = [s for s in body if isinstance(s, (ast.FunctionDef, ast.AsyncFunctionDef))]
            have = {d.name for d in defs}
            ref = {k.split(":", 1)[1][len(prefix):]: v for k, v in fps.items()
                   if k.startswith(mod + ":" + prefix) and "." not in k.split(":", 1)[1][len(prefix):]}
            missing = {n: fp for n, fp in ref.items() if n not in have}
            new = [d for d in defs if d.name not in ref]
            if not missing or not new:
                continue
            cands = []
            for d in new:
                fp = fingerprint(d)
                for n, rf in missing.items():
                    if len(fp["params"]) != len(rf["params"]) or fp["decorators"] != rf.get("decorators", []):
                        continue
                    a_, b_ = set(fp["idents"]) - {d.name, "." + d.name}, set(rf["idents"]) - {n, "." + n}
                    j = len(a_ & b_) / max(1, len(a_ | b_))
                    if j >= 0.5:
                        cands.append((j, d.name, n))
            cands.sort(reverse=True)
            used_new, used_old = set(), set()
            for j, nn, on in cands:
                if nn in used_new or on in used_old:
                    continue
                used_new.add(nn)
                used_old.add(on)
                out.setdefault(mod, {})[nn] = on
    return out


class _Rename(ast.NodeTransformer):
    def __init__(self, mapping: Dict[str, str]):
        self.m = mapping

    def visit_FunctionDef(self, node):
        self.generic_visit(node)
        if node.name in self.m:
            node.name = self.m[node.name]
        return node

    def visit_Name(self, node):
        if node.id in self.m:
            node.id = self.m[node.id]
        return node

    def visit_Attribute(self, node):
        self.generic_visit(node)
        if node.attr in self.m:
            node.attr = self.m[node.attr]
        return node

    def visit_alias(self, node):
        if node.name in self.m:
            node.name = self.m[node.name]
        return node


def undo_renames(trees: Dict[str, ast.Module]) -> Dict[str, str]:
    """Functions of the reference tree that were merely renamed get their reference name back, everywhere in the
    package (definition, calls, imports), so that every anchor is found under the name the rules know."""
    ren = detect_renames(trees)
    flat: Dict[str, str] = {}
    defined = {d.name for t in trees.values() for d in ast.walk(t) if isinstance(d, (ast.FunctionDef, ast.AsyncFunctionDef))}
    for mod, mp in ren.items():
        for nn, on in mp.items():
            # the new name must be unambiguous in the package, the reference name free
            if sum(1 for t in trees.values() for d in ast.walk(t) if isinstance(d, (ast.FunctionDef, ast.AsyncFunctionDef)) and d.name == nn) == 1 \
                    and on not in defined and nn not in flat:
                flat[nn] = on
    if flat:
        for t in trees.values():
            _Rename(flat).visit(t)
    return flat


class NotInlinable(Exception):
    pass


def _contains(node: ast.AST, types) -> bool:
    return any(isinstance(x, types) for x in ast.walk(node))


def _has_return(stmt: ast.AST) -> bool:
    for x in ast.walk(stmt):
        if isinstance(x, ast.Return):
            return True
    return False


def _stored_names(fn: ast.AST) -> Set[str]:
    out = set()
    for x in ast.walk(fn):
        if isinstance(x, ast.Name) and isinstance(x.ctx, (ast.Store, ast.Del)):
            out.add(x.id)
        elif isinstance(x, ast.ExceptHandler) and x.name:
            out.add(x.name)
        elif isinstance(x, (ast.Import, ast.ImportFrom)):
            for al in x.names:
                out.add((al.asname or al.name).split(".")[0])
    return out


def _all_names(fn: ast.AST) -> Set[str]:
    out = {x.id for x in ast.walk(fn) if isinstance(x, ast.Name)}
    out |= {x.arg for x in ast.walk(fn) if isinstance(x, ast.arg)}
    return out


def tailify(stmts: List[ast.stmt], res: Optional[str]) -> Tuple[List[ast.stmt], bool]:
    """Rewrite a statement list whose `return`s are all in tail position into one without `return`:
    `return E` -> `<res> = E` (or the bare expression statement when res is None and E has a call).
    Returns (new statements, every path through them ended in return/raise)."""
    out: List[ast.stmt] = []
    for i, s in enumerate(stmts):
        if isinstance(s, ast.Return):
            v = s.value if s.value is not None else ast.Constant(None)
            if res is not None:
                out.append(ast.copy_location(ast.Assign([_target(res)], v), s))
            elif _contains(v, ast.Call):
                out.append(ast.copy_location(ast.Expr(v), s))
            return out, True
        if isinstance(s, ast.Raise):
            out.append(s)
            return out, True
        if isinstance(s, ast.If) and _has_return(s):
            body, bt = tailify(s.body, res)
            orelse, ot = tailify(s.orelse, res) if s.orelse else ([], False)
            rest = stmts[i + 1:]
            new = ast.copy_location(ast.If(s.test, body, orelse), s)
            if bt and ot:
                out.append(new)
                return out, True
            if bt:
                r, rt = tailify(rest, res)
                new.orelse = orelse + r
                if not new.body:
                    new.body = [ast.copy_location(ast.Pass(), s)]
                out.append(new)
                return out, rt
            if ot:
                r, rt = tailify(rest, res)
                new.body = body + r
                if not new.body:
                    new.body = [ast.copy_location(ast.Pass(), s)]
                out.append(new)
                return out, rt
            raise NotInlinable("return on part of a branch that also falls through")
        if isinstance(s, ast.Try) and _has_return(s) and not s.finalbody and not s.orelse:
            # `try: ...; return X  except E: raise/return` in tail position: the value computed in the try body is the
            # result; an exception raised while computing it is handled exactly as before
            body, bt = tailify(s.body, res)
            hs = []
            allt = bt
            for h in s.handlers:
                hb, ht = tailify(h.body, res)
                allt = allt and ht
                hs.append(ast.copy_location(ast.ExceptHandler(h.type, h.name, hb or [ast.copy_location(ast.Pass(), h)]), h))
            if not allt:
                raise NotInlinable("try statement that returns on some paths only")
            out.append(ast.copy_location(ast.Try(body, hs, [], []), s))
            return out, True
        if _has_return(s):
            raise NotInlinable("return inside a loop / try / with")
        out.append(s)
    return out, False


def _target(res) -> ast.AST:
    """assignment target for the call's result: a local name, or a copy of the original (side-effect free) target"""
    if isinstance(res, str):
        return ast.Name(res, ast.Store())
    return copy.deepcopy(res)


def _simple_target(t: ast.AST) -> bool:
    if isinstance(t, ast.Name):
        return True
    if isinstance(t, ast.Attribute):
        return _simple_arg(t.value)
    if isinstance(t, ast.Subscript):
        return _simple_arg(t.value) and all(isinstance(x, (ast.Name, ast.Constant, ast.Attribute, ast.Load, ast.Tuple, ast.UnaryOp, ast.USub, ast.Slice))
                                            or isinstance(x, ast.expr_context) for x in ast.walk(t.slice))
    return False


class _Subst(ast.NodeTransformer):
    def __init__(self, mapping: Dict[str, ast.AST], rename: Dict[str, str]):
        self.mapping = mapping
        self.rename = rename

    def visit_Name(self, node: ast.Name):
        if node.id in self.mapping and isinstance(node.ctx, ast.Load):
            return ast.copy_location(copy.deepcopy(self.mapping[node.id]), node)
        if node.id in self.rename:
            return ast.copy_location(ast.Name(self.rename[node.id], node.ctx), node)
        return node

    def visit_ExceptHandler(self, node):
        self.generic_visit(node)
        if node.name in self.rename:
            node.name = self.rename[node.name]
        return node


_SIMPLE = (ast.Name, ast.Constant)


def _simple_arg(a: ast.AST) -> bool:
    if isinstance(a, _SIMPLE):
        return True
    if isinstance(a, ast.Attribute):
        return _simple_arg(a.value)
    if isinstance(a, ast.UnaryOp) and isinstance(a.operand, ast.Constant):
        return True
    return False


class Helper:
    def __init__(self, node: ast.FunctionDef, cls: Optional[ast.ClassDef]):
        self.node = node
        self.cls = cls
        self.static = any(isinstance(d, ast.Name) and d.id == "staticmethod" for d in node.decorator_list)
        self.is_method = cls is not None and not self.static
        self.ok, self.why = self._check()

    def _check(self):
        n = self.node
        if any(not (isinstance(d, ast.Name) and d.id == "staticmethod") for d in n.decorator_list):
            return False, "decorated"
        if n.args.vararg or n.args.kwarg or n.args.posonlyargs:
            return False, "*args/**kwargs"
        if isinstance(n, ast.AsyncFunctionDef):
            return False, "async"
        self.generator = False
        yields = [x for x in ast.walk(n) if isinstance(x, ast.Yield)]
        if yields:
            stmt_yields = [x for x in ast.walk(n) if isinstance(x, ast.Expr) and isinstance(x.value, ast.Yield)]
            if len(stmt_yields) != len(yields) or any(y.value is None for y in yields) \
                    or any(isinstance(x, ast.Return) and x.value is not None for x in ast.walk(n)):
                return False, "generator with yield expressions"
            self.generator = True
        for x in ast.walk(n):
            if x is n:
                continue
            if isinstance(x, (ast.YieldFrom, ast.Await, ast.Global, ast.Nonlocal, ast.FunctionDef,
                              ast.AsyncFunctionDef, ast.ClassDef, ast.Lambda)):
                return False, type(x).__name__
            if isinstance(x, ast.Call):
                f = x.func
                nm = f.attr if isinstance(f, ast.Attribute) else (f.id if isinstance(f, ast.Name) else None)
                if nm == n.name:
                    return False, "recursive"
                if nm in ("locals", "vars", "globals", "super"):
                    return False, nm
        return True, ""

    @property
    def params(self) -> List[str]:
        p = [a.arg for a in self.node.args.args] + [a.arg for a in self.node.args.kwonlyargs]
        return p

    def defaults(self) -> Dict[str, ast.AST]:
        a = self.node.args
        out = {}
        pos = [x.arg for x in a.args]
        for name, d in zip(pos[len(pos) - len(a.defaults):], a.defaults):
            out[name] = d
        for x, d in zip(a.kwonlyargs, a.kw_defaults):
            if d is not None:
                out[x.arg] = d
        return out

    def body(self) -> List[ast.stmt]:
        b = self.node.body
        if b and isinstance(b[0], ast.Expr) and isinstance(b[0].value, ast.Constant) and isinstance(b[0].value.value, str):
            b = b[1:]
        return b


_PATH_OK = (ast.Call, ast.BinOp, ast.UnaryOp, ast.Subscript, ast.Attribute, ast.Tuple, ast.List, ast.Starred, ast.Compare,
            ast.keyword, ast.Slice, ast.Index if hasattr(ast, "Index") else ast.Slice, ast.Dict, ast.Set, ast.JoinedStr,
            ast.FormattedValue)


def _hoistable_calls(expr: ast.AST):
    """Call nodes reachable from `expr` through strict (always evaluated, once) positions, in evaluation order."""
    out = []

    def rec(n):
        if isinstance(n, ast.UnaryOp) and isinstance(n.op, ast.Not):
            rec(n.operand)
            return
        if not isinstance(n, _PATH_OK):
            return
        for c in ast.iter_child_nodes(n):
            rec(c)
        if isinstance(n, ast.Call):
            out.append(n)
    rec(expr)
    return out


class ModuleInliner:
    def __init__(self, tree: ast.Module, modname: str, known: Set[str]):
        self.tree = tree
        self.modname = modname
        self.known = known
        self.helpers_fn: Dict[str, Helper] = {}                 # module-level
        self.helpers_m: Dict[Tuple[str, str], Helper] = {}      # (class, name)
        self.counter = 0
        self.inlined: List[str] = []
        self.skipped: List[str] = []
        self._collect()

    def _collect(self):
        for st in self.tree.body:
            if isinstance(st, ast.FunctionDef):
                if "%s:%s" % (self.modname, st.name) not in self.known:
                    self.helpers_fn[st.name] = Helper(st, None)
            elif isinstance(st, ast.ClassDef):
                for s2 in st.body:
                    if isinstance(s2, ast.FunctionDef):
                        q = "%s:%s.%s" % (self.modname, st.name, s2.name)
                        decos = [ast.unparse(d) for d in s2.decorator_list]
                        if any(d == "property" or d.endswith(".setter") for d in decos):
                            continue
                        if q not in self.known and not (s2.name.startswith("__") and s2.name.endswith("__")):
                            self.helpers_m[(st.name, s2.name)] = Helper(s2, st)

    # ------------------------------------------------------------------ resolution
    def resolve(self, call: ast.Call, cls: Optional[ast.ClassDef]) -> Optional[Tuple[Helper, Optional[ast.AST]]]:
        f = call.func
        if isinstance(f, ast.Name) and f.id in self.helpers_fn:
            return self.helpers_fn[f.id], None
        if isinstance(f, ast.Attribute) and isinstance(f.value, ast.Name):
            recv = f.value.id
            if cls is not None and recv in ("self", "cls") and (cls.name, f.attr) in self.helpers_m:
                h = self.helpers_m[(cls.name, f.attr)]
                return h, (f.value if h.is_method else None)
            if (recv, f.attr) in self.helpers_m and not self.helpers_m[(recv, f.attr)].is_method:
                return self.helpers_m[(recv, f.attr)], None
        return None

    # ------------------------------------------------------------------ splice
    @staticmethod
    def _dead_after(caller: ast.AST, call: ast.Call, name: str) -> bool:
        pos = (getattr(call, "lineno", 0), getattr(call, "col_offset", 0))
        pm: Dict[int, ast.AST] = {}
        for x in ast.walk(caller):
            for ch in ast.iter_child_nodes(x):
                pm[id(ch)] = x
        cur = call
        while id(cur) in pm:
            cur = pm[id(cur)]
            if isinstance(cur, (ast.For, ast.While, ast.AsyncFor)):
                return False
        for x in ast.walk(caller):
            if isinstance(x, ast.Name) and x.id == name and isinstance(x.ctx, ast.Load) \
                    and (getattr(x, "lineno", 0), getattr(x, "col_offset", 0)) > pos and not any(x is y for y in ast.walk(call)):
                return False
        return True

    def splice(self, h: Helper, recv: Optional[ast.AST], call: ast.Call, caller: ast.FunctionDef, mode: str,
               res: Optional[str]) -> List[ast.stmt]:
        """mode: 'value' (result assigned to `res`), 'stmt' (value dropped), 'return' (returns kept)"""
        if not h.ok:
            raise NotInlinable(h.why)
        if h.generator and mode != "for":
            raise NotInlinable("generator used outside a for statement")
        params = h.params
        bind: Dict[str, ast.AST] = {}
        if h.is_method:
            if recv is None or not params:
                raise NotInlinable("method without receiver")
            bind[params[0]] = recv
            params = params[1:]
        if any(isinstance(a, ast.Starred) for a in call.args) or any(k.arg is None for k in call.keywords):
            raise NotInlinable("star arguments")
        if len(call.args) > len([a for a in h.node.args.args]) - (1 if h.is_method else 0):
            raise NotInlinable("too many positional arguments")
        for p, a in zip(params, call.args):
            bind[p] = a
        for k in call.keywords:
            if k.arg not in params or k.arg in bind:
                raise NotInlinable("keyword does not bind")
            bind[k.arg] = k.value
        dfl = h.defaults()
        for p in params:
            if p not in bind:
                if p not in dfl:
                    raise NotInlinable("missing argument")
                bind[p] = dfl[p]
        body = copy.deepcopy(h.body())
        holder = ast.Module(body=body, type_ignores=[])
        stored = _stored_names(holder)
        caller_names = _all_names(caller)
        prelude: List[ast.stmt] = []
        mapping: Dict[str, ast.AST] = {}
        rename: Dict[str, str] = {}
        self.counter += 1
        tag = "_h%d" % self.counter
        for p, a in bind.items():
            if p not in stored and _simple_arg(a):
                mapping[p] = a
            elif isinstance(a, ast.Name) and a.id == p and self._dead_after(caller, call, p):
                # the caller hands over its own variable of the same name and never reads it again: the helper's
                # rebinding of the parameter can use the caller's name (no copy, no renaming)
                continue
            else:
                nm = p if (p not in caller_names) else p + tag
                if nm != p:
                    rename[p] = nm
                prelude.append(ast.copy_location(ast.Assign([ast.Name(nm, ast.Store())], copy.deepcopy(a)), call))
                caller_names.add(nm)
        for n_ in sorted(stored - set(bind)):
            if n_ in caller_names and n_ != (res if isinstance(res, str) else None):
                rename[n_] = n_ + tag
        holder = _Subst(mapping, rename).visit(holder)
        body = holder.body
        if mode == "for":
            # `for T in helper(...): BODY` with a generator helper: the generator's statements run interleaved with the
            # loop body, every `yield E` hands E to one execution of BODY
            target, loop_body = res
            sel = self

            class Y(ast.NodeTransformer):
                def visit_Expr(self, node):
                    if isinstance(node.value, ast.Yield):
                        asg = ast.copy_location(ast.Assign([copy.deepcopy(target)], node.value.value), node)
                        return [asg] + copy.deepcopy(loop_body)
                    return node

                def visit_Return(self, node):
                    raise NotInlinable("return inside the generator")
            holder2 = Y().visit(ast.Module(body=body, type_ignores=[]))
            out = prelude + holder2.body
        elif mode == "return":
            if not body or not isinstance(body[-1], (ast.Return, ast.Raise)):
                # may fall off the end: the caller then returns None
                body = body + [ast.copy_location(ast.Return(ast.Constant(None)), call)]
            out = prelude + body
        else:
            new, term = tailify(body, res if mode == "value" else None)
            if mode == "value" and not term:
                new = [ast.copy_location(ast.Assign([_target(res)], ast.Constant(None)), call)] + new
            out = prelude + new
        out = [ast.fix_missing_locations(s) for s in out] or [ast.copy_location(ast.Pass(), call)]
        # spliced statements take the position of the call (file:line in a report is then the call site, and rules
        # that order statements by position see them where they are executed); columns keep their relative order
        k = [getattr(call, "col_offset", 0)]
        base_line = getattr(call, "lineno", 0)
        j = [0]

        def place(n):
            if hasattr(n, "lineno") or isinstance(n, (ast.stmt, ast.expr)):
                # line = the call's line plus a fraction that grows in execution order: rules that order statements
                # by line still see the spliced statements in sequence, a report prints the call's line (%d)
                j[0] += 1
                n.lineno = n.end_lineno = base_line + min(j[0], 9999) * 1e-4 if j[0] > 1 else base_line
                n.col_offset = n.end_col_offset = k[0]
                k[0] += 1
            for c in ast.iter_child_nodes(n):
                place(c)
        for s in out:
            place(s)
        return out

    # ------------------------------------------------------------------ rewriting
    def rewrite_function(self, fn: ast.FunctionDef, cls: Optional[ast.ClassDef]) -> bool:
        changed = False

        def fix_block(block: List[ast.stmt]) -> List[ast.stmt]:
            nonlocal changed
            out: List[ast.stmt] = []
            for s in block:
                # nested blocks first
                for fld in ("body", "orelse", "finalbody"):
                    b = getattr(s, fld, None)
                    if isinstance(b, list) and b and isinstance(b[0], ast.stmt) and not isinstance(s, (ast.FunctionDef, ast.ClassDef, ast.AsyncFunctionDef)):
                        setattr(s, fld, fix_block(b))
                if isinstance(s, ast.Try):
                    for hd in s.handlers:
                        hd.body = fix_block(hd.body)
                out.extend(self._inline_stmt(s, fn, cls))
            return out

        before = ast.dump(fn)
        fn.body = fix_block(fn.body)
        changed = ast.dump(fn) != before
        return changed

    def _inline_stmt(self, s: ast.stmt, fn, cls) -> List[ast.stmt]:
        in_ctx = False
        # whole-statement forms first
        try:
            if isinstance(s, ast.Return) and isinstance(s.value, ast.Call):
                r = self.resolve(s.value, cls)
                if r:
                    h, recv = r
                    body = self.splice(h, recv, s.value, fn, "return", None)
                    self.inlined.append(h.node.name)
                    return body
            if isinstance(s, ast.Expr) and isinstance(s.value, ast.Call):
                r = self.resolve(s.value, cls)
                if r:
                    h, recv = r
                    body = self.splice(h, recv, s.value, fn, "stmt", None)
                    self.inlined.append(h.node.name)
                    return body
            if isinstance(s, ast.Assign) and len(s.targets) == 1 and _simple_target(s.targets[0]) and isinstance(s.value, ast.Call):
                r = self.resolve(s.value, cls)
                if r:
                    h, recv = r
                    tg = s.targets[0]
                    body = self.splice(h, recv, s.value, fn, "value", tg.id if isinstance(tg, ast.Name) else tg)
                    self.inlined.append(h.node.name)
                    return body
        except NotInlinable as exc:
            self.skipped.append("%s: %s" % (getattr(s, "lineno", 0), exc))
            return [s]
        # a generator helper driving a for loop
        if isinstance(s, ast.For) and not s.orelse and isinstance(s.iter, ast.Call):
            r = self.resolve(s.iter, cls)
            if r and r[0].ok and r[0].generator:
                h, recv = r
                own = [x for x in s.body for y in ast.walk(x) if isinstance(y, (ast.Break, ast.Continue))]
                nested_loops = [l for x in s.body for l in ast.walk(x) if isinstance(l, (ast.For, ast.While))]
                jumps_in_nested = [y for l in nested_loops for y in ast.walk(l) if isinstance(y, (ast.Break, ast.Continue))]
                if len(own) == len(jumps_in_nested):      # no break/continue that belongs to this loop
                    try:
                        body = self.splice(h, recv, s.iter, fn, "for", (s.target, s.body))
                        self.inlined.append(h.node.name)
                        return body
                    except NotInlinable as exc:
                        self.skipped.append("%s: %s" % (getattr(s, "lineno", 0), exc))
        # calls nested in strict positions of the statement's expressions
        exprs: List[ast.AST] = []
        if isinstance(s, (ast.Assign, ast.AnnAssign, ast.AugAssign, ast.Expr, ast.Return)):
            if getattr(s, "value", None) is not None:
                exprs.append(s.value)
            if isinstance(s, ast.Assign):
                exprs.extend(t for t in s.targets if isinstance(t, (ast.Subscript, ast.Attribute)))
        elif isinstance(s, ast.If):
            exprs.append(s.test)
        elif isinstance(s, ast.For):
            exprs.append(s.iter)
        elif isinstance(s, ast.With):
            exprs.extend(i.context_expr for i in s.items)
        prelude: List[ast.stmt] = []
        for e in exprs:
            for c in _hoistable_calls(e):
                r = self.resolve(c, cls)
                if not r:
                    continue
                h, recv = r
                self.counter += 1
                res = "_r%d_%s" % (self.counter, h.node.name.strip("_"))
                try:
                    body = self.splice(h, recv, c, fn, "value", res)
                except NotInlinable as exc:
                    self.skipped.append("%s: %s" % (getattr(s, "lineno", 0), exc))
                    continue
                prelude.extend(body)
                # replace the call node in place by the result name
                new = ast.copy_location(ast.Name(res, ast.Load()), c)
                _replace_node(s, c, new)
                self.inlined.append(h.node.name)
        if prelude:
            # the statement itself runs after what was hoisted out of it
            last = max((getattr(n_, "lineno", 0) for p_ in prelude for n_ in ast.walk(p_) if hasattr(n_, "lineno")), default=getattr(s, "lineno", 0))
            if last >= getattr(s, "lineno", 0):
                for n_ in ast.walk(s):
                    if hasattr(n_, "lineno") and n_.lineno <= last:
                        n_.lineno = n_.end_lineno = last + 1e-5
        return prelude + [s]

    def run(self) -> bool:
        if not self.helpers_fn and not self.helpers_m:
            return False
        any_change = False
        for _round in range(4):
            changed = False
            for st in self.tree.body:
                if isinstance(st, ast.FunctionDef):
                    changed |= self.rewrite_function(st, None)
                elif isinstance(st, ast.ClassDef):
                    for s2 in st.body:
                        if isinstance(s2, ast.FunctionDef):
                            changed |= self.rewrite_function(s2, st)
            any_change |= changed
            if not changed:
                break
        # drop private helpers that are no longer referenced anywhere in the module
        def referenced(name: str, skip: ast.AST) -> bool:
            for x in ast.walk(self.tree):
                if x is skip:
                    continue
                if isinstance(x, ast.Name) and x.id == name:
                    return True
                if isinstance(x, ast.Attribute) and x.attr == name:
                    return True
                if isinstance(x, ast.Constant) and x.value == name:
                    return True
            return False
        for name, h in list(self.helpers_fn.items()):
            if name.startswith("_") and name in self.inlined and not referenced(name, h.node):
                self.tree.body.remove(h.node)
        for (cn, name), h in list(self.helpers_m.items()):
            if name.startswith("_") and name in self.inlined and not referenced(name, h.node):
                h.cls.body.remove(h.node)
                if not h.cls.body:
                    h.cls.body.append(ast.Pass())
        return any_change


def _replace_node(root: ast.AST, old: ast.AST, new: ast.AST):
    for parent in ast.walk(root):
        for fld, val in ast.iter_fields(parent):
            if val is old:
                setattr(parent, fld, new)
                return
            if isinstance(val, list):
                for i, v in enumerate(val):
                    if v is old:
                        val[i] = new
                        return


def inline_new_helpers(tree: ast.Module, modname: str, known: Set[str]):
    """Returns (tree, names inlined, reasons skipped)."""
    if not known:
        return tree, [], []
    mi = ModuleInliner(tree, modname, known)
    mi.run()
    return tree, mi.inlined, mi.skipped
