"""Statement-level CFG, dominators, reaching definitions and structural path
enumeration for the statement kinds gaddlemaps uses."""
from __future__ import annotations

import ast
from typing import Dict, Iterable, Iterator, List, Optional, Sequence, Set, Tuple

from .core import AnalysisError, norm

SIMPLE = (ast.Assign, ast.AugAssign, ast.AnnAssign, ast.Expr, ast.Pass, ast.Assert,
          ast.Import, ast.ImportFrom, ast.Delete, ast.Global, ast.Nonlocal,
          ast.FunctionDef, ast.AsyncFunctionDef, ast.ClassDef)


# --------------------------------------------------------------------------
# small AST helpers
# --------------------------------------------------------------------------
def attr_chain(node: ast.AST) -> Optional[str]:
    """'self._format' for Attribute(Name self, _format); 'a.b.c'; None otherwise."""
    parts = []
    while isinstance(node, ast.Attribute):
        parts.append(node.attr)
        node = node.value
    if isinstance(node, ast.Name):
        parts.append(node.id)
        return ".".join(reversed(parts))
    return None


def base_var(node: ast.AST) -> Optional[str]:
    """Variable (name or self.attr chain) that a store target ultimately writes into."""
    while isinstance(node, (ast.Subscript, ast.Starred)):
        node = node.value
    if isinstance(node, ast.Name):
        return node.id
    if isinstance(node, ast.Attribute):
        return attr_chain(node)
    return None


def walk_no_nested(node: ast.AST) -> Iterator[ast.AST]:
    """ast.walk that does not descend into nested function/class/lambda bodies."""
    todo = [node]
    first = True
    while todo:
        n = todo.pop()
        if not first and isinstance(n, (ast.FunctionDef, ast.AsyncFunctionDef,
                                        ast.ClassDef, ast.Lambda)):
            continue
        first = False
        yield n
        todo.extend(ast.iter_child_nodes(n))


def calls_in(node: ast.AST, nested: bool = False) -> List[ast.Call]:
    it = ast.walk(node) if nested else walk_no_nested(node)
    out = [n for n in it if isinstance(n, ast.Call)]
    out.sort(key=lambda c: (getattr(c, "lineno", 0), getattr(c, "col_offset", 0)))
    return out


def call_name(call: ast.Call) -> str:
    """Last component of the callee ('seek_atom' for self._open_fgro.seek_atom(...))."""
    f = call.func
    if isinstance(f, ast.Attribute):
        return f.attr
    if isinstance(f, ast.Name):
        return f.id
    return ""


def call_full(call: ast.Call) -> str:
    return norm(call.func)


def names_loaded(node: ast.AST) -> Set[str]:
    out = set()
    for n in walk_no_nested(node):
        if isinstance(n, ast.Name) and isinstance(n.ctx, ast.Load):
            out.add(n.id)
        elif isinstance(n, ast.Attribute) and isinstance(n.ctx, ast.Load):
            c = attr_chain(n)
            if c and c.split(".")[0] in ("self", "cls"):
                out.add(c)
    return out


def names_all(node: ast.AST) -> Set[str]:
    return {n.id for n in ast.walk(node) if isinstance(n, ast.Name)}


def header_exprs(st: ast.AST) -> List[ast.AST]:
    """Expressions evaluated by the node itself (not by nested statements)."""
    if isinstance(st, (ast.If, ast.While)):
        return [st.test]
    if isinstance(st, ast.For):
        return [st.iter]
    if isinstance(st, ast.With):
        return [i.context_expr for i in st.items]
    if isinstance(st, ast.Try):
        return []
    if isinstance(st, (ast.FunctionDef, ast.AsyncFunctionDef, ast.ClassDef)):
        return list(st.decorator_list)
    return [st]


def stmt_defs(st: ast.AST) -> List[Tuple[str, bool]]:
    """(variable, strong?) definitions performed by the node itself."""
    out: List[Tuple[str, bool]] = []

    def tgt(t, strong=True):
        if isinstance(t, ast.Name):
            out.append((t.id, strong))
        elif isinstance(t, (ast.Tuple, ast.List)):
            for e in t.elts:
                tgt(e, strong)
        elif isinstance(t, ast.Starred):
            tgt(t.value, strong)
        elif isinstance(t, ast.Attribute):
            c = attr_chain(t)
            if c:
                out.append((c, strong))
        elif isinstance(t, ast.Subscript):
            b = base_var(t)
            if b:
                out.append((b, False))          # weak update of the container

    if isinstance(st, ast.Assign):
        for t in st.targets:
            tgt(t)
    elif isinstance(st, ast.AugAssign):
        if isinstance(st.target, ast.Subscript):
            tgt(st.target)
        else:
            tgt(st.target, True)
    elif isinstance(st, ast.AnnAssign):
        if st.value is not None:
            tgt(st.target)
    elif isinstance(st, ast.For):
        tgt(st.target)
    elif isinstance(st, ast.With):
        for i in st.items:
            if i.optional_vars is not None:
                tgt(i.optional_vars)
    elif isinstance(st, (ast.FunctionDef, ast.AsyncFunctionDef, ast.ClassDef)):
        out.append((st.name, True))
    elif isinstance(st, (ast.Import, ast.ImportFrom)):
        for al in st.names:
            out.append(((al.asname or al.name).split(".")[0], True))
    elif isinstance(st, ast.ExceptHandler):
        if st.name:
            out.append((st.name, True))
    # walrus
    for e in header_exprs(st) if not isinstance(st, ast.ExceptHandler) else []:
        for n in walk_no_nested(e):
            if isinstance(n, ast.NamedExpr) and isinstance(n.target, ast.Name):
                out.append((n.target.id, True))
    return out


# --------------------------------------------------------------------------
# CFG
# --------------------------------------------------------------------------
class Node:
    __slots__ = ("id", "kind", "ast", "succ", "pred", "loop")

    def __init__(self, nid: int, kind: str, node: Optional[ast.AST]):
        self.id = nid
        self.kind = kind          # entry exit rexit stmt test for with except return raise break continue
        self.ast = node
        self.succ: List[Tuple["Node", object]] = []
        self.pred: List[Tuple["Node", object]] = []
        self.loop: Optional[ast.AST] = None

    def __repr__(self):
        return "<%d %s %s>" % (self.id, self.kind, norm(self.ast)[:40] if self.ast is not None else "")


class CFG:
    def __init__(self, func_node: ast.AST):
        self.func = func_node
        self.nodes: List[Node] = []
        self.entry = self._new("entry", None)
        self.exit = self._new("exit", None)       # normal return / fall off the end
        self.rexit = self._new("rexit", None)     # exceptional exit
        self.by_ast: Dict[int, Node] = {}
        body = func_node.body if hasattr(func_node, "body") else [func_node]
        out = self._block(body, [(self.entry, None)], [], [])
        for p, lab in out:
            self._edge(p, self.exit, lab)

    # -- construction ---------------------------------------------------
    def _new(self, kind, node) -> Node:
        n = Node(len(self.nodes), kind, node)
        self.nodes.append(n)
        if node is not None and kind != "except":
            self.by_ast.setdefault(id(node), n)
        return n

    def _edge(self, a: Node, b: Node, lab=None):
        a.succ.append((b, lab))
        b.pred.append((a, lab))

    def _connect(self, preds, n: Node):
        for p, lab in preds:
            self._edge(p, n, lab)

    def _block(self, stmts, preds, loops, tries):
        for st in stmts:
            preds = self._stmt(st, preds, loops, tries)
        return preds

    def _raise_targets(self, tries) -> List[Node]:
        if tries:
            return tries[-1]
        return [self.rexit]

    def _stmt(self, st, preds, loops, tries):
        if isinstance(st, ast.If):
            t = self._new("test", st)
            self._connect(preds, t)
            b = self._block(st.body, [(t, True)], loops, tries)
            e = self._block(st.orelse, [(t, False)], loops, tries) if st.orelse else [(t, False)]
            return b + e
        if isinstance(st, ast.While):
            t = self._new("test", st)
            self._connect(preds, t)
            brk: List = []
            b = self._block(st.body, [(t, True)], loops + [(t, brk)], tries)
            self._connect(b, t)
            const_true = isinstance(st.test, ast.Constant) and bool(st.test.value)
            out = [] if const_true else [(t, False)]
            if st.orelse:
                out = self._block(st.orelse, out, loops, tries)
            return out + brk
        if isinstance(st, (ast.For, ast.AsyncFor)):
            h = self._new("for", st)
            self._connect(preds, h)
            brk = []
            b = self._block(st.body, [(h, "iter")], loops + [(h, brk)], tries)
            self._connect(b, h)
            out = [(h, "exhausted")]
            if st.orelse:
                out = self._block(st.orelse, out, loops, tries)
            return out + brk
        if isinstance(st, (ast.With, ast.AsyncWith)):
            w = self._new("with", st)
            self._connect(preds, w)
            return self._block(st.body, [(w, None)], loops, tries)
        if isinstance(st, ast.Try):
            handlers = [self._new("except", h) for h in st.handlers]
            for hn, h in zip(handlers, st.handlers):
                self.by_ast[id(h)] = hn
            first = len(self.nodes)
            body_out = self._block(st.body, preds, loops, tries + [handlers] if handlers else tries)
            # every node of the try body may raise into every handler
            for n in self.nodes[first:]:
                if n.kind in ("stmt", "test", "for", "with", "return"):
                    for hn in handlers:
                        if not any(s is hn for s, _ in n.succ):
                            self._edge(n, hn, "exc")
            for p, _ in preds:
                for hn in handlers:
                    if not any(s is hn for s, _ in p.succ):
                        self._edge(p, hn, "exc")
            if st.orelse:
                body_out = self._block(st.orelse, body_out, loops, tries)
            outs = list(body_out)
            for hn, h in zip(handlers, st.handlers):
                outs += self._block(h.body, [(hn, None)], loops, tries)
            if st.finalbody:
                outs = self._block(st.finalbody, outs, loops, tries)
            return outs
        if isinstance(st, ast.Return):
            n = self._new("return", st)
            self._connect(preds, n)
            self._edge(n, self.exit, None)
            return []
        if isinstance(st, ast.Raise):
            n = self._new("raise", st)
            self._connect(preds, n)
            for tnode in self._raise_targets(tries):
                self._edge(n, tnode, "exc")
            return []
        if isinstance(st, ast.Break):
            n = self._new("break", st)
            self._connect(preds, n)
            if loops:
                loops[-1][1].append((n, None))
            return []
        if isinstance(st, ast.Continue):
            n = self._new("continue", st)
            self._connect(preds, n)
            if loops:
                self._edge(n, loops[-1][0], None)
            return []
        if isinstance(st, ast.Match):  # pragma: no cover - not used by the repo
            raise AnalysisError("match statement not supported by the CFG builder")
        n = self._new("stmt", st)
        self._connect(preds, n)
        return [(n, None)]

    # -- queries ---------------------------------------------------------
    def node_of(self, st: ast.AST) -> Node:
        n = self.by_ast.get(id(st))
        if n is None:
            raise AnalysisError("statement not in CFG: %s" % norm(st))
        return n

    def node_containing(self, expr: ast.AST) -> Optional[Node]:
        """CFG node whose own expressions contain ``expr``."""
        for n in self.nodes:
            if n.ast is None:
                continue
            for e in (header_exprs(n.ast) if not isinstance(n.ast, ast.ExceptHandler) else []):
                for sub in ast.walk(e):
                    if sub is expr:
                        return n
            if isinstance(n.ast, ast.For) and any(sub is expr for sub in ast.walk(n.ast.target)):
                return n
        return None

    def dominators(self, reverse: bool = False, virtual_end: bool = True) -> Dict[int, Set[int]]:
        """dom[n] = set of node ids dominating n (post-dominators when reverse)."""
        ids = [n.id for n in self.nodes]
        if not reverse:
            start = {self.entry.id}
            preds = {n.id: [p.id for p, _ in n.pred] for n in self.nodes}
        else:
            start = {self.exit.id, self.rexit.id} if virtual_end else {self.exit.id}
            preds = {n.id: [s.id for s, _ in n.succ] for n in self.nodes}
        full = set(ids)
        dom = {i: ({i} if i in start else set(full)) for i in ids}
        changed = True
        while changed:
            changed = False
            for i in ids:
                if i in start:
                    continue
                ps = [dom[p] for p in preds[i]]
                new = (set.intersection(*ps) if ps else set()) | {i}
                if new != dom[i]:
                    dom[i] = new
                    changed = True
        return dom

    def reachable_from(self, n: Node, skip_exc: bool = False) -> Set[int]:
        seen, todo = set(), [n]
        while todo:
            k = todo.pop()
            for s, lab in k.succ:
                if skip_exc and lab == "exc":
                    continue
                if s.id not in seen:
                    seen.add(s.id)
                    todo.append(s)
        return seen

    def all_paths_pass(self, src: Node, dst: Node, through: Iterable[Node],
                       skip_exc: bool = True) -> bool:
        """True iff every path src ->* dst passes through one of ``through``."""
        block = {t.id for t in through}
        if src.id in block:
            return True
        seen, todo = {src.id}, [src]
        while todo:
            k = todo.pop()
            for s, lab in k.succ:
                if skip_exc and lab == "exc":
                    continue
                if s.id in block or s.id in seen:
                    continue
                if s.id == dst.id:
                    return False
                seen.add(s.id)
                todo.append(s)
        return True

    # -- reaching definitions ------------------------------------------
    def reaching_defs(self, params: Sequence[str] = ()) -> "ReachingDefs":
        return ReachingDefs(self, params)


class ReachingDefs:
    """Classic may-reaching definitions; a definition is (node id, variable)."""

    def __init__(self, cfg: CFG, params: Sequence[str]):
        self.cfg = cfg
        self.gen: Dict[int, List[Tuple[str, bool]]] = {}
        for n in cfg.nodes:
            if n.kind == "entry":
                self.gen[n.id] = [(p, True) for p in params]
            elif n.ast is not None and n.kind in ("stmt", "for", "with", "except", "test", "return"):
                self.gen[n.id] = stmt_defs(n.ast)
            else:
                self.gen[n.id] = []
        self.IN: Dict[int, Set[Tuple[int, str]]] = {n.id: set() for n in cfg.nodes}
        self.OUT: Dict[int, Set[Tuple[int, str]]] = {n.id: set() for n in cfg.nodes}
        work = [n for n in cfg.nodes]
        while work:
            n = work.pop(0)
            inn = set()
            for p, _ in n.pred:
                inn |= self.OUT[p.id]
            self.IN[n.id] = inn
            out = set(inn)
            for var, strong in self.gen[n.id]:
                if strong:
                    out = {d for d in out if d[1] != var}
                out.add((n.id, var))
            if out != self.OUT[n.id]:
                self.OUT[n.id] = out
                for s, _ in n.succ:
                    if s not in work:
                        work.append(s)

    def at(self, node: Node, var: str) -> List[Node]:
        """Definition nodes of ``var`` that may reach the *use* in ``node``."""
        return [self.cfg.nodes[i] for i, v in sorted(self.IN[node.id]) if v == var]

    def defs_of(self, var: str) -> List[Node]:
        return [n for n in self.cfg.nodes if any(v == var for v, _ in self.gen[n.id])]


# --------------------------------------------------------------------------
# structural path enumeration (acyclic regions)
# --------------------------------------------------------------------------
class Path:
    __slots__ = ("events", "end", "end_node")

    def __init__(self, events, end, end_node=None):
        self.events = events      # list of ('s', stmt) | ('c', test_expr, bool, stmt) | ('loop0'|'loop1', stmt)
        self.end = end            # 'fall' 'return' 'raise' 'break' 'continue'
        self.end_node = end_node

    def stmts(self) -> List[ast.AST]:
        return [e[1] for e in self.events if e[0] == "s"]

    def conds(self) -> List[Tuple[ast.AST, bool]]:
        return [(e[1], e[2]) for e in self.events if e[0] == "c"]

    def describe(self) -> str:
        bits = []
        for e in self.events:
            if e[0] == "c":
                bits.append("[%s%s]" % ("" if e[2] else "not ", norm(e[1])))
            elif e[0] == "s":
                bits.append(norm(e[1]))
            else:
                bits.append("<%s %s>" % (e[0], norm(getattr(e[1], "target", None))))
        return " ; ".join(bits) + " => " + self.end


def enum_paths(stmts: Sequence[ast.AST], cap: int = 10000) -> List[Path]:
    """All structural paths through a statement list.  Nested loops are unrolled
    0 or 1 time(s) (stated in evidence where used)."""
    paths = _enum(list(stmts), cap)
    return paths


def _surely_none(v: ast.AST) -> Optional[bool]:
    """True: the expression is the constant None; False: it can never be None (a literal, a comparison, formatted
    text); None: unknown."""
    if isinstance(v, ast.Constant):
        return v.value is None
    if isinstance(v, (ast.JoinedStr, ast.Compare, ast.List, ast.Tuple, ast.Dict, ast.Set)):
        return False
    if isinstance(v, ast.Call) and isinstance(v.func, ast.Attribute) and v.func.attr in ("format", "join") \
            and isinstance(v.func.value, (ast.Constant, ast.JoinedStr)) and isinstance(getattr(v.func.value, "value", ""), str):
        return False
    if isinstance(v, ast.BinOp) and isinstance(v.op, (ast.Mod, ast.Add)) and isinstance(v.left, ast.Constant) \
            and isinstance(v.left.value, str):
        return False
    if isinstance(v, ast.UnaryOp) and isinstance(v.op, ast.Not):
        return False
    if isinstance(v, ast.Call) and isinstance(v.func, ast.Attribute) and v.func.attr in (
            "strip", "lstrip", "rstrip", "lower", "upper", "title", "replace", "split", "rsplit", "partition", "rpartition", "splitlines",
            "encode", "decode", "copy", "keys", "values", "items", "group", "groups", "findall"):
        return False                                  # str / dict / match methods never return None
    if isinstance(v, ast.Call) and isinstance(v.func, ast.Name) and v.func.id in ("str", "int", "float", "len", "list", "tuple", "dict", "set",
                                                                                   "sorted", "bool", "repr", "range", "enumerate", "zip"):
        return False
    return None


def resolve_flags(paths: List[Path]) -> List[Path]:
    """Boolean flags are read as what they were last set to on the path: a test `if flag:` (or `not flag`) where `flag`
    was assigned earlier on the same path becomes a test of the assigned expression; a path on which a flag holding a
    constant is tested against that constant's negation is infeasible and dropped.  Exact along a single path as long
    as the operands of the assigned expression are not rebound in between (checked)."""
    out = []
    for p in paths:
        env: Dict[str, ast.AST] = {}
        events = []
        feasible = True
        for ev in p.events:
            if ev[0] == "s":
                st = ev[1]
                if isinstance(st, ast.Assign) and len(st.targets) == 1 and isinstance(st.targets[0], ast.Name):
                    v = st.value
                    if isinstance(v, (ast.Compare, ast.BoolOp, ast.Constant, ast.UnaryOp, ast.Call, ast.Name, ast.JoinedStr, ast.BinOp)):
                        # read the value through earlier flags as well
                        if isinstance(v, ast.Name) and v.id in env:
                            v = env[v.id]
                        env[st.targets[0].id] = v
                    else:
                        env.pop(st.targets[0].id, None)
                    # an operand rebound: flags computed from it are no longer known
                    for k in list(env):
                        if k != st.targets[0].id and any(isinstance(x, ast.Name) and x.id == st.targets[0].id for x in ast.walk(env[k])):
                            env.pop(k)
                else:
                    for x in ast.walk(st):
                        if isinstance(x, ast.Name) and isinstance(x.ctx, ast.Store):
                            env.pop(x.id, None)
                            for k in list(env):
                                if any(isinstance(y, ast.Name) and y.id == x.id for y in ast.walk(env[k])):
                                    env.pop(k)
                events.append(ev)
            elif ev[0] == "c":
                t, pol = ev[1], ev[2]
                inner, neg = t, False
                while isinstance(inner, ast.UnaryOp) and isinstance(inner.op, ast.Not):
                    inner, neg = inner.operand, not neg
                # `flag is None` / `flag is not None` where the flag was last set to None or to a value that is never None
                if isinstance(inner, ast.Compare) and len(inner.ops) == 1 and isinstance(inner.ops[0], (ast.Is, ast.IsNot)) \
                        and isinstance(inner.left, ast.Name) and inner.left.id in env \
                        and isinstance(inner.comparators[0], ast.Constant) and inner.comparators[0].value is None:
                    isnone = _surely_none(env[inner.left.id])
                    if isnone is not None:
                        truth = isnone if isinstance(inner.ops[0], ast.Is) else not isnone
                        if (truth != neg) != pol:
                            feasible = False
                            break
                        continue
                    if isinstance(env[inner.left.id], ast.Call):
                        # `m = re.match(...)` ... `if m is None`: the test is on the call's result
                        new_c = ast.copy_location(ast.Compare(env[inner.left.id], inner.ops, inner.comparators), inner)
                        new_t = ast.copy_location(ast.UnaryOp(ast.Not(), new_c), t) if neg else new_c
                        events.append(("c", new_t, pol, ev[3]) if len(ev) > 3 else ("c", new_t, pol))
                        continue
                    events.append(ev)
                    continue
                if isinstance(inner, ast.Name) and inner.id in env and isinstance(env[inner.id], (ast.JoinedStr, ast.BinOp)):
                    events.append(ev)
                    continue
                if isinstance(inner, ast.Name) and inner.id in env:
                    val = env[inner.id]
                    if isinstance(val, ast.Constant) and (isinstance(val.value, (bool, int, str)) or val.value is None):
                        if (bool(val.value) != neg) != pol:
                            feasible = False
                            break
                        continue                      # a test that is decided: no information
                    new_t = ast.copy_location(ast.UnaryOp(ast.Not(), val), t) if neg else val
                    events.append(("c", new_t, pol, ev[3]) if len(ev) > 3 else ("c", new_t, pol))
                else:
                    events.append(ev)
            else:
                events.append(ev)
        if feasible:
            out.append(Path(events, p.end, p.end_node))
    return out


def _enum(stmts, cap) -> List[Path]:
    partial: List[List] = [[]]
    done: List[Path] = []
    for st in stmts:
        if not partial:
            break
        alts = _stmt_paths(st, cap)
        new_partial = []
        for pre in partial:
            for alt in alts:
                ev = pre + alt.events
                if alt.end == "fall":
                    new_partial.append(ev)
                else:
                    done.append(Path(ev, alt.end, alt.end_node))
        partial = new_partial
        if len(partial) + len(done) > cap:
            raise AnalysisError("path enumeration cap (%d) exceeded" % cap)
    return done + [Path(ev, "fall") for ev in partial]


def _stmt_paths(st, cap) -> List[Path]:
    if isinstance(st, ast.If):
        out = []
        for p in _enum(st.body, cap):
            out.append(Path([("c", st.test, True, st)] + p.events, p.end, p.end_node))
        for p in (_enum(st.orelse, cap) if st.orelse else [Path([], "fall")]):
            out.append(Path([("c", st.test, False, st)] + p.events, p.end, p.end_node))
        return out
    if isinstance(st, (ast.For, ast.While)):
        out = [Path([("loop0", st)], "fall")]
        for p in _enum(st.body, cap):
            ev = [("loop1", st)] + p.events
            if p.end in ("fall", "continue", "break"):
                out.append(Path(ev, "fall"))
            else:
                out.append(Path(ev, p.end, p.end_node))
        return out
    if isinstance(st, ast.With):
        out = []
        for p in _enum(st.body, cap):
            out.append(Path([("s", st)] + p.events, p.end, p.end_node))
        return out
    if isinstance(st, ast.Try):
        out = []
        body = _enum(st.body + list(st.orelse), cap)
        out.extend(body)
        for h in st.handlers:
            for p in _enum(h.body, cap):
                out.append(Path([("exc", h)] + p.events, p.end, p.end_node))
        if st.finalbody:
            fin = _enum(st.finalbody, cap)
            out2 = []
            for p in out:
                for f in fin:
                    if f.end == "fall":
                        out2.append(Path(p.events + f.events, p.end, p.end_node))
                    else:
                        out2.append(Path(p.events + f.events, f.end, f.end_node))
            out = out2
        return out
    if isinstance(st, ast.Return):
        return [Path([("s", st)], "return", st)]
    if isinstance(st, ast.Raise):
        return [Path([("s", st)], "raise", st)]
    if isinstance(st, ast.Break):
        return [Path([], "break", st)]
    if isinstance(st, ast.Continue):
        return [Path([], "continue", st)]
    return [Path([("s", st)], "fall")]


# --------------------------------------------------------------------------
# structural helpers on statement trees
# --------------------------------------------------------------------------
def parents_map(root: ast.AST) -> Dict[int, ast.AST]:
    pm: Dict[int, ast.AST] = {}
    for n in ast.walk(root):
        for c in ast.iter_child_nodes(n):
            pm[id(c)] = n
    return pm


def enclosing_stmt(node: ast.AST, pm: Dict[int, ast.AST]) -> ast.AST:
    n = node
    while not isinstance(n, ast.stmt):
        n = pm[id(n)]
    return n


def ancestors(node: ast.AST, pm: Dict[int, ast.AST]) -> List[ast.AST]:
    out = []
    n = node
    while id(n) in pm:
        n = pm[id(n)]
        out.append(n)
    return out


def guards_of(node: ast.AST, pm: Dict[int, ast.AST]) -> List[Tuple[ast.AST, bool]]:
    """(test, polarity) of every enclosing if/while branch of ``node``."""
    out = []
    child = node
    n = node
    while id(n) in pm:
        par = pm[id(n)]
        if isinstance(par, (ast.If, ast.While)):
            if any(c is n for c in par.body):
                out.append((par.test, True))
            elif any(c is n for c in par.orelse):
                out.append((par.test, False))
        elif isinstance(par, ast.IfExp):
            if par.body is n:
                out.append((par.test, True))
            elif par.orelse is n:
                out.append((par.test, False))
        n = par
    return out


def find_stmts(root: ast.AST, pred) -> List[ast.AST]:
    out = [n for n in walk_no_nested(root) if isinstance(n, ast.stmt) and pred(n)]
    out.sort(key=lambda s: (s.lineno, s.col_offset))
    return out


def flip_compare(test: ast.AST) -> str:
    """Canonical text for a binary comparison, operands ordered so that
    `a < b` and `b > a` (and `a <= b` / `b >= a`) normalise identically."""
    if isinstance(test, ast.Compare) and len(test.ops) == 1:
        l, r, op = norm(test.left), norm(test.comparators[0]), test.ops[0]
        if isinstance(op, ast.Gt):
            return "%s < %s" % (r, l)
        if isinstance(op, ast.GtE):
            return "%s <= %s" % (r, l)
        if isinstance(op, ast.Lt):
            return "%s < %s" % (l, r)
        if isinstance(op, ast.LtE):
            return "%s <= %s" % (l, r)
        if isinstance(op, (ast.Eq, ast.NotEq)):
            a, b = sorted([l, r])
            return "%s %s %s" % (a, "==" if isinstance(op, ast.Eq) else "!=", b)
    if isinstance(test, ast.UnaryOp) and isinstance(test.op, ast.Not):
        inner = test.operand
        if isinstance(inner, ast.Compare) and len(inner.ops) == 1:
            neg = {ast.Lt: ast.GtE, ast.GtE: ast.Lt, ast.Gt: ast.LtE, ast.LtE: ast.Gt,
                   ast.Eq: ast.NotEq, ast.NotEq: ast.Eq}
            t = type(inner.ops[0])
            if t in neg:
                return flip_compare(ast.Compare(inner.left, [neg[t]()], inner.comparators))
    return norm(test)


def const_int(node: ast.AST, env: Optional[Dict[str, int]] = None) -> Optional[int]:
    """Fold an integer-valued literal expression (what a compiler would fold)."""
    env = env or {}
    if isinstance(node, ast.Constant) and isinstance(node.value, (int, bool)) \
            and not isinstance(node.value, bool):
        return node.value
    if isinstance(node, ast.Constant) and isinstance(node.value, bool):
        return int(node.value)
    if isinstance(node, ast.Name) and node.id in env:
        return env[node.id]
    if isinstance(node, ast.Attribute):
        c = attr_chain(node)
        if c and c in env:
            return env[c]
        if node.attr in env and isinstance(node.value, ast.Name) and node.value.id in ("self", "cls"):
            return env[node.attr]
    if isinstance(node, ast.UnaryOp) and isinstance(node.op, ast.USub):
        v = const_int(node.operand, env)
        return -v if v is not None else None
    if isinstance(node, ast.BinOp):
        a, b = const_int(node.left, env), const_int(node.right, env)
        if a is None or b is None:
            return None
        try:
            if isinstance(node.op, ast.Add):
                return a + b
            if isinstance(node.op, ast.Sub):
                return a - b
            if isinstance(node.op, ast.Mult):
                return a * b
            if isinstance(node.op, ast.FloorDiv):
                return a // b
            if isinstance(node.op, ast.Mod):
                return a % b
            if isinstance(node.op, ast.Pow) and 0 <= b < 64:
                return a ** b
        except ZeroDivisionError:
            return None
    return None


# --------------------------------------------------------------------------
# canonical tests: negations pushed into the polarity, comparison operators in one direction
# --------------------------------------------------------------------------
_CANON_OP = {ast.NotEq: ast.Eq, ast.GtE: ast.Lt, ast.Gt: ast.LtE, ast.NotIn: ast.In, ast.IsNot: ast.Is}


def canon_test(test: ast.AST, pol: bool = True) -> Tuple[str, bool]:
    """(text, polarity), one representative per predicate: `not X` -> (X, not pol); != -> ==, not in -> in,
    is not -> is with the polarity flipped; ordering comparisons written with `<` or `<=` and the operands in
    lexical order (a > b, b < a, not a <= b, not b >= a all give the same pair); == operands sorted."""
    t = test
    while isinstance(t, ast.UnaryOp) and isinstance(t.op, ast.Not):
        t, pol = t.operand, not pol
    if isinstance(t, ast.Compare) and len(t.ops) == 1:
        op = type(t.ops[0])
        l, r = norm(t.left).replace(" ", ""), norm(t.comparators[0]).replace(" ", "")
        if op in (ast.Gt, ast.GtE):
            l, r, op = r, l, {ast.Gt: ast.Lt, ast.GtE: ast.LtE}[op]
        if op in (ast.Lt, ast.LtE):
            if l > r:                                   # a < b  ==  not (b <= a)
                l, r, op, pol = r, l, {ast.Lt: ast.LtE, ast.LtE: ast.Lt}[op], not pol
            return "%s%s%s" % (l, "<" if op is ast.Lt else "<=", r), pol
        if op in (ast.Eq, ast.NotEq):
            a, b = sorted([l, r])
            return "%s==%s" % (a, b), (pol if op is ast.Eq else not pol)
        if op in (ast.In, ast.NotIn):
            return "%sin%s" % (l + " ", " " + r), (pol if op is ast.In else not pol)
        if op in (ast.Is, ast.IsNot):
            return "%sis%s" % (l + " ", " " + r), (pol if op is ast.Is else not pol)
    if isinstance(t, ast.BoolOp):                       # one form for and/or: a and b == not (not a or not b)
        isand = isinstance(t.op, ast.And)
        kids = sorted(canon_test(v, not isand) if isand else canon_test(v, True) for v in t.values)
        return "or(%s)" % ",".join(("" if p else "!") + x for x, p in kids), (not pol if isand else pol)
    return norm(t).replace(" ", ""), pol


def conjuncts(test: ast.AST, pol: bool = True) -> List[Tuple[str, bool]]:
    """Canonical literals that all hold when `test` has truth value `pol` (a and b -> a, b; not (a or b) -> !a, !b)."""
    t = test
    while isinstance(t, ast.UnaryOp) and isinstance(t.op, ast.Not):
        t, pol = t.operand, not pol
    if isinstance(t, ast.BoolOp) and isinstance(t.op, ast.And if pol else ast.Or):
        out: List[Tuple[str, bool]] = []
        for v in t.values:
            out += conjuncts(v, pol)
        return out
    return [canon_test(t, pol)]


def cguards_of(node: ast.AST, pm: Dict[int, ast.AST], split: bool = False) -> List[Tuple[str, bool]]:
    if split:
        return sorted(x for t, p in guards_of(node, pm) for x in conjuncts(t, p))
    return sorted(canon_test(t, p) for t, p in guards_of(node, pm))


def cconds(path: "Path") -> List[Tuple[str, bool]]:
    return [canon_test(t, o) for t, o in path.conds()]


def ctext(src: str) -> Tuple[str, bool]:
    """Canonical form of a test given as source text."""
    return canon_test(ast.parse(src, mode="eval").body, True)


def branches(ifnode: ast.If) -> Tuple[str, List[ast.stmt], List[ast.stmt]]:
    """(canonical test text, statements run when it is true, statements run when it is false)."""
    txt, pol = canon_test(ifnode.test, True)
    return (txt, ifnode.body, ifnode.orelse) if pol else (txt, ifnode.orelse, ifnode.body)
