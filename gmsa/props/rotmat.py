"""Closed-form analysis of rotation_matrix: the returned expression is folded into a 3x3 matrix of
polynomials in (n0, n1, n2, C, S) with n the normalised axis, C = cos(theta), S = sin(theta); the
identities of C17 are then decided by polynomial normalisation modulo n.n = 1 and C^2 + S^2 = 1."""
from __future__ import annotations

import ast
from typing import Dict, List, Optional

from ..cfg import call_name, walk_no_nested, attr_chain
from ..core import AnalysisError, Ctx, Func, norm
from ..poly import Poly
from ..vec import reduce_poly, _is_norm_call
from ..util import stmts_sorted

N = [Poly.sym("n0"), Poly.sym("n1"), Poly.sym("n2")]
C, S = Poly.sym("C"), Poly.sym("S")
# sign-and-magnitude atoms that are *not* trigonometric polynomials: A = |sin t|, G = sgn(t)|sin t|, Z = sgn(t)
A, G, Z = Poly.sym("A"), Poly.sym("G"), Poly.sym("Z")
REL = {"n2": Poly.const(1) - N[0] ** 2 - N[1] ** 2, "S": Poly.const(1) - C ** 2,
       "A": Poly.const(1) - C ** 2, "G": Poly.const(1) - C ** 2, "Z": Poly.const(1)}
NONTRIG = {"A": "|sin(theta)| (e.g. sqrt(1 - cos^2)), which differs from sin(theta) for every negative angle",
           "G": "sgn(theta)|sin(theta)|, which differs from sin(theta) whenever pi < |theta| < 2 pi (mod 2 pi)",
           "Z": "sgn(theta), which is not a trigonometric polynomial"}


class Mat:
    def __init__(self, rows):
        self.r = rows

    @staticmethod
    def eye():
        return Mat([[Poly.const(1 if i == j else 0) for j in range(3)] for i in range(3)])

    def T(self):
        return Mat([[self.r[j][i] for j in range(3)] for i in range(3)])

    def __add__(self, o):
        return Mat([[self.r[i][j] + o.r[i][j] for j in range(3)] for i in range(3)])

    def __sub__(self, o):
        return Mat([[self.r[i][j] - o.r[i][j] for j in range(3)] for i in range(3)])

    def scale(self, p):
        return Mat([[self.r[i][j] * p for j in range(3)] for i in range(3)])

    def mm(self, o):
        return Mat([[sum((self.r[i][k] * o.r[k][j] for k in range(3)), Poly()) for j in range(3)] for i in range(3)])

    def mv(self, v):
        return [sum((self.r[i][k] * v[k] for k in range(3)), Poly()) for i in range(3)]

    def trace(self):
        return self.r[0][0] + self.r[1][1] + self.r[2][2]

    def det(self):
        a = self.r
        return (a[0][0] * (a[1][1] * a[2][2] - a[1][2] * a[2][1])
                - a[0][1] * (a[1][0] * a[2][2] - a[1][2] * a[2][0])
                + a[0][2] * (a[1][0] * a[2][1] - a[1][1] * a[2][0]))

    def subst(self, env):
        return Mat([[self.r[i][j].subst(env) for j in range(3)] for i in range(3)])

    def equals(self, o, rel):
        return all(reduce_poly(self.r[i][j] - o.r[i][j], rel).is_zero() for i in range(3) for j in range(3))


class Sym:
    """Result of folding rotation_matrix."""
    def __init__(self):
        self.matrix: Optional[Mat] = None
        self.norm_name: Optional[str] = None
        self.axis_param = None
        self.theta_param = None
        self.raw_axis_uses: List[ast.AST] = []
        self.skew: Optional[Mat] = None
        self.skew_node = None
        self.why = ""


def fold(f: Func) -> Sym:
    out = Sym()
    ps = [p for p in f.params]
    if len(ps) < 2:
        out.why = "unexpected signature"
        return out
    out.axis_param, out.theta_param = ps[0], ps[1]
    env: Dict[str, object] = {}
    for st in stmts_sorted(f.node):
        if isinstance(st, ast.Assign) and len(st.targets) == 1 and isinstance(st.targets[0], ast.Name):
            v = _ev(st.value, env, out, st)
            if v is not None:
                env[st.targets[0].id] = v
        elif isinstance(st, ast.AugAssign) and isinstance(st.target, ast.Name):
            cur = env.get(st.target.id)
            rhs = _ev(st.value, env, out, st)
            if isinstance(cur, Mat) and isinstance(rhs, Mat) and isinstance(st.op, (ast.Add, ast.Sub)):
                env[st.target.id] = cur + rhs if isinstance(st.op, ast.Add) else cur - rhs
            elif isinstance(st.op, ast.Div) and _is_norm_call(st.value) is not None \
                    and norm(_is_norm_call(st.value)) == st.target.id == out.axis_param:
                env[st.target.id] = ("nvec",)
                out.norm_name = st.target.id
            else:
                env.pop(st.target.id, None)
        elif isinstance(st, ast.Return):
            v = _ev(st.value, env, out, st) if st.value is not None else None
            if isinstance(v, Mat):
                out.matrix = v
            else:
                out.why = "returned expression does not fold to a 3x3 polynomial matrix"
    # raw uses of the axis parameter outside its normalisation
    for n in ast.walk(f.node):
        if isinstance(n, ast.Name) and n.id == out.axis_param and isinstance(n.ctx, ast.Load):
            out.raw_axis_uses.append(n)
    return out


def _ev(e, env, out: Sym, st):
    if isinstance(e, ast.Name):
        return env.get(e.id)
    if isinstance(e, ast.Constant) and isinstance(e.value, (int, float)) and not isinstance(e.value, bool):
        from fractions import Fraction
        return Poly.const(Fraction(e.value).limit_denominator(10 ** 9) if isinstance(e.value, float) else e.value)
    if isinstance(e, ast.UnaryOp) and isinstance(e.op, ast.USub):
        v = _ev(e.operand, env, out, st)
        if isinstance(v, Poly):
            return -v
        if isinstance(v, Mat):
            return v.scale(Poly.const(-1))
        return None
    if isinstance(e, ast.Subscript):
        b = _ev(e.value, env, out, st)
        if b == ("nvec",) and isinstance(e.slice, ast.Constant) and e.slice.value in (0, 1, 2, -1, -2, -3):
            return N[e.slice.value % 3]
        return None
    if isinstance(e, ast.Attribute) and e.attr == "T":
        b = _ev(e.value, env, out, st)
        return b.T() if isinstance(b, Mat) else None
    if isinstance(e, ast.BinOp):
        # normalisation  axis / norm(axis)
        if isinstance(e.op, ast.Div):
            na = _is_norm_call(e.right)
            if na is not None and norm(na) == norm(e.left) and norm(e.left) == out.axis_param:
                if isinstance(st, ast.Assign) and isinstance(st.targets[0], ast.Name):
                    out.norm_name = st.targets[0].id
                return ("nvec",)
        a, b = _ev(e.left, env, out, st), _ev(e.right, env, out, st)
        if isinstance(e.op, ast.MatMult) and isinstance(a, Mat) and isinstance(b, Mat):
            return a.mm(b)
        if isinstance(a, Mat) and isinstance(b, Mat):
            if isinstance(e.op, ast.Add):
                return a + b
            if isinstance(e.op, ast.Sub):
                return a - b
            return None
        if isinstance(e.op, ast.Mult):
            if isinstance(a, Poly) and isinstance(b, Mat):
                return b.scale(a)
            if isinstance(a, Mat) and isinstance(b, Poly):
                return a.scale(b)
        if isinstance(a, Poly) and isinstance(b, Poly):
            if isinstance(e.op, ast.Add):
                return a + b
            if isinstance(e.op, ast.Sub):
                return a - b
            if isinstance(e.op, ast.Mult):
                return a * b
            if isinstance(e.op, ast.Pow) and b.const_value() is not None and b.const_value().denominator == 1 \
                    and 0 <= b.const_value() <= 4:
                return a ** int(b.const_value())
            if isinstance(e.op, ast.Div) and b.const_value():
                return a * Poly.const(1 / b.const_value())
        return None
    if isinstance(e, ast.Call):
        nm = call_name(e)
        if nm == "eye" and e.args:
            return Mat.eye()
        if nm == "identity" and e.args:
            return Mat.eye()
        if nm == "outer" and len(e.args) == 2:
            a, b = _ev(e.args[0], env, out, st), _ev(e.args[1], env, out, st)
            if a == ("nvec",) and b == ("nvec",):
                return Mat([[N[i] * N[j] for j in range(3)] for i in range(3)])
            return None
        if nm in ("cos", "sin") and e.args and norm(e.args[0]) == out.theta_param:
            return C if nm == "cos" else S
        if nm == "sqrt" and len(e.args) == 1:
            v = _ev(e.args[0], env, out, st)
            if isinstance(v, Poly) and reduce_poly(v - S * S, REL).is_zero():
                return A
            return None
        if nm in ("abs", "fabs", "absolute") and len(e.args) == 1:
            v = _ev(e.args[0], env, out, st)
            return A if isinstance(v, Poly) and (v == S or v == -S or v == A) else None
        if nm == "sign" and len(e.args) == 1:
            if norm(e.args[0]) == out.theta_param:
                return Z
            return None
        if nm == "copysign" and len(e.args) == 2:
            a = _ev(e.args[0], env, out, st)
            if isinstance(a, Poly) and a == A:
                if norm(e.args[1]) == out.theta_param:
                    return G
                b = _ev(e.args[1], env, out, st)
                if isinstance(b, Poly) and b == S:
                    return S
            return None
        if nm in ("array", "asarray") and e.args and isinstance(e.args[0], (ast.List, ast.Tuple)) \
                and len(e.args[0].elts) == 3 and all(isinstance(r, (ast.List, ast.Tuple)) and len(r.elts) == 3
                                                      for r in e.args[0].elts):
            rows = []
            for r in e.args[0].elts:
                row = []
                for x in r.elts:
                    v = _ev(x, env, out, st)
                    if not isinstance(v, Poly):
                        return None
                    row.append(v)
                rows.append(row)
            m = Mat(rows)
            # remember the antisymmetric generator if it looks like one
            if all(m.r[i][i].is_zero() for i in range(3)):
                out.skew, out.skew_node = m, e
            return m
        if nm in ("dot", "matmul") and len(e.args) == 2:
            a, b = _ev(e.args[0], env, out, st), _ev(e.args[1], env, out, st)
            if isinstance(a, Mat) and isinstance(b, Mat):
                return a.mm(b)
            return None
        if nm == "transpose" and e.args:
            a = _ev(e.args[0], env, out, st)
            return a.T() if isinstance(a, Mat) else None
    return None


def rules(ctx: Ctx):
    f = ctx.func("rotation_matrix")
    sy = fold(f)
    # R17.4 the axis parameter reaches the result only through its normalisation
    pm = {}
    for n in ast.walk(f.node):
        for c in ast.iter_child_nodes(n):
            pm[id(c)] = n
    bad = []
    for use in sy.raw_axis_uses:
        ok = False
        n = use
        while id(n) in pm:
            n = pm[id(n)]
            if isinstance(n, ast.BinOp) and isinstance(n.op, ast.Div) and _is_norm_call(n.right) is not None \
                    and norm(_is_norm_call(n.right)) == sy.axis_param and norm(n.left) == sy.axis_param:
                ok = True
                break
            if isinstance(n, ast.AugAssign) and isinstance(n.op, ast.Div) and norm(n.target) == sy.axis_param:
                ok = True
                break
            if isinstance(n, ast.stmt):
                break
        if not ok:
            bad.append(use)
    # after an in-place normalisation of the parameter its later uses are uses of the unit vector
    if sy.norm_name == sy.axis_param:
        bad = []
    ctx.ob("R17.4", f, "uses of `%s`: %d, outside its normalisation: %d" % (sy.axis_param, len(sy.raw_axis_uses), len(bad)),
           not bad and sy.norm_name is not None,
           "the axis enters the matrix only as axis/|axis| (the result cannot depend on the axis' length)"
           + ("" if not bad else " -- raw use at line %d" % bad[0].lineno), node=bad[0] if bad else f.node)
    if sy.matrix is None:
        ctx.ob("R17.5", f, "closed form", True, "rotation_matrix does not fold to a polynomial matrix (%s); the "
               "algebraic clauses are not decided on this tree" % sy.why, undecided=True)
        return
    R = sy.matrix
    ctx.extra["rotation_entries"] = [[repr(reduce_poly(R.r[i][j], REL)) for j in range(3)] for i in range(3)]
    # R17.5 antisymmetric generator
    if sy.skew is not None:
        K = sy.skew
        anti = all((K.r[i][j] + K.r[j][i]).is_zero() for i in range(3) for j in range(3))
        mags = sorted(repr(K.r[i][j]).lstrip("-") for i in range(3) for j in range(3) if i < j)
        ctx.ob("R17.5", f, sy.skew_node, anti and mags == ["n0", "n1", "n2"],
               "the generator literal is antisymmetric (K[i][j] = -K[j][i], zero diagonal) and holds the three "
               "normalised components once each", node=sy.skew_node, upper_triangle=mags)
        kn = [reduce_poly(x, REL) for x in K.mv(N)]
        ctx.ob("R17.8", f, "K.n = %s" % kn, all(x.is_zero() for x in kn),
               "the generator annihilates the axis", node=sy.skew_node)
    # atoms that are not trigonometric polynomials in theta
    red = [[reduce_poly(R.r[i][j], REL) for j in range(3)] for i in range(3)]
    nontrig = sorted({sname for row in red for x in row for sname in x.symbols() if sname in NONTRIG})
    for sname in nontrig:
        ctx.ob("R17.9", f, "matrix entries depend on %s" % NONTRIG[sname].split(",")[0], False,
               "the entries must be polynomials in cos(theta) and sin(theta) of the angle itself: this matrix uses "
               "%s, so for those angles (inside the stated range) it is the rotation by another angle and "
               "R(a)R(b) = R(a+b) fails" % NONTRIG[sname], node=f.node)
    # identities by normalisation
    I = Mat.eye()
    ctx.ob("R17.9", f, "R.R^T - I", R.mm(R.T()).equals(I, REL),
           "R R^T = I as a polynomial identity modulo n.n = 1 and cos^2 + sin^2 = 1 (orthogonal)", node=f.node)
    d = reduce_poly(R.det() - 1, REL)
    ctx.ob("R17.9", f, "det R - 1 = %r" % d, d.is_zero(), "det R = +1 (proper rotation)", node=f.node)
    rn = [reduce_poly(x - N[i], REL) for i, x in enumerate(R.mv(N))]
    ctx.ob("R17.8", f, "R.n - n = %s" % rn, all(x.is_zero() for x in rn), "the axis is left fixed", node=f.node)
    tr = reduce_poly(R.trace() - (Poly.const(1) + 2 * C), REL)
    ctx.ob("R17.7", f, "tr R - (1 + 2 cos) = %r" % tr, tr.is_zero(), "trace is 1 + 2 cos(theta)", node=f.node)
    Rm = R.subst({"S": -S, "G": -G, "Z": -Z})
    ctx.ob("R17.6", f, "R(-theta) - R(theta)^T", Rm.equals(R.T(), REL),
           "R(-theta) = R(theta)^T (cos even, sin odd)", node=f.node)
    # composition: R(a) R(b) = R(a+b) with the angle-addition formulas
    Ca, Sa, Cb, Sb = (Poly.sym(x) for x in ("Ca", "Sa", "Cb", "Sb"))
    Ra = R.subst({"C": Ca, "S": Sa})
    Rb = R.subst({"C": Cb, "S": Sb})
    Rab = R.subst({"C": Ca * Cb - Sa * Sb, "S": Sa * Cb + Ca * Sb})
    rel2 = {"n2": REL["n2"], "Sa": Poly.const(1) - Ca ** 2, "Sb": Poly.const(1) - Cb ** 2}
    ctx.ob("R17.9", f, "R(a).R(b) - R(a+b)", Ra.mm(Rb).equals(Rab, rel2),
           "R(a) R(b) = R(a+b) for the same axis (angle-addition formulas)", node=f.node)
