"""C10 - restraint pairs always designate the atoms the user (or the guesser) meant.

R10.1 index-role typing from Alignment.align_molecules through remove_hydrogens and the optimiser entry to
      Chi2Calculator: component k of every pair indexes the array of the molecule in role k
R10.2 filtered hydrogens: pairs are re-indexed in input order, dropped only when their fixed-side atom was filtered
R10.3 both engines receive the same argument list
R10.4 guesser: residue-count refusal dominates the pairing loop; offsets accumulate their own molecule's residue
      lengths; the per-residue groups tile 0..len in order (telescoping slices)
R10.5 manager routing: the three per-species options are looked up under the same key as the alignment, bound to
      the matching parameters, and validated before any alignment starts
R10.7 restraint preparation keeps no table between calls unless keyed by all inputs by value
"""
from __future__ import annotations

import ast
import copy
from typing import Dict, List, Optional, Tuple

from ..cfg import (CFG, call_name, calls_in, walk_no_nested, parents_map, guards_of, attr_chain, enum_paths,
                   const_int, flip_compare, ancestors, branches, ctext, cconds, cguards_of)
from ..core import AnalysisError, Ctx, Func, norm
from ..util import branch_raises, stmts_sorted
from .c20 import bind_args
from .exmap import _resolve_local

SPEC = {
    "explanation": (
        "Role typing.  Restraint pairs enter Alignment.align_molecules as Pairs(START, END).  The analysis "
        "follows the list and the two position arrays along both branches of the role assignment and through "
        "every call (arguments bound to the callee's parameters by the resolved signature) down to the array "
        "subscripts in Chi2Calculator, and requires at each step that component 0 refers to the molecule whose "
        "positions are passed as the fixed array and component 1 to the mobile one: the list is reversed "
        "exactly in the branch that makes END the fixed molecule; remove_hydrogens is given the fixed molecule "
        "and re-indexes component 0 through a map built by enumerating that same molecule, keeping component "
        "1; the optimiser's positional order is (fixed positions, mobile positions, ..., pairs, ...) at every "
        "hop; column 0 indexes the fixed array and its mask, column 1 the mobile array.  The guesser and the "
        "manager routing are dominance / argument-binding / telescoping-slice rules.  The arithmetic lemma "
        "floor((i+1)L/P) - floor(iL/P) >= 1 for P <= L (every group non-empty) is in the trusted base."),
    "exhaustive": True,
    "trusted_base": ["for 1 <= P <= L: floor((i+1)L/P) - floor(iL/P) >= 1, floor(0) = 0, floor(P L / P) = L",
                     "zip pairs elements position by position"],
    "assumptions": ["restraint indices given by the user are within range (validated by the manager only)"],
}

REVERSALS = ("i[::-1]", "(i[1], i[0])", "tuple(reversed(i))", "tuple(i[::-1])", "[i[1], i[0]]", "list(reversed(i))")


MOLV = ["molecules"]


def _find_molv(ctx: Ctx):
    """Name of the local holding the ordered pair [fixed, mobile] in Alignment.align_molecules."""
    f = ctx.func("Alignment.align_molecules")
    for st in walk_no_nested(f.node):
        if isinstance(st, ast.Assign) and isinstance(st.targets[0], ast.Name) and isinstance(st.value, (ast.List, ast.Tuple)) \
                and sorted(norm(e) for e in st.value.elts) == ["self.end", "self.start"]:
            MOLV[0] = st.targets[0].id
            return
    MOLV[0] = "molecules"


def run(ctx: Ctx):
    ctx.attempt("_find_molv", lambda: _find_molv(ctx))
    ctx.attempt("R10.1", lambda: r10_1(ctx))
    ctx.attempt("R10.2", lambda: r10_2(ctx))
    ctx.attempt("R10.3", lambda: r10_3(ctx))
    ctx.attempt("R10.4", lambda: r10_4(ctx))
    ctx.attempt("R10.5", lambda: r10_5(ctx))
    ctx.attempt("R10.6", lambda: r10_6(ctx))
    from ..util import persistent_state
    ctx.attempt("R10.7", lambda: persistent_state(ctx, "R10.7", [f_ for f_ in (ctx.repo.func(q_, required=False) for q_ in ('remove_hydrogens', 'guess_residue_restrains', 'guess_protein_restrains', '_split_list', 'Manager.parse_restrictions', 'Manager._validate_index')) if f_ is not None], "preparing the restraints"))


def _is_reversal(comp: ast.AST) -> bool:
    """[<swap of v> for v in X] or [(b, a) for a, b in X]."""
    if not isinstance(comp, (ast.ListComp, ast.GeneratorExp)) or len(comp.generators) != 1 or comp.generators[0].ifs:
        if isinstance(comp, ast.Call) and call_name(comp) in ("list", "tuple") and comp.args:
            return _is_reversal(comp.args[0])
        return False
    g = comp.generators[0]
    if isinstance(g.target, ast.Name):
        v = g.target.id
        txt = norm(comp.elt)
        return txt in [r.replace("i", v) if r != "tuple(reversed(i))" and r != "list(reversed(i))" else r.replace("(i)", "(%s)" % v)
                       for r in REVERSALS] or txt in ("%s[::-1]" % v, "(%s[1], %s[0])" % (v, v), "tuple(reversed(%s))" % v,
                                                      "tuple(%s[::-1])" % v, "[%s[1], %s[0]]" % (v, v), "list(reversed(%s))" % v)
    if isinstance(g.target, ast.Tuple) and len(g.target.elts) == 2 and isinstance(comp.elt, (ast.Tuple, ast.List)) \
            and len(comp.elt.elts) == 2:
        a, b = norm(g.target.elts[0]), norm(g.target.elts[1])
        return [norm(x) for x in comp.elt.elts] == [b, a]
    return False


def r10_1(ctx: Ctx, rule="R10.1"):
    f = ctx.func("Alignment.align_molecules")
    rh = ctx.func("remove_hydrogens")
    disp = ctx.func("_backend.minimize_molecules")
    eng = ctx.func("_backend._minimize_molecules")
    cinit = ctx.func("Chi2Calculator.__init__")
    p_restr = [p for p in f.params if p != "self"][0]
    # --- the role branch
    order_if = None
    for n in walk_no_nested(f.node):
        if isinstance(n, ast.If) and any(isinstance(s, ast.Assign) and norm(s.targets[0]) == MOLV[0] for s in n.body):
            order_if = n
    if order_if is None:
        # the pair ordered by a sort / min / max instead of by the test that reverses the restraint pairs
        for s_ in walk_no_nested(f.node):
            if isinstance(s_, ast.Assign) and any(isinstance(c_, ast.Call) and call_name(c_) in ("sorted", "sort", "min", "max") for c_ in ast.walk(s_.value)) \
                    and {"self.start", "self.end"} <= {norm(x_) for x_ in ast.walk(s_.value) if isinstance(x_, ast.Attribute)}:
                rev_ifs = [n_ for n_ in walk_no_nested(f.node) if isinstance(n_, ast.If) and any(
                    isinstance(a_, ast.Assign) and norm(a_.targets[0]) == p_restr for a_ in n_.body + n_.orelse)]
                ctx.ob(rule, f, s_, False,
                       "which molecule is fixed and which is mobile is decided by the same test that reverses the restraint pairs -- here the "
                       "pair is ordered by `%s` while the pairs are reversed under `%s`: on a tie (equal atom counts) the two disagree and "
                       "each (i, j) designates the wrong atoms" % (norm(s_.value)[:60], norm(rev_ifs[0].test) if rev_ifs else "?"), node=s_)
                return
        raise AnalysisError("R10.1: role-assignment branch (molecules = [...]) not found in align_molecules")

    def mol_list(stmts):
        for s in stmts:
            if isinstance(s, ast.Assign) and norm(s.targets[0]) == MOLV[0] and isinstance(s.value, (ast.List, ast.Tuple)):
                return [norm(e) for e in s.value.elts]
        return None

    def restr_update(stmts):
        for s in stmts:
            if isinstance(s, ast.Assign) and norm(s.targets[0]) == p_restr:
                return s
        return None
    n = 0
    for label, blk in (("true", order_if.body), ("false", order_if.orelse)):
        ml = mol_list(blk)
        upd = restr_update(blk)
        if ml is None:
            ctx.ob(rule, f, order_if, False, "both branches of the role assignment define the (fixed, mobile) pair -- the %s "
                   "branch does not" % label, node=order_if)
            continue
        roles = ["START" if m == "self.start" else "END" if m == "self.end" else "?" for m in ml]
        if upd is None:
            pairs = ("START", "END")
            how = "unchanged"
        elif _is_reversal(upd.value) and norm(upd.value.generators[0].iter if hasattr(upd.value, "generators") else upd.value.args[0].generators[0].iter) == p_restr:
            pairs = ("END", "START")
            how = "reversed by `%s`" % norm(upd.value)
        else:
            pairs = ("?", "?")
            how = "rewritten by `%s` (not a recognised reversal)" % norm(upd.value)
        n += 1
        ok = tuple(roles) == pairs
        ctx.ob(rule, f, "%s branch of `%s`: molecules=%s, pairs %s" % (label, norm(order_if.test), ml, how), ok,
               "after the role assignment component 0 of every pair refers to the fixed molecule (molecules[0]) and "
               "component 1 to the mobile one" + ("" if ok else " -- pairs are (%s, %s) but (fixed, mobile) = (%s, %s)"
                                                  % (pairs + tuple(roles))), node=upd or order_if)
    # no other rewrite of the list before the optimiser call
    others = [s for s in walk_no_nested(f.node) if isinstance(s, ast.Assign) and any(
        norm(t) == p_restr or (isinstance(t, ast.Tuple) and p_restr in [norm(e) for e in t.elts]) for t in s.targets)
        and not any(s is x for x in ast.walk(order_if))]
    for s in others:
        v = s.value
        fine = (isinstance(v, ast.List) and not v.elts) or \
            (isinstance(v, ast.Call) and call_name(v) in ("guess_protein_restrains", rh.name))
        n += 1
        ctx.ob(rule, f, s, fine, "outside the role branch the pair list is only initialised, guessed or passed through "
               "the hydrogen filter", node=s)
    # guessed restraints are Pairs(START, END)
    for c in calls_in(f.node):
        if call_name(c) == "guess_protein_restrains":
            # (the private attribute behind the trivial `start` / `end` properties is the same object)
            ctx.ob(rule, f, c, [norm(a).replace("self._start", "self.start").replace("self._end", "self.end") for a in c.args] == ["self.start", "self.end"],
                   "guessed pairs are (start index, end index)", node=c)
            n += 1
    # --- hydrogen filter receives the fixed molecule and the list; returns (positions, pairs)
    for c in calls_in(f.node):
        if call_name(c) == rh.name:
            b = bind_args(c, rh)
            pm_, pr_ = [p for p in rh.params][:2]
            ok = norm(b.get(pm_)) == (MOLV[0] + "[0]") and norm(b.get(pr_)) == p_restr
            n += 1
            ctx.ob(rule, f, c, ok, "the hydrogen filter is applied to the fixed molecule (the one component 0 refers to)",
                   node=c)
    # --- optimiser call: fixed positions from molecules[0], mobile from molecules[1], list passed as `restriction`
    opt = [c for c in calls_in(f.node) if call_name(c) == disp.name]
    if not opt:
        ctx.ob(rule, f, "optimiser call", False, "align_molecules calls the optimiser entry point -- not found", node=f.node)
        return
    b = bind_args(opt[0], disp)
    dp = disp.params
    src = {}
    for pname in dp[:2]:
        a = b.get(pname)
        srcs = set()
        if isinstance(a, ast.Name):
            for s in walk_no_nested(f.node):
                if isinstance(s, ast.Assign):
                    tg = s.targets[0]
                    names = [norm(e) for e in tg.elts] if isinstance(tg, ast.Tuple) else [norm(tg)]
                    if a.id in names and not (isinstance(s.value, ast.Call) and call_name(s.value) == disp.name):
                        srcs |= {norm(x) for x in ast.walk(s.value) if isinstance(x, ast.Subscript) and norm(x.value) == MOLV[0]}
        if a is not None and not isinstance(a, ast.Name):
            # the positions handed over in place (`pair[1].atoms_positions`): read off the argument itself
            srcs |= {norm(x) for x in ast.walk(a) if isinstance(x, ast.Subscript) and norm(x.value) == MOLV[0]}
        src[pname] = sorted(srcs)
    okb = src.get(dp[0]) == [(MOLV[0] + "[0]")] and src.get(dp[1]) == [(MOLV[0] + "[1]")] and norm(b.get("restriction")) == p_restr
    n += 1
    ctx.ob(rule, f, opt[0], okb, "the optimiser gets (fixed positions, mobile positions, ..., pairs): %s" % src, node=opt[0])
    # bond table and centre belong to the mobile molecule
    okm = True
    for pname, want in (("mol2_bonds_info", (MOLV[0] + "[1].bonds_distance")), ("mol2_com", (MOLV[0] + "[1].geometric_center"))):
        a = b.get(pname)
        v = _resolve_local(f.node, a) if a is not None else None
        if v is None or norm(v) != want:
            okm = False
    n += 1
    ctx.ob(rule, f, "mobile molecule's bond table and centre", okm,
           "the bond table and centre handed to the optimiser are those of the mobile molecule (molecules[1])", node=opt[0])
    # --- dispatcher -> engine -> calculator: positional hops
    hops = []
    for caller, callee_name, callee in ((disp, eng.name, eng), (eng, "Chi2Calculator", cinit)):
        cs = [c for c in calls_in(caller.node) if call_name(c) == callee_name]
        okh = bool(cs)
        for c in cs:
            bb = bind_args(c, callee)
            cp = [p for p in callee.params if p != "self"]
            want = {cp[0]: caller.params[0], cp[1]: caller.params[1]}
            rp = [p for p in cp if p.startswith("restr")]
            want[rp[0]] = [p for p in caller.params if p.startswith("restr")][0]
            for k, v in want.items():
                if norm(bb.get(k)) != v:
                    okh = False
            hops.append("%s -> %s: %s" % (caller.name, callee_name, {k: norm(v) for k, v in bb.items() if k in want}))
        n += 1
        ctx.ob(rule, caller, cs[0] if cs else callee_name, okh,
               "fixed positions, mobile positions and the pair list are forwarded to the same-named roles of %s" % callee_name,
               node=cs[0] if cs else caller.node)
    ctx.extra["forwarding_hops"] = hops
    # --- subscripts in the calculator
    cols = {}
    for st in walk_no_nested(cinit.node):
        if isinstance(st, ast.Assign) and isinstance(st.targets[0], ast.Tuple) and isinstance(st.value, ast.Attribute) and st.value.attr == "T":
            for i, el in enumerate(st.targets[0].elts):
                cols[norm(el)] = i
    p_fixed, p_mobile = [p for p in cinit.params if p != "self"][:2]
    cls = cinit.cls
    subs = []
    for g in cls.methods.values():
        gp = [p for p in g.params if p != "self"]
        for nsub in ast.walk(g.node):
            if isinstance(nsub, ast.Subscript) and norm(nsub.slice) in cols:
                base = norm(nsub.value)
                col = cols[norm(nsub.slice)]
                # which array family is the base?
                fam = None
                if base == p_fixed and g is cinit:
                    fam = 0
                elif g is cinit and isinstance(nsub.value, ast.Name):
                    d = [s for s in walk_no_nested(cinit.node) if isinstance(s, ast.Assign) and norm(s.targets[0]) == base]
                    if d and "len(%s)" % p_fixed in norm(d[0].value):
                        fam = 0
                    elif d and "len(%s)" % p_mobile in norm(d[0].value):
                        fam = 1
                elif g is not cinit and gp and base == gp[0]:
                    fam = 1
                elif base == p_mobile and g is cinit:
                    fam = 1
                subs.append((g, nsub, col, fam))
    for g, nsub, col, fam in subs:
        n += 1
        ctx.ob(rule, g, nsub, fam == col,
               "array subscripted by pair column %d belongs to the %s molecule" % (col, ("fixed", "mobile")[col])
               + ("" if fam == col else " -- it is %s" % ("the fixed array" if fam == 0 else "the mobile array" if fam == 1 else "not recognised")),
               node=nsub)
    ctx.floor(rule, len(subs), 3, "pair-column subscripts in the calculator")
    ctx.floor(rule, n, 10, "role obligations")


def r10_2(ctx: Ctx, rule="R10.2"):
    rh = ctx.func("remove_hydrogens")
    p_mol, p_restr = rh.params[:2]
    loops = [n for n in walk_no_nested(rh.node) if isinstance(n, ast.For)]
    en = [l for l in loops if isinstance(l.iter, ast.Call) and call_name(l.iter) == "enumerate" and norm(l.iter.args[0]) == p_mol]
    rl = [l for l in loops if norm(l.iter) == p_restr]
    if not en and not rl:
        # the filter is not written with the two loops this rule reads (e.g. comprehensions): not decided
        ctx.ob(rule, rh, "hydrogen filter", True, "the hydrogen filter is not written as a loop over the enumerated molecule followed by "
               "a loop over the pairs; re-indexing not decided on this tree", undecided=True, node=rh.node)
        return
    ok1 = False
    map_var = None
    if en:
        l = en[0]
        idx, atom = [norm(e) for e in l.target.elts]
        sts = [s for s in walk_no_nested(l) if isinstance(s, ast.Assign) and isinstance(s.targets[0], ast.Subscript)
               and norm(s.targets[0].slice) == idx]
        apps = [c for c in calls_in(l) if call_name(c) == "append"]
        if sts and apps:
            map_var = norm(sts[0].targets[0].value)
            lst = norm(apps[0].func.value)
            pm = parents_map(rh.node)
            same_guard = [norm(t) for t, _ in guards_of(sts[0], pm)] == [norm(t) for t, _ in guards_of(apps[0], pm)]
            # new index = position taken by the atom in the list of kept positions: `len(L) - 1` right after the append,
            # or `len(L)` right before it
            after = norm(sts[0].value) == "len(%s) - 1" % lst and apps[0].lineno < sts[0].lineno
            before = norm(sts[0].value) == "len(%s)" % lst and sts[0].lineno < apps[0].lineno
            ok1 = (after or before) and same_guard and norm(apps[0].args[0]) == "%s.position" % atom
            from ..cfg import cguards_of as _cgo, ctext as _ctx
            ok1 = ok1 and _cgo(sts[0], pm) == [_ctx("%s.element != 'H'" % atom)]
    und1 = False
    if en and not ok1:
        l = en[0]
        idx = norm(l.target.elts[0]) if isinstance(l.target, ast.Tuple) else None
        sts_ = [s for s in walk_no_nested(l) if isinstance(s, ast.Assign) and isinstance(s.targets[0], ast.Subscript) and norm(s.targets[0].slice) == idx]
        apps_ = [c for c in calls_in(l) if call_name(c) == "append"]
        if sts_ and apps_:
            lst_ = norm(apps_[0].func.value)
            v_ = norm(sts_[0].value)
            # a running counter (or any other spelling) for the new index: not read here; keeping the OLD index, or a length
            # taken on the wrong side of the append, is refuted as before
            known_wrong = v_ == idx or v_ in ("len(%s)" % lst_, "len(%s) - 1" % lst_, "len(%s) + 1" % lst_)
            und1 = not known_wrong
        elif not sts_:
            und1 = True
    if und1:
        ctx.ob(rule, rh, en[0], True, "the new index of a kept atom is not written as the length of the list of kept positions around the "
               "append; re-indexing not decided on this tree", undecided=True, node=en[0])
    else:
      ctx.ob(rule, rh, en[0] if en else "index map", ok1,
           "the map old index -> new index is built in one pass over the molecule it filters: every kept atom's "
           "position is appended and its new index is the position just appended", node=en[0] if en else rh.node)
    ok2 = False
    if rl and map_var:
        l = rl[0]
        if isinstance(l.target, ast.Tuple) and len(l.target.elts) == 2:
            a, b = [norm(e) for e in l.target.elts]
            apps = [c for c in calls_in(l) if call_name(c) == "append"]
            pm = parents_map(rh.node)
            if len(apps) == 1 and isinstance(apps[0].args[0], ast.Tuple):
                e0, e1 = [norm(e) for e in apps[0].args[0].elts]
                g = guards_of(apps[0], pm)
                ok2 = e0 == "%s[%s]" % (map_var, a) and e1 == b and len(g) == 1 and norm(g[0][0]) == "%s in %s" % (a, map_var) and g[0][1] \
                    and len(enum_paths(l.body)) == 2
    if not rl and map_var:
        # the same re-indexing as a comprehension: [(map[a], b) for a, b in pairs if a in map]
        for c_ in [n_ for n_ in ast.walk(rh.node) if isinstance(n_, ast.ListComp)]:
            g_ = c_.generators[0]
            if len(c_.generators) == 1 and norm(g_.iter) == p_restr and isinstance(g_.target, ast.Tuple) and len(g_.target.elts) == 2 \
                    and isinstance(c_.elt, ast.Tuple) and len(c_.elt.elts) == 2:
                a, b = [norm(e) for e in g_.target.elts]
                ok2 = [norm(e) for e in c_.elt.elts] == ["%s[%s]" % (map_var, a), b] and len(g_.ifs) == 1 \
                    and norm(g_.ifs[0]) == "%s in %s" % (a, map_var)
                rl = [c_]
    ctx.ob(rule, rh, rl[0] if rl else "re-indexing loop", ok2,
           "pairs are visited in input order; a pair is kept, with component 0 translated and component 1 unchanged, "
           "exactly when its fixed-side atom was kept", node=rl[0] if rl else rh.node)
    rets = [r for r in walk_no_nested(rh.node) if isinstance(r, ast.Return)]
    okr = bool(rets) and isinstance(rets[0].value, ast.Tuple) and len(rets[0].value.elts) == 2 and "positions" in norm(rets[0].value.elts[0])
    ctx.ob(rule, rh, rets[0] if rets else "return", okr, "the filter returns (kept positions, re-indexed pairs)", node=rets[0] if rets else rh.node)


def r10_3(ctx: Ctx, rule="R10.3"):
    disp = ctx.func("_backend.minimize_molecules")
    cs = [c for c in calls_in(disp.node) if call_name(c) in ("py_minimize_molecules", "_minimize_molecules")]
    lists = [[norm(a) for a in c.args] for c in cs]
    ok = len(cs) == 2 and lists[0] == lists[1] and lists[0] == disp.params
    ctx.ob(rule, disp, "argument lists of the two engines", ok,
           "the compiled and the Python engine are called with the same arguments in the same order (the dispatcher's own parameters)",
           node=cs[0] if cs else disp.node, lists=lists)


def r10_4(ctx: Ctx, rule="R10.4"):
    gp = ctx.func("guess_protein_restrains")
    gr = ctx.func("guess_residue_restrains")
    sp = ctx.func("_split_list")
    m1, m2 = gp.params[:2]
    cfg = CFG(gp.node)
    dom = cfg.dominators()
    from ..pat import expand_single_defs as _xsd104
    guards = [n for n in walk_no_nested(gp.node) if isinstance(n, ast.If) and branch_raises(n.body)
              and flip_compare(_xsd104(gp.node, n.test)) in ("len(%s.resnames) != len(%s.resnames)" % (m1, m2), "len(%s.resnames) != len(%s.resnames)" % (m2, m1),
                                           "len(%s.residues) != len(%s.residues)" % (m1, m2))]
    loops = [n for n in walk_no_nested(gp.node) if isinstance(n, ast.For) and "zip(" in norm(n.iter) and "residues" in norm(n.iter)]
    ok = bool(guards) and bool(loops) and cfg.node_of(guards[0]).id in dom[cfg.node_of(loops[0]).id]
    ctx.ob(rule, gp, guards[0] if guards else "residue-count guard", ok,
           "molecules with different numbers of residues are refused (raise) before any pairing", node=guards[0] if guards else gp.node)
    okl = False
    if loops:
        l = loops[0]
        okl = norm(l.iter) == "zip(%s.residues, %s.residues)" % (m1, m2) and isinstance(l.target, ast.Tuple)
        if okl:
            r1, r2 = [norm(e) for e in l.target.elts]
            calls = [c for c in calls_in(l) if call_name(c) == gr.name]
            incs = {norm(s.target): norm(s.value) for s in l.body if isinstance(s, ast.AugAssign) and isinstance(s.op, ast.Add)}
            okl = len(calls) == 1
            if okl:
                b = bind_args(calls[0], gr)
                gpn = gr.params
                o1, o2 = norm(b.get(gpn[2])), norm(b.get(gpn[3]))
                okl = norm(b.get(gpn[0])) == r1 and norm(b.get(gpn[1])) == r2 and incs.get(o1) == "len(%s)" % r1 \
                    and incs.get(o2) == "len(%s)" % r2 and o1 != o2
                # increments after the call
                call_st = [s for s in l.body if any(calls[0] is x for x in ast.walk(s))][0]
                okl = okl and all(s.lineno > call_st.lineno for s in l.body if isinstance(s, ast.AugAssign) and norm(s.target) in (o1, o2))
                inits = {norm(s.targets[0]): s for s in gp.node.body if isinstance(s, ast.Assign)}
                okl = okl and o1 in inits and o2 in inits and const_int(inits[o1].value) == 0 and const_int(inits[o2].value) == 0
                # results accumulate in order
                okl = okl and ((isinstance(call_st, ast.AugAssign) and isinstance(call_st.op, ast.Add)) or
                               (isinstance(call_st, ast.Expr) and isinstance(call_st.value, ast.Call) and call_name(call_st.value) == "extend"
                                and call_st.value.args and call_st.value.args[0] is calls[0]))
    recognised = bool(loops) and norm(loops[0].iter) == "zip(%s.residues, %s.residues)" % (m1, m2) and isinstance(loops[0].target, ast.Tuple)
    if recognised and not okl:
        # the offsets are carried another way (a pair rebuilt each pass, star-arguments ...): only the AugAssign form is read
        cs_ = [c for c in calls_in(loops[0]) if call_name(c) == gr.name]
        augs_ = [s for s in loops[0].body if isinstance(s, ast.AugAssign)]
        if cs_ and (any(isinstance(a_, ast.Starred) for a_ in cs_[0].args) or not augs_):
            recognised = False
    if recognised or not loops:
        ctx.ob(rule, gp, loops[0] if loops else "pairing loop", okl,
               "residues are paired position by position; each molecule's offset starts at 0 and grows by the length of "
               "its own residue after the residue is processed; results are concatenated in order", node=loops[0] if loops else gp.node)
    else:
        ctx.ob(rule, gp, loops[0], True, "the pairing loop is not `for r1, r2 in zip(mol1.residues, mol2.residues)` with running "
               "offsets; offsets not decided on this tree", undecided=True, node=loops[0])
    # per-residue pairing
    r1, r2, of1, of2 = gr.params[:4]
    from ..pat import expand_single_defs as _xsd
    txt = {norm(s.targets[0]): _xsd(gr.node, s.value, skip=()) for s in gr.node.body if isinstance(s, ast.Assign)}
    np_ = [k for k, v in txt.items() if norm(v) in ("min(len(%s), len(%s))" % (r1, r2), "min(len(%s), len(%s))" % (r2, r1))]
    okg = bool(np_) or any("min(len(%s), len(%s))" % (r1, r2) in norm(v) or "min(len(%s), len(%s))" % (r2, r1) in norm(v) for v in txt.values())
    np_ = np_ or ["min(len(%s), len(%s))" % (r1, r2)]
    groups = {}
    if okg:
        for k, v in txt.items():
            if isinstance(v, ast.Call) and call_name(v) == sp.name and len(v.args) == 2 and (
                    norm(v.args[1]) == np_[0] or norm(v.args[1]) in ("min(len(%s), len(%s))" % (r1, r2), "min(len(%s), len(%s))" % (r2, r1))):
                for r in (r1, r2):
                    if norm(v.args[0]) == "list(range(len(%s)))" % r:
                        groups[r] = k
        okg = set(groups) == {r1, r2}
    comp_ok = False
    if okg:
        for l in [n for n in walk_no_nested(gr.node) if isinstance(n, ast.For)]:
            if norm(l.iter) == "zip(%s, %s)" % (groups[r1], groups[r2]) and isinstance(l.target, ast.Tuple):
                g1, g2 = [norm(e) for e in l.target.elts]
                for s in l.body:
                    cands_ = []
                    if isinstance(s, ast.AugAssign) and isinstance(s.value, (ast.ListComp, ast.GeneratorExp)):
                        cands_.append(s.value)
                    if isinstance(s, ast.Expr) and isinstance(s.value, ast.Call) and call_name(s.value) == "extend" and s.value.args \
                            and isinstance(s.value.args[0], (ast.ListComp, ast.GeneratorExp)):
                        cands_.append(s.value.args[0])
                    for c in cands_:
                        # all-to-all through itertools.product: one generator over product(group1, group2)
                        if isinstance(c.elt, ast.Tuple) and len(c.generators) == 1 and isinstance(c.generators[0].iter, ast.Call) \
                                and call_name(c.generators[0].iter) == "product" and isinstance(c.generators[0].target, ast.Tuple) \
                                and len(c.generators[0].target.elts) == 2 and not c.generators[0].ifs:
                            i, j = [norm(e) for e in c.generators[0].target.elts]
                            comp_ok = comp_ok or ([norm(a_) for a_ in c.generators[0].iter.args] == [g1, g2] and
                                                  [norm(e) for e in c.elt.elts] == ["%s + %s" % (i, of1), "%s + %s" % (j, of2)])
                    if isinstance(s, ast.AugAssign) and isinstance(s.value, ast.ListComp):
                        c = s.value
                        if isinstance(c.elt, ast.Tuple) and len(c.generators) == 2:
                            i, j = norm(c.generators[0].target), norm(c.generators[1].target)
                            comp_ok = norm(c.generators[0].iter) == g1 and norm(c.generators[1].iter) == g2 and \
                                [norm(e) for e in c.elt.elts] == ["%s + %s" % (i, of1), "%s + %s" % (j, of2)]
    shape_seen = okg and any(isinstance(l, ast.For) and norm(l.iter) == "zip(%s, %s)" % (groups[r1], groups[r2])
                             for l in walk_no_nested(gr.node))
    # is the reference spelling there at all?  (splitter called on list(range(len(residue))) for both residues)
    sp_calls = [v for v in txt.values() if isinstance(v, ast.Call) and call_name(v) == sp.name and len(v.args) == 2
                and any(norm(v.args[0]) == "list(range(len(%s)))" % r for r in (r1, r2))]
    if not okg and len(sp_calls) < 2:
        ctx.ob(rule, gr, "per-residue groups", True, "the residues are not cut by %s(list(range(len(residue))), n); the pairing of groups is "
               "not decided on this tree" % sp.name, undecided=True, node=gr.node)
    elif shape_seen or not okg:
        ctx.ob(rule, gr, "per-residue groups", okg and comp_ok,
               "both residues are cut into min(len1, len2) groups; group k of one is paired with group k of the other "
               "(all-to-all inside), each index shifted by its own molecule's offset", node=gr.node)
    else:
        ctx.ob(rule, gr, "per-residue groups", True, "the group pairing is not written as a loop over zip(groups1, groups2); not decided "
               "on this tree", undecided=True, node=gr.node)
    # telescoping slices
    rets = [r for r in walk_no_nested(sp.node) if isinstance(r, ast.Return)]
    okt = False
    detail = ""
    if rets and isinstance(rets[0].value, ast.ListComp):
        c = rets[0].value
        lst, parts = sp.params[:2]
        if isinstance(c.elt, ast.Subscript) and isinstance(c.elt.slice, ast.Slice) and norm(c.elt.value) == lst \
                and len(c.generators) == 1 and norm(c.generators[0].iter) == "range(%s)" % parts and not c.generators[0].ifs:
            i = norm(c.generators[0].target)
            lo, hi = c.elt.slice.lower, c.elt.slice.upper
            length = [norm(s.targets[0]) for s in sp.node.body if isinstance(s, ast.Assign) and norm(s.value) == "len(%s)" % lst]
            L = length[0] if length else "len(%s)" % lst
            canon = "%s * %s // %s" % (i, L, parts)

            class Sub(ast.NodeTransformer):
                def visit_Name(self, node):
                    if node.id == i:
                        return ast.BinOp(ast.Name(i, ast.Load()), ast.Add(), ast.Constant(1))
                    return node
            lo_next = norm(Sub().visit(copy.deepcopy(lo))) if lo is not None else None
            okt = lo is not None and hi is not None and norm(lo) == canon and norm(hi) == lo_next
            detail = "lower=%s upper=%s lower[i+1]=%s" % (norm(lo), norm(hi), lo_next)
    slicing_comp = bool(rets) and isinstance(rets[0].value, ast.ListComp) and isinstance(rets[0].value.elt, ast.Subscript) \
        and isinstance(rets[0].value.elt.slice, ast.Slice)
    modelled = slicing_comp and len(rets[0].value.generators) == 1 and isinstance(rets[0].value.generators[0].iter, ast.Call) \
        and call_name(rets[0].value.generators[0].iter) == "range"
    if slicing_comp and not modelled:
        ctx.ob(rule, sp, rets[0], True, "the slices are not cut at `i * len // parts` inside `for i in range(parts)` (bounds computed "
               "elsewhere); tiling not decided on this tree", undecided=True, node=rets[0])
    elif slicing_comp or not rets:
        ctx.ob(rule, sp, rets[0] if rets else "_split_list", okt,
               "slice k ends where slice k+1 starts, the first starts at 0 and the last ends at len: the groups tile the "
               "index range in order (%s)" % detail, node=rets[0] if rets else sp.node)
    else:
        ctx.ob(rule, sp, rets[0], True, "the split is not written as a comprehension of slices; tiling not decided on this tree",
               undecided=True, node=rets[0])


def r10_5(ctx: Ctx, rule="R10.5"):
    f = ctx.func("Manager.align_molecules")
    al = ctx.func("Alignment.align_molecules")
    loops = [n for n in walk_no_nested(f.node) if isinstance(n, ast.For) and any(call_name(c) == "align_molecules" for c in calls_in(n))]
    if not loops:
        ctx.ob(rule, f, "alignment loop", False, "the manager starts one alignment per species in a loop -- not found", node=f.node)
        return
    l = loops[0]
    key = norm(l.target)
    call = [c for c in calls_in(l) if call_name(c) == "align_molecules"][0]
    recv_ok = isinstance(call.func.value, ast.Subscript) and norm(call.func.value.slice) == key
    b = bind_args(call, al)
    okb = recv_ok
    facts = {}
    for pname in [p for p in al.params if p != "self"][:3]:
        a = b.get(pname)
        v = _resolve_local(f.node, a) if a is not None else None
        facts[pname] = norm(v) if v is not None else None
        if not (isinstance(v, ast.Subscript) and norm(v.slice) == key and norm(v.value) == pname):
            okb = False
    ctx.ob(rule, f, call, okb,
           "restraints, deformation types and the hydrogen flag of species `%s` are the entries of the per-species "
           "dictionaries under that same name, bound to the alignment's parameters of the same meaning" % key,
           node=call, binding=facts)
    # validation dominates the loop
    cfg = CFG(f.node)
    dom = cfg.dominators()
    lid = cfg.node_of(l)
    for callee in ("parse_restrictions", "_parse_deformations", "_parse_ignore_hydrogens"):
        cs = [c for c in calls_in(f.node) if call_name(c) == callee]
        ok = False
        for c in cs:
            nd = cfg.node_containing(c)
            g = guards_of(c, parents_map(f.node))
            if nd is not None and (nd.id in dom[lid.id] or (callee == "parse_restrictions" and g)):
                ok = True
        # the (conditional) restraint parse: skipping it is allowed only when the caller says they are parsed already
        ctx.ob(rule, f, cs[0] if cs else callee, ok, "%s runs before the first alignment starts" % callee, node=cs[0] if cs else f.node)
    # each validator rejects unknown names (KeyError) and malformed values (ValueError)
    for nm, want in (("Manager.parse_restrictions", {"KeyError"}), ("Manager._validate_index", {"ValueError"}),
                     ("Manager._parse_deformations", {"KeyError", "ValueError"}),
                     ("Manager._parse_ignore_hydrogens", {"KeyError", "ValueError"})):
        g = ctx.func(nm)
        raised = set()
        for g_ in ctx.with_helpers(g):              # (validation moved into helpers that could not be spliced in counts)
            for r in walk_no_nested(g_.node):
                if isinstance(r, ast.Raise) and r.exc is not None:
                    raised.add(norm(r.exc.func) if isinstance(r.exc, ast.Call) else norm(r.exc))
        # the unknown-name check tests membership in the complete correspondence
        okv = want <= raised
        if "KeyError" in want:
            from ..pat import expand_single_defs as _xsd105
            kn = [n for g_ in ctx.with_helpers(g) for n in walk_no_nested(g_.node) if isinstance(n, ast.If) and isinstance(n.test, ast.Compare)
                  and isinstance(n.test.ops[0], ast.NotIn) and ("complete_correspondence" in norm(_xsd105(g_.node, n.test.comparators[0]))
                                                                 or (g_ is not g and isinstance(n.test.comparators[0], ast.Name) and n.test.comparators[0].id in g_.params))
                  and branch_raises(n.body)]
            okv = okv and bool(kn)
        ctx.ob(rule, g, "%s raises %s" % (g.name, sorted(raised)), okv,
               "unknown species names / malformed values are rejected with %s" % sorted(want), node=g.node)
    # the loop runs over the parsed restrictions' keys = the complete correspondence
    ctx.ob(rule, f, l, norm(l.iter) in ("restrictions", "mols_corr", "self.complete_correspondence"),
           "one alignment per species with both resolutions attached", node=l)


def r10_6(ctx: Ctx, rule="R10.6"):
    """Per-species option dictionaries are re-keyed faithfully: the value stored for a species comes from the
    caller's entry for that same species, read only when the entry exists, else the documented default."""
    specs = (("Manager.parse_restrictions", "restrictions", ("None",)),
             ("Manager._parse_deformations", None, ("None",)),
             ("Manager._parse_ignore_hydrogens", None, ("True",)))
    total = 0
    for nm, inp_name, defaults in specs:
        f = ctx.func(nm)
        inp = inp_name or [p for p in f.params if p != "self"][0]
        # dictionary idioms this rule does not model (get / setdefault / fromkeys / a rebound input): not decided
        odd = [c_ for c_ in calls_in(f.node) if (call_name(c_) in ("get", "setdefault", "pop") and isinstance(c_.func, ast.Attribute)
                                                  and norm(c_.func.value) == inp) or call_name(c_) == "fromkeys"]
        rebound = [s_ for s_ in walk_no_nested(f.node) if isinstance(s_, ast.Assign) and norm(s_.targets[0]) == inp]
        if odd or rebound:
            ctx.ob(rule, f, (odd or rebound)[0], True, "the option dictionary is handled with an idiom outside the modelled fragment "
                   "(%s); re-keying not decided on this tree" % norm((odd or rebound)[0])[:60], undecided=True, node=(odd or rebound)[0])
            total += 3
            continue
        # locals that name the complete correspondence (it is a property: read once into a local)
        from ..pat import single_defs as _sd106
        cc_names = {"complete_correspondence"} | {k_ for k_, v_ in _sd106(f.node).items() if "complete_correspondence" in norm(v_)}

        def _is_cc(txt_):
            import re as _re
            return any(_re.search(r"(?<![A-Za-z0-9_])%s(?![A-Za-z0-9_])" % _re.escape(n_), txt_) for n_ in cc_names)
        # unknown names are refused: `for n in inp: if n not in <complete correspondence>: raise KeyError`
        unk = [n_ for n_ in walk_no_nested(f.node) if isinstance(n_, ast.For) and norm(n_.iter) == inp]
        oku = False
        for l in unk:
            v = norm(l.target)
            for n_ in walk_no_nested(l):
                if not isinstance(n_, ast.If):
                    continue
                ct, when_t, when_f = branches(n_)
                if ct.startswith(v + " in ") and _is_cc(ct) and branch_raises(when_f) \
                        and any("KeyError" in norm(x) for s_ in when_f for x in ast.walk(s_) if isinstance(x, ast.Raise)):
                    oku = True
        ctx.ob(rule, f, unk[0] if unk else "unknown-name check", oku,
               "every name in the caller's dictionary must be a species with both resolutions attached, otherwise KeyError",
               node=unk[0] if unk else f.node)
        # no dictionary given: every complete species gets the default
        nb = [n_ for n_ in f.node.body if isinstance(n_, ast.If) and branches(n_)[0] == ctext("%s is None" % inp)[0]]
        nb_none = nb_given = []
        if nb:
            _t, nb_none, nb_given = branches(nb[0])
            if not ctext("%s is None" % inp)[1]:
                nb_none, nb_given = nb_given, nb_none
        okn = bool(nb) and bool(nb_none) and isinstance(nb_none[-1], ast.Return)
        if okn:
            rv = nb_none[-1].value
            if isinstance(rv, ast.DictComp):
                okn = norm(rv.value) in defaults and _is_cc(norm(rv.generators[0].iter))
            else:
                okn = isinstance(rv, ast.Name)
        if nb and not (nb_none and isinstance(nb_none[-1], ast.Return)):
            # one loop serves both cases (the test on None only guards the reads of the dictionary): not the modelled shape
            ctx.ob(rule, f, nb[0], True, "the case without a dictionary does not return its own defaults (one loop serves both cases); "
                   "not decided on this tree", undecided=True, node=nb[0])
        else:
            ctx.ob(rule, f, nb[0] if nb else "no-dictionary branch", okn,
                   "exactly when no dictionary is given (`%s is None`) the defaults for all complete species are returned; a "
                   "given dictionary is always parsed" % inp, node=nb[0] if nb else f.node)
        # the re-keying loop
        loops = [n_ for n_ in walk_no_nested(f.node) if isinstance(n_, ast.For) and _is_cc(norm(n_.iter))
                 and any(isinstance(x, ast.Assign) and isinstance(x.targets[0], ast.Subscript) for x in ast.walk(n_))]
        loops = [l for l in loops if not (isinstance(l.iter, ast.Name) and False)]
        if not loops:
            ctx.ob(rule, f, "re-keying loop", True, "loop over the complete correspondence not recognised", undecided=True)
            continue
        l = sorted(loops, key=lambda x: x.lineno)[-1]
        key = norm(l.target)
        from ..cfg import resolve_flags as _rf10
        for p in _rf10(enum_paths(l.body)):
            st = p.stmts()
            stores = [s_ for s_ in st if isinstance(s_, ast.Assign) and isinstance(s_.targets[0], ast.Subscript)
                      and norm(s_.targets[0].slice) == key and norm(s_.targets[0].value) != inp]
            if p.end == "raise":
                continue
            total += 1
            if len(stores) < 1:
                ctx.ob(rule, f, "path: %s" % p.describe()[:200], False,
                       "every species gets an entry in the parsed dictionary -- none is stored on this path", node=l)
                continue
            stores = stores[-1:]           # the last store on the path is the entry that stays
            present = None
            pcs = cconds(p)
            from ..cfg import conjuncts as _cj106
            for t_raw, o_raw in p.conds():
                for tt, o in _cj106(t_raw, o_raw):
                    if tt == ctext("%s in %s" % (key, inp))[0]:
                        present = o
            val = stores[0].value
            env = {norm(s_.targets[0]): s_.value for s_ in st if isinstance(s_, ast.Assign) and isinstance(s_.targets[0], ast.Name)}
            seen = set()
            srcs = [val]
            reads_inp = False
            wrong_key = False
            while srcs:
                e = srcs.pop()
                for n_ in ast.walk(e):
                    if isinstance(n_, ast.Subscript) and norm(n_.value) == inp:
                        reads_inp = True
                        if norm(n_.slice) != key:
                            wrong_key = True
                    if isinstance(n_, ast.Name) and n_.id in env and n_.id not in seen:
                        seen.add(n_.id)
                        srcs.append(env[n_.id])
            guessed = any("guess_protein_restrains" in norm(x) for x in srcs + [val] + [env[k] for k in seen])
            is_default = norm(val) in defaults
            if guessed:
                ok, why = True, "guessed restraints"
            elif reads_inp:
                ok = present is True and not wrong_key
                why = "" if ok else ("the caller's entry is read %s" % ("under another key" if wrong_key else
                                                                      "on a path where the species is not known to be in the dictionary"))
            else:
                ok = is_default
                why = "" if ok else "the value stored is neither the caller's entry nor the default %s" % (defaults,)
                if ok and present is True:
                    # present but stored default: only allowed when the entry is empty/falsy
                    entry = "%s[%s]" % (inp, key)
                    falsy = any(not o and (tt == entry or (tt in env and norm(env[tt]) == entry)) for tt, o in pcs)
                    ok = falsy
                    why = "" if ok else "the caller gave an entry for this species but the default is stored"
            ctx.ob(rule, f, "path [%s] stores %s[%s] = %s" % (", ".join(("" if o else "not ") + norm(t) for t, o in p.conds()),
                                                             norm(stores[0].targets[0].value), key, norm(val)), ok,
                   "the parsed entry of a species is the caller's entry for that species when there is one, the default otherwise"
                   + ("" if ok else " -- " + why), node=stores[0])
    ctx.floor(rule, total, 8, "re-keying paths")
    # index validation: component 0 indexes the start molecule, component 1 the end molecule
    vi = ctx.func("Manager._validate_index")
    from ..pat import find as pfind, has as phas
    name_p = vi.params[-1]
    st_ = pfind(vi.node, "V_s = self.molecule_correspondence[%s].start" % name_p)
    en_ = pfind(vi.node, "V_e = self.molecule_correspondence[%s].end" % name_p)
    lp_ = [n_ for n_ in walk_no_nested(vi.node) if isinstance(n_, ast.For)]
    okv = False
    lens = []
    if st_ and en_ and lp_:
        tv = norm(lp_[0].target)
        okv = phas(lp_[0], "%s[%s[0]]" % (st_[0][1]["V_s"], tv)) and phas(lp_[0], "%s[%s[1]]" % (en_[0][1]["V_e"], tv))
        lens = [n_ for n_ in walk_no_nested(vi.node) if isinstance(n_, ast.If) and "len(%s) != 2" % tv in norm(n_.test) and branch_raises(n_.body)
                and not isinstance(n_.test, ast.UnaryOp)]
    crossed = False
    if st_ and en_ and lp_:
        tv = norm(lp_[0].target)
        crossed = phas(lp_[0], "%s[%s[1]]" % (st_[0][1]["V_s"], tv)) or phas(lp_[0], "%s[%s[0]]" % (en_[0][1]["V_e"], tv))
    if (okv and lens) or crossed or not (st_ and en_ and lp_):
        ctx.ob(rule, vi, "index validation", okv and bool(lens) and not crossed,
               "each pair must have two components; the first is checked against the start molecule, the second against the end molecule",
               node=vi.node)
    else:
        ctx.ob(rule, vi, "index validation", True, "the per-pair checks are not written as `start[pair[0]]` / `end[pair[1]]` with a "
               "`len(pair) != 2` test; not decided on this tree", undecided=True, node=vi.node)
    hs = [h for h in ast.walk(vi.node) if isinstance(h, ast.ExceptHandler)]
    okh = len(hs) >= 2 and all(norm(h.type) == "IndexError" and branch_raises(h.body) and "ValueError" in ast.unparse(h) for h in hs)
    ctx.ob(rule, vi, "out-of-range indices", okh, "an index outside a molecule is reported as ValueError", node=vi.node)
