"""Rules on ExchangeMap shared by C01, C02, C03 (and used by C04/C05)."""
from __future__ import annotations

import ast
from typing import Dict, List, Optional, Set, Tuple

from ..cfg import (CFG, call_name, calls_in, walk_no_nested, parents_map, guards_of, attr_chain,
                   enum_paths, const_int, flip_compare, enclosing_stmt, ancestors)
from ..core import AnalysisError, Ctx, Func, norm
from ..util import stmts_sorted, branch_raises
from . import frames

COORD_ATTRS = {"position", "atoms_positions", "geometric_center", "x", "y", "z", "distance_to",
               "distance_to_zero", "bonds_distance"}


class EM:
    """Anchors of the ExchangeMap class, by name first and by role second."""

    def __init__(self, ctx: Ctx):
        self.ctx = ctx
        self.cls = ctx.repo.cls("ExchangeMap")
        m = self.cls.methods
        self.init = m.get("__init__")
        self.call = m.get("__call__")
        if self.init is None or self.call is None:
            raise AnalysisError("ExchangeMap.__init__/__call__ not found")
        self.frames_attr = "self._refsystems"
        self.equiv_attr = "self._equivalences"
        self.coords_attr = "self._target_coordinates"
        for a in (self.frames_attr, self.equiv_attr, self.coords_attr):
            if not any(attr_chain(n) == a for n in ast.walk(self.init.node) if isinstance(n, ast.Attribute)):
                raise AnalysisError("ExchangeMap state attribute %s is not initialised in __init__" % a)

        def role(pred, *names):
            for n in names:
                if n in m:
                    return m[n]
            for f in m.values():
                if pred(f):
                    return f
            raise AnalysisError("ExchangeMap method with role %s not found" % (names,))
        def callees(f: Func):
            return [m[c.func.attr] for c in calls_in(f.node) if isinstance(c.func, ast.Attribute) and norm(c.func.value) == "self"
                    and c.func.attr in m and m[c.func.attr] is not f]

        def reads(f: Func, attr: str) -> bool:
            return any(isinstance(n, ast.Attribute) and attr_chain(n) == attr for n in ast.walk(f.node))

        def iterates(f: Func, attr: str) -> bool:
            return any((isinstance(n, ast.For) and attr_chain(n.iter) == attr) or
                       (isinstance(n, ast.comprehension) and attr_chain(n.iter) == attr) for n in ast.walk(f.node))
        # roles are found by name first and by what the method does second (so that a renamed private helper is still
        # the same anchor): the map builder stores the equivalences; of its two helpers the one that ranges over the frame
        # table is the nearest-anchor search and the other the projection; __call__ calls the recomputation (with the
        # molecule) and the restoration (which reads the stored projections and calls the point restoration)
        self.make_map = role(lambda f: self._stores(f, self.equiv_attr), "_make_map")
        mm_callees = callees(self.make_map)
        self.closest = role(lambda f: f in mm_callees and iterates(f, self.frames_attr), "_find_closest_ref")
        self.project = role(lambda f: f in mm_callees and f is not self.closest and reads(f, self.frames_attr), "_proyect_point", "_project_point")
        call_callees = callees(self.call)
        self.restore_mol = role(lambda f: f in call_callees and (reads(f, self.coords_attr) or reads(f, self.equiv_attr)), "_restore_molecule")
        self.restore_point = role(lambda f: f in callees(self.restore_mol) and reads(f, self.frames_attr), "_restore_point")
        self.recompute = role(lambda f: f in call_callees and f is not self.restore_mol and f is not self.make_map, "_calculate_refsystems")
        self.recompute_general = m.get("_calculate_refsystems_general")
        if self.recompute_general is None:
            gen = [f for f in callees(self.recompute) if self._stores(f, self.frames_attr)]
            self.recompute_general = gen[0] if gen else self.recompute
        for f in (self.init, self.call, self.recompute, self.recompute_general, self.make_map, self.closest,
                  self.project, self.restore_point, self.restore_mol):
            ctx.seen(f)
        # slots of the (frame, origin) pair returned by the frame builder
        fb = frames.frame_func(ctx)
        self.frame_slot, self.origin_slot = 0, 1
        for n in ast.walk(fb.node):
            if isinstance(n, ast.Return) and isinstance(n.value, ast.Tuple) and len(n.value.elts) == 2:
                if isinstance(n.value.elts[1], ast.Tuple) and not isinstance(n.value.elts[0], ast.Tuple):
                    self.frame_slot, self.origin_slot = 1, 0
        self.fb = fb

    @staticmethod
    def _stores_in(node: ast.AST, attr: str) -> bool:
        return any(isinstance(s, ast.Assign) and isinstance(s.targets[0], ast.Subscript)
                   and attr_chain(s.targets[0].value) == attr for s in ast.walk(node))

    @staticmethod
    def _stores(f: Func, attr: str) -> bool:
        return any(isinstance(s, ast.Assign) and isinstance(s.targets[0], ast.Subscript)
                   and attr_chain(s.targets[0].value) == attr for s in walk_no_nested(f.node))

    def call_path(self) -> List[Func]:
        """Methods of the class reachable from __call__ (by self.<m>(...) calls)."""
        seen, todo = [], [self.call]
        while todo:
            f = todo.pop()
            if f in seen:
                continue
            seen.append(f)
            for c in calls_in(f.node):
                if isinstance(c.func, ast.Attribute) and norm(c.func.value) == "self" and c.func.attr in self.cls.methods:
                    todo.append(self.cls.methods[c.func.attr])
        return seen


_DEFS = {}


def _resolve_local(fn: ast.AST, e: ast.AST, depth=4) -> ast.AST:
    """Follow a local name, at its use site, to its unique reaching definition's expression."""
    key = id(fn)
    if key not in _DEFS:
        cfg = CFG(fn)
        params = [a.arg for a in fn.args.posonlyargs + fn.args.args + fn.args.kwonlyargs] if hasattr(fn, "args") else []
        _DEFS[key] = (cfg, cfg.reaching_defs(params), fn)
    cfg, rd, _ = _DEFS[key]
    while isinstance(e, ast.Name) and depth:
        node = cfg.node_containing(e)
        if node is None:
            return e
        defs = rd.at(node, e.id)
        if len(defs) != 1 or defs[0].ast is None:
            return e
        d = defs[0].ast
        if isinstance(d, ast.Assign) and len(d.targets) == 1 and isinstance(d.targets[0], ast.Name) \
                and d.targets[0].id == e.id:
            e = d.value
        elif isinstance(d, ast.Assign) and len(d.targets) == 1 and isinstance(d.targets[0], ast.Tuple) \
                and isinstance(d.value, ast.Tuple) and len(d.value.elts) == len(d.targets[0].elts):
            for t_, v_ in zip(d.targets[0].elts, d.value.elts):
                if isinstance(t_, ast.Name) and t_.id == e.id:
                    e = v_
                    break
            else:
                return e
        else:
            return e
        depth -= 1
    return e


def _slot_of(e: ast.AST, em: EM) -> Optional[Tuple[int, str]]:
    """(slot index, key text) if e is self._refsystems[key][slot] (possibly wrapped in np.array)."""
    if isinstance(e, ast.Call) and call_name(e) in ("array", "asarray") and e.args:
        e = e.args[0]
    if isinstance(e, ast.Subscript) and isinstance(e.value, ast.Subscript) \
            and attr_chain(e.value.value) == em.frames_attr:
        k = const_int(e.slice)
        if k is not None:
            return k, norm(e.value.slice)
    return None


def _dot_operands(fn: ast.AST, e: ast.AST):
    """(left, right) operand ASTs of a matrix product expression, with transposition flags stripped."""
    if isinstance(e, ast.Call) and call_name(e) in ("dot", "matmul"):
        if len(e.args) == 2 and norm(e.func).startswith(("np.", "numpy.")):
            return e.args[0], e.args[1]
        if len(e.args) == 1 and isinstance(e.func, ast.Attribute):
            return e.func.value, e.args[0]
    if isinstance(e, ast.BinOp) and isinstance(e.op, ast.MatMult):
        return e.left, e.right
    return None


def _strip_T(e: ast.AST) -> Tuple[ast.AST, bool]:
    t = False
    while True:
        if isinstance(e, ast.Attribute) and e.attr == "T":
            e, t = e.value, not t
        elif isinstance(e, ast.Call) and call_name(e) == "transpose" and e.args:
            e, t = e.args[0], not t
        else:
            return e, t


def find_product(fn: ast.AST, em: EM):
    """Locate the frame product in a method: returns dict(side, transposed, key, other, node)."""
    for n in ast.walk(fn):
        ops = _dot_operands(fn, n)
        if not ops:
            continue
        for side, (a, b) in (("L", ops), ("R", (ops[1], ops[0]))):
            a0, tr = _strip_T(a)
            a1 = _resolve_local(fn, a0)
            a1, tr2 = _strip_T(a1)
            sl = _slot_of(a1, em)
            if sl is not None and sl[0] == em.frame_slot:
                return {"side": side, "transposed": tr != tr2, "key": sl[1], "other": b, "node": n}
    return None


# ---------------------------------------------------------------------------
def table_entries(ctx: Ctx, rule="R1.2"):
    """Every entry written into the frame table is the frame builder's own result (axes, origin): projection and
    restoration then refer to the origin the axes were built about - the anchor atom itself."""
    em = EM(ctx)
    fbn = em.fb.name
    n = 0
    for g in dict.fromkeys([em.recompute, em.recompute_general] + [f_ for f_ in em.call_path()]):
        for s_ in walk_no_nested(g.node):
            if not (isinstance(s_, ast.Assign) and isinstance(s_.targets[0], ast.Subscript) and attr_chain(s_.targets[0].value) == em.frames_attr):
                continue
            n += 1
            # inside the per-anchor loop the entry is rewritten for every anchor: nothing but the anchor test guards it
            loop_ = [a_ for a_ in ancestors(s_, parents_map(g.node)) if isinstance(a_, ast.For)]
            if loop_:
                from ..cfg import cguards_of as _cg
                gl_ = _cg(s_, parents_map(loop_[0]))
                extra_ = [t_ for t_, p_ in gl_ if "len(" not in t_ or ".bonds" not in t_]
                if extra_:
                    ctx.ob(rule, g, s_, False, "the frame of every anchor is recomputed from the argument on every call -- here the entry is "
                           "rewritten only under `%s`: a frame left by an earlier call can survive (its axes depend on the neighbours too)"
                           % " and ".join(extra_)[:120], node=s_)
                    continue
            v = _resolve_local(g.node, s_.value)
            if isinstance(v, ast.Call) and call_name(v) == fbn:
                ctx.ob(rule, g, s_, True, "the entry stored is the frame builder's result (axes and the origin they were built about)", node=s_)
                continue
            if isinstance(v, ast.Tuple) and len(v.elts) == 2:
                org = _resolve_local(g.node, v.elts[em.origin_slot])
                axes = _resolve_local(g.node, v.elts[em.frame_slot])
                org_txt = norm(org)

                def from_builder(e_, slot):
                    # <builder result>[slot]
                    if isinstance(e_, ast.Subscript) and const_int(e_.slice) == slot:
                        b_ = _resolve_local(g.node, e_.value)
                        return isinstance(b_, ast.Call) and call_name(b_) == fbn
                    return False
                # tuple-unpacked builder result: `axes, origin = builder(...)`
                unpack = [a_ for a_ in walk_no_nested(g.node) if isinstance(a_, ast.Assign) and isinstance(a_.targets[0], ast.Tuple)
                          and isinstance(a_.value, ast.Call) and call_name(a_.value) == fbn and len(a_.targets[0].elts) == 2]
                names = {norm(a_.targets[0].elts[em.origin_slot]): "origin" for a_ in unpack}
                names.update({norm(a_.targets[0].elts[em.frame_slot]): "axes" for a_ in unpack})
                org_ok = from_builder(org, em.origin_slot) or names.get(norm(v.elts[em.origin_slot])) == "origin"
                other_point = any(isinstance(x_, ast.Call) and call_name(x_) in ("mean", "average", "median") for x_ in ast.walk(org)) \
                    or "geometric_center" in org_txt or "center" in org_txt.lower() and not org_ok
                if org_ok:
                    ctx.ob(rule, g, s_, True, "the entry stored pairs the builder's axes with the builder's origin", node=s_)
                elif other_point:
                    ctx.ob(rule, g, s_, False, "the origin stored with the axes is the origin the frame builder used (the anchor atom's "
                           "position) -- here it is `%s`: mapped atoms are then placed relative to another point and their distance to the "
                           "anchor is no longer scaled by s" % org_txt[:80], node=s_)
                else:
                    ctx.ob(rule, g, s_, True, "the origin stored with the axes is not in a recognised form; not decided on this tree",
                           undecided=True, node=s_)
                continue
            ctx.ob(rule, g, s_, True, "the value stored into the frame table is not in a recognised form; not decided on this tree",
                   undecided=True, node=s_)
    return n


def built_at_construction(ctx: Ctx, rule="R1.2"):
    """The projections are those of the target as it is when the map is constructed: __init__ builds the map on every
    path, and nothing on the call path builds it again (a lazily built map sees whatever happened to the construction
    molecules in between)."""
    em = EM(ctx)
    cfg = CFG(em.init.node)
    dom = cfg.dominators()
    calls = [c for c in calls_in(em.init.node) if call_name(c) == em.make_map.name]
    ok = bool(calls) and cfg.node_containing(calls[0]) is not None and cfg.node_containing(calls[0]).id in dom[cfg.exit.id]
    ctx.ob(rule, em.init, calls[0] if calls else "map construction", ok,
           "the constructor computes the anchor of every target atom and its projection (on every path)"
           + ("" if ok else " -- the map builder is not called unconditionally in __init__"), node=calls[0] if calls else em.init.node)
    late = [(g, c) for g in em.call_path() for c in calls_in(g.node) if call_name(c) == em.make_map.name]
    ctx.ob(rule, em.call, late[0][1] if late else "map builder on the call path: none", not late,
           "applying the map never rebuilds it" + ("" if not late else " -- `%s` in %s builds the projections at first use, from the "
           "molecules as they are then" % (norm(late[0][1]), late[0][0].name)), node=late[0][1] if late else em.call.node)


def r1_2(ctx: Ctx, rule="R1.2"):
    table_entries(ctx, rule)
    built_at_construction(ctx, rule)
    em = EM(ctx)
    pj = find_product(em.project.node, em)
    rs = find_product(em.restore_point.node, em)
    if pj is None or rs is None:
        ctx.ob(rule, em.project if pj is None else em.restore_point, "frame product", True,
               "the frame product is not written as a dot/matmul of the stored frame; not decided on this tree",
               undecided=True)
        return
    # projection: frame applied to (point - origin): E.(p - o) <=> frame on the left, or transposed on the right
    okp = (pj["side"], pj["transposed"]) in (("L", False), ("R", True))
    other = _resolve_local(em.project.node, pj["other"])
    diff_ok = False
    org_key = None
    if isinstance(other, ast.BinOp) and isinstance(other.op, ast.Sub):
        o = _resolve_local(em.project.node, other.right)
        sl = _slot_of(o, em)
        diff_ok = sl is not None and sl[0] == em.origin_slot and "position" in norm(other.left)
        org_key = sl[1] if sl else None
    ctx.ob(rule, em.project, pj["node"], okp and diff_ok and org_key == pj["key"],
           "projection is frame . (atom position - frame origin): rows of the frame dotted with the offset, "
           "frame and origin taken from the same entry"
           + ("" if okp else " -- the frame is applied as %s%s operand" % ("transposed " if pj["transposed"] else "", {"L": "left", "R": "right"}[pj["side"]]))
           + ("" if diff_ok else " -- the projected vector is not (position - stored origin)"), node=pj["node"],
           frame_key=pj["key"], origin_key=org_key)
    # restoration: o + c . E  <=> frame on the right, or transposed on the left
    okr = (rs["side"], rs["transposed"]) in (("R", False), ("L", True))
    # the product is added to the origin of the same entry
    add_ok, okey = False, None
    pm = parents_map(em.restore_point.node)
    par = pm.get(id(rs["node"]))
    cand = par
    if isinstance(par, ast.Assign):
        # product assigned to a name which is then added
        name = norm(par.targets[0])
        for n in ast.walk(em.restore_point.node):
            if isinstance(n, ast.BinOp) and isinstance(n.op, ast.Add) and name in (norm(n.left), norm(n.right)):
                cand = n
                rs_node_txt = name
    if isinstance(cand, ast.BinOp) and isinstance(cand.op, ast.Add):
        for x in (cand.left, cand.right):
            o = _resolve_local(em.restore_point.node, x)
            sl = _slot_of(o, em)
            if sl is not None and sl[0] == em.origin_slot:
                add_ok, okey = True, sl[1]
    ctx.ob(rule, em.restore_point, rs["node"], okr and add_ok and okey == rs["key"],
           "restoration is origin + projection . frame (the transpose of the projection), with frame and origin "
           "of the same entry"
           + ("" if okr else " -- the frame is applied as %s%s operand: that is not the transpose of the projection"
              % ("transposed " if rs["transposed"] else "", {"L": "left", "R": "right"}[rs["side"]]))
           + ("" if add_ok else " -- the stored origin of the entry is not added back"), node=rs["node"],
           frame_key=rs["key"], origin_key=okey)
    # the projection passed to the restore is the stored one, under the atom's own key
    rm = em.restore_mol
    calls = [c for c in calls_in(rm.node) if call_name(c) == em.restore_point.name]
    ok = False
    if calls and len(calls[0].args) == 2:
        a0 = _resolve_local(rm.node, calls[0].args[0])
        a1 = _resolve_local(rm.node, calls[0].args[1])
        ok = isinstance(a0, ast.Subscript) and attr_chain(a0.value) == em.equiv_attr \
            and isinstance(a1, ast.Subscript) and attr_chain(a1.value) == em.coords_attr \
            and norm(a0.slice) == norm(a1.slice)
    ctx.ob(rule, rm, calls[0] if calls else "restore call", ok,
           "each atom is restored from its own stored projection in the frame of its own anchor", node=calls[0] if calls else rm.node)
    # make_map stores anchor and projection under the atom's own key, projection computed with that anchor
    mm = em.make_map
    st = {attr_chain(s.targets[0].value): s for s in walk_no_nested(mm.node) if isinstance(s, ast.Assign)
          and isinstance(s.targets[0], ast.Subscript) and attr_chain(s.targets[0].value) in (em.equiv_attr, em.coords_attr)}
    if len(st) != 2:
        ctx.ob(rule, mm, "anchor/projection bookkeeping", True, "anchor and projection are not recorded by two keyed stores in one "
               "pass over the target; bookkeeping not decided on this tree", undecided=True, node=mm.node)
        return
    okm = len(st) == 2 and norm(st[em.equiv_attr].targets[0].slice) == norm(st[em.coords_attr].targets[0].slice)
    if okm:
        anc = norm(st[em.equiv_attr].value)
        pc = _resolve_local(mm.node, st[em.coords_attr].value)
        okm = isinstance(pc, ast.Call) and call_name(pc) == em.project.name and len(pc.args) == 2 and norm(pc.args[0]) == anc
        fc = _resolve_local(mm.node, st[em.equiv_attr].value)
        okm = okm and isinstance(fc, ast.Call) and call_name(fc) == em.closest.name and norm(fc.args[0]) == norm(pc.args[1])
    ctx.ob(rule, mm, "anchor/projection bookkeeping", okm,
           "for every target atom the anchor found for it is the one it is projected with, and both are stored "
           "under that atom's key", node=mm.node)


def r1_3(ctx: Ctx, rule="R1.3"):
    em = EM(ctx)
    funcs = [em.project, em.make_map, em.restore_point, em.restore_mol, em.call, em.recompute, em.recompute_general]
    uses = []
    for f in dict.fromkeys(funcs):
        pm = parents_map(f.node)
        for n in ast.walk(f.node):
            if isinstance(n, ast.Attribute) and attr_chain(n) == "self.scale_factor" and isinstance(n.ctx, ast.Load):
                par = pm.get(id(n))
                mult = (isinstance(par, ast.BinOp) and isinstance(par.op, ast.Mult)) or \
                    (isinstance(par, ast.AugAssign) and isinstance(par.op, ast.Mult) and par.value is n)
                uses.append((f, n, mult, norm(par)))
    ok = len(uses) == 1 and uses[0][2]
    # the single scaled quantity must be the projection (in project) or the product (in restore)
    where = uses[0][0].name if uses else None
    ok = ok and where in (em.project.name, em.restore_point.name)
    ctx.ob(rule, uses[0][0] if uses else em.project, "uses of scale_factor: %s" % [(u[0].name, u[3]) for u in uses], ok,
           "along project -> store -> restore the scale factor occurs exactly once, as a multiplicative factor of "
           "the frame coordinates", node=uses[0][1] if uses else em.project.node)
    if uses and uses[0][0] is em.project:
        # what is multiplied is the projected vector, and it is what the function returns
        rets = [n for n in walk_no_nested(em.project.node) if isinstance(n, ast.Return)]
        okr = len(rets) == 1 and any(x is uses[0][1] for x in ast.walk(rets[0])) or \
            (len(rets) == 1 and isinstance(rets[0].value, ast.Name))
        ctx.ob(rule, em.project, rets[0] if rets else "return", bool(okr),
               "the scaled projection is what is stored", node=rets[0] if rets else em.project.node)
    st = [s for s in walk_no_nested(em.init.node) if isinstance(s, ast.Assign) and attr_chain(s.targets[0]) == "self.scale_factor"]
    ctx.ob(rule, em.init, st[0] if st else "scale_factor store", bool(st) and norm(st[0].value) in em.init.params,
           "the factor used is the constructor's argument", node=st[0] if st else em.init.node)


ANCHOR_OK = {"2 <= len(atom.bonds)", "1 < len(atom.bonds)"}


def r1_4(ctx: Ctx, rule="R1.4"):
    em = EM(ctx)
    g = em.recompute_general
    loops = [n for n in walk_no_nested(g.node) if isinstance(n, ast.For)]
    tests = [n for l in loops for n in walk_no_nested(l) if isinstance(n, ast.If) and "bonds" in norm(n.test)]
    ok = False
    txt_ok = False
    txt = ""
    if tests:
        t = tests[0].test
        txt = flip_compare(t)
        var = norm(loops[0].target)
        ok = txt in ("2 <= len(%s.bonds)" % var, "1 < len(%s.bonds)" % var)
        stores_inside = any(isinstance(s, ast.Assign) and isinstance(s.targets[0], ast.Subscript)
                            and attr_chain(s.targets[0].value) == em.frames_attr for s in walk_no_nested(tests[0]))
        txt_ok = ok
        ok = ok and stores_inside and norm(loops[0].iter) in g.params
    if tests and txt_ok and not ok:
        # the right predicate, but what it guards is not a store into the frame table (frames collected elsewhere first)
        ctx.ob(rule, g, tests[0], True, "the anchor predicate is the expected one but it does not guard a store into the frame table "
               "directly; which atoms get a frame is not decided on this tree", undecided=True, node=tests[0])
    else:
        ctx.ob(rule, g, tests[0] if tests else "anchor predicate", ok,
               "anchors are exactly the atoms with at least two bonded neighbours (normalised test: %s)" % txt,
               node=tests[0] if tests else g.node)
    # neighbours: closest_atoms() -> sorted(bonds)[:2]; used in order (anchor, n1, n2)
    ca = ctx.func("AtomTop.closest_atoms")
    rets = [n for n in walk_no_nested(ca.node) if isinstance(n, ast.Return)]
    okc = False
    if len(rets) == 1:
        from ..pat import expand_single_defs as _xsd2
        v = _xsd2(ca.node, rets[0].value)
        natoms = [p for p in ca.params if p != "self"]
        default = ca.node.args.defaults[-1] if ca.node.args.defaults else None
        if isinstance(v, ast.Subscript) and isinstance(v.slice, ast.Slice) and v.slice.lower is None \
                and isinstance(v.value, ast.Call) and call_name(v.value) == "sorted" and norm(v.value.args[0]) == "self.bonds" \
                and not v.value.keywords and natoms and norm(v.slice.upper) == natoms[0]:
            okc = True
        if isinstance(v, ast.Call) and call_name(v) == "nsmallest" and len(v.args) == 2 and norm(v.args[1]) == "self.bonds":
            okc = True
        okc = okc and default is not None and const_int(default) == 2
    ctx.ob(rule, ca, rets[0] if rets else "closest_atoms", okc,
           "the frame neighbours are the two lowest-numbered bonded atoms (ascending order of the bond set, first two)",
           node=rets[0] if rets else ca.node)
    call = [c for c in calls_in(g.node) if call_name(c) == "closest_atoms"]
    okn = False
    read_ = False                    # were the three points read off the code?
    two_explicit = bool(call) and not call[0].keywords and len(call[0].args) == 1 and const_int(call[0].args[0]) == 2
    if call and ((not call[0].args and not call[0].keywords) or two_explicit):
        # ind1, ind2 = atom.closest_atoms(); positions = [atom.position, molecule[ind1].position, molecule[ind2].position]
        fb_calls = [c for c in calls_in(g.node) if call_name(c) == em.fb.name]
        if fb_calls:
            arg = _resolve_local(g.node, fb_calls[0].args[0])
            if isinstance(arg, (ast.List, ast.Tuple)) and len(arg.elts) == 3:
                var = norm(loops[0].target)
                mol = norm(loops[0].iter)
                unpack = [s for s in walk_no_nested(g.node) if isinstance(s, ast.Assign) and s.value is call[0]
                          and isinstance(s.targets[0], ast.Tuple) and len(s.targets[0].elts) == 2]
                if unpack:
                    i1, i2 = [norm(e) for e in unpack[0].targets[0].elts]
                    def expand(e):
                        e2 = e
                        if isinstance(e, ast.Attribute) and e.attr == "position":
                            base = e.value
                            if isinstance(base, ast.Name):
                                # neighbour1, neighbour2 = (molecule[ind1], molecule[ind2])
                                for s in walk_no_nested(g.node):
                                    if isinstance(s, ast.Assign) and isinstance(s.targets[0], ast.Tuple) and isinstance(s.value, ast.Tuple):
                                        for t_, v_ in zip(s.targets[0].elts, s.value.elts):
                                            if norm(t_) == base.id:
                                                return norm(v_) + ".position"
                                    if isinstance(s, ast.Assign) and norm(s.targets[0]) == base.id and not isinstance(s.targets[0], ast.Tuple):
                                        return norm(s.value) + ".position"
                            return norm(e)
                        return norm(e2)
                    got = [expand(e) for e in arg.elts]
                    read_ = True
                    okn = got == ["%s.position" % var, "%s[%s].position" % (mol, i1), "%s[%s].position" % (mol, i2)]
                    key = [s for s in walk_no_nested(g.node) if isinstance(s, ast.Assign) and isinstance(s.targets[0], ast.Subscript)
                           and attr_chain(s.targets[0].value) == em.frames_attr]
                    okn = okn and bool(key) and norm(key[0].targets[0].slice) == "hash(%s)" % var
    if call and (call[0].args or call[0].keywords) and not two_explicit:
        read_ = True                 # closest_atoms(n) with n other than 2: refuted as before
    if not call:
        # no call of closest_atoms at all: if the neighbour indices are chosen by looking at coordinates (distances), the frame
        # neighbours depend on the conformation - not the two lowest-numbered bonded atoms
        fb_calls = [c for c in calls_in(g.node) if call_name(c) == em.fb.name]
        arg = _resolve_local(g.node, fb_calls[0].args[0]) if fb_calls and fb_calls[0].args else None
        if isinstance(arg, (ast.List, ast.Tuple)) and len(arg.elts) == 3:
            idx_names = set()
            for e_ in arg.elts[1:]:
                for x_ in ast.walk(e_):
                    if isinstance(x_, ast.Subscript) and isinstance(x_.slice, ast.Name):
                        idx_names.add(x_.slice.id)
            geo = False
            for s_ in walk_no_nested(g.node):
                if isinstance(s_, ast.Assign) and any(isinstance(t_, ast.Name) and t_.id in idx_names for tt_ in s_.targets for t_ in ast.walk(tt_)):
                    src_ = _resolve_local(g.node, s_.value)
                    txt_ = norm(src_) + " " + " ".join(norm(d_.value) for d_ in walk_no_nested(g.node) if isinstance(d_, ast.Assign)
                                                        and any(isinstance(n_, ast.Name) and n_.id in {x.id for x in ast.walk(src_) if isinstance(x, ast.Name)}
                                                                for tt_ in d_.targets for n_ in ast.walk(tt_)))
                    if any(k_ in txt_ for k_ in ("euclidean", "norm(", "cdist", ".position", "distance")):
                        geo = True
            if geo:
                read_ = True
                okn = False
    if not read_:
        ctx.ob(rule, g, call[0] if call else "frame points", True,
               "the three points handed to the frame builder are not written as [anchor.position, molecule[i1].position, "
               "molecule[i2].position] with (i1, i2) = anchor.closest_atoms(); not decided on this tree", undecided=True, node=call[0] if call else g.node)
    else:
        ctx.ob(rule, g, call[0] if call else "frame points", okn,
               "the frame of an anchor is built from (anchor, first neighbour, second neighbour) positions of the same "
               "molecule and stored under the anchor's key", node=call[0] if call else g.node)


def _plain_iter_top(it):
    # iterating list(X) / tuple(X) / sorted(X) / X.keys() visits what iterating X visits
    while True:
        if isinstance(it, ast.Call) and call_name(it) in ("list", "tuple", "sorted") and len(it.args) == 1 and not it.keywords:
            it = it.args[0]
        elif isinstance(it, ast.Call) and isinstance(it.func, ast.Attribute) and it.func.attr == "keys" and not it.args:
            it = it.func.value
        else:
            return it


_PAIRWISE_CALLS = ("pdist", "cdist", "combinations", "distance_matrix", "product", "permutations", "squareform", "KDTree", "cKDTree")


def _sees_all_pairs(fn: ast.AST) -> bool:
    """Could this function compute a quantity over every PAIR of anchors?  (nested loops / comprehension with two
    generators / one of the pairwise library calls / broadcasting with a new axis)"""
    for n in ast.walk(fn):
        if isinstance(n, ast.Call) and call_name(n) in _PAIRWISE_CALLS:
            return True
        if isinstance(n, (ast.For, ast.While)):
            if any(isinstance(s, (ast.For, ast.While, ast.ListComp, ast.GeneratorExp, ast.SetComp, ast.DictComp))
                   for b in n.body for s in ast.walk(b)):
                return True
        if isinstance(n, (ast.ListComp, ast.GeneratorExp, ast.SetComp, ast.DictComp)):
            if len(n.generators) > 1 or any(isinstance(s, (ast.ListComp, ast.GeneratorExp, ast.SetComp, ast.DictComp))
                                            for s in ast.walk(n.elt)):
                return True
        if isinstance(n, ast.Subscript) and any(isinstance(s, ast.Constant) and s.value is None for s in ast.walk(n.slice)):
            return True
        if isinstance(n, ast.Attribute) and n.attr == "newaxis":
            return True
    return False


def _const_value(e: ast.AST):
    if isinstance(e, ast.Constant) and isinstance(e.value, (int, float)) and not isinstance(e.value, bool):
        return e.value
    if isinstance(e, ast.UnaryOp) and isinstance(e.op, ast.USub):
        v = _const_value(e.operand)
        return None if v is None else -v
    return None


def early_capture_sites(fn: ast.AST, methods, frames_attr: str):
    """Explicit-loop nearest-anchor search with a threshold early exit.  ``methods`` maps a name to the FunctionDef of
    every method of the class.  Returns [(return node, message)] for the exits whose threshold cannot be the all-pairs bound."""
    from ..pat import expand_single_defs as _xsd
    out = []
    pm = parents_map(fn)
    loops = [n for n in walk_no_nested(fn) if isinstance(n, ast.For) and attr_chain(_plain_iter_top(n.iter)) == frames_attr]
    for lp in loops:
        idx = norm(lp.target)
        for r in [n for b in lp.body for n in walk_no_nested(b) if isinstance(n, ast.Return)]:
            if r.value is None or norm(r.value) != idx:
                continue
            # guards outside the loop do not bound the distance of this iteration
            inside = []
            for t, pol in guards_of(r, pm):
                p = t
                while id(p) in pm:
                    p = pm[id(p)]
                    if p is lp:
                        inside.append((t, pol))
                        break
            if len(inside) != 1:
                continue
            t, pol = inside[0]
            if not (pol and isinstance(t, ast.Compare) and len(t.ops) == 1):
                continue
            op, lhs, rhs = t.ops[0], t.left, t.comparators[0]
            if isinstance(op, (ast.Lt, ast.LtE)):
                dist, thr = lhs, rhs
            elif isinstance(op, (ast.Gt, ast.GtE)):
                dist, thr = rhs, lhs
            else:
                continue
            # the compared quantity must be this iteration's distance to the anchor
            dx = _xsd(fn, dist)
            if not (isinstance(dx, ast.Call) and call_name(dx) in ("euclidean", "norm", "sqeuclidean")):
                continue
            cv = _const_value(thr)
            if cv is not None:
                if cv > 0:
                    out.append((r, "the search returns the first anchor nearer than the fixed length %r and leaves the later anchors "
                                "uncompared: a later anchor can be nearer whenever two anchors are less than %r apart" % (cv, 2 * cv)))
                continue                # <= 0: never taken / exact hit only (distinct anchors cannot both be at distance 0)
            ch = attr_chain(thr)
            if not (ch and ch.startswith("self.") and ch.count(".") == 1):
                continue
            live = []
            for gname, g in methods.items():
                for s in walk_no_nested(g):
                    tg = s.targets if isinstance(s, ast.Assign) else [s.target] if isinstance(s, (ast.AugAssign, ast.AnnAssign)) else []
                    for x in tg:
                        for y in (x.elts if isinstance(x, ast.Tuple) else [x]):
                            if attr_chain(y) == ch:
                                v = _const_value(s.value) if isinstance(s, (ast.Assign, ast.AnnAssign)) and s.value is not None else None
                                if v is None or v > 0:
                                    live.append((gname, g, s))
            if not live or any(_sees_all_pairs(g) for _, g, _s in live):
                continue                # never a positive length / may be the all-pairs bound: not decided here
            gname, g, s = live[0]
            out.append((r, "the search returns the first anchor nearer than `%s` and leaves the later anchors uncompared; `%s` is set in "
                        "%s (line %d) by a single pass that never looks at a PAIR of anchors, so it is not a bound on half the smallest "
                        "anchor-anchor separation and a later, non-bonded anchor can be the nearer one" % (ch, ch, gname, s.lineno)))
    return out


def _early_capture(ctx: Ctx, em: "EM", f: Func, rule: str) -> bool:
    sites = early_capture_sites(f.node, {n: g.node for n, g in em.cls.methods.items()}, em.frames_attr)
    for r, msg in sites[:1]:
        ctx.ob(rule, f, r, False, msg, node=r)
    return bool(sites)


def r1_5(ctx: Ctx, rule="R1.5"):
    em = EM(ctx)
    f = em.closest
    from ..fixtures import check_fixture
    check_fixture(ctx, rule, "earlycapture.py",
                  lambda repo: sum(len(early_capture_sites(m_.node, {n_: g_.node for n_, g_ in c_.methods.items()}, "self._frames"))
                                   for c_ in repo.classes.values() for m_ in c_.methods.values()), expect_exact=2)
    rets = [n for n in walk_no_nested(f.node) if isinstance(n, ast.Return)]
    comp = [n for n in ast.walk(f.node) if isinstance(n, (ast.ListComp, ast.GeneratorExp))]
    ok_iter = ok_dist = ok_min = False
    d = None
    from ..pat import expand_single_defs as _xsd
    if comp:
        c = _xsd(f.node, comp[0])

        def _plain_iter(it):
            # iterating list(X) / tuple(X) / X.keys() visits what iterating X visits
            while True:
                if isinstance(it, ast.Call) and call_name(it) in ("list", "tuple") and len(it.args) == 1 and not it.keywords:
                    it = it.args[0]
                elif isinstance(it, ast.Call) and isinstance(it.func, ast.Attribute) and it.func.attr == "keys" and not it.args:
                    it = it.func.value
                else:
                    return it
        ok_iter = attr_chain(_plain_iter(c.generators[0].iter)) == em.frames_attr and not c.generators[0].ifs
        elt = c.elt
        idx = norm(c.generators[0].target)
        d = None
        if isinstance(elt, ast.Tuple) and len(elt.elts) == 2 and norm(elt.elts[1]) == idx:
            d = elt.elts[0]
        elif rets and len(c.generators) == 1:
            # (distance, index) pairs built by zip(distances, indexes) over the same iterable
            rv = _xsd(f.node, rets[0].value)
            for z in ast.walk(rv):
                if isinstance(z, ast.Call) and call_name(z) == "zip" and len(z.args) == 2 and norm(z.args[0]) == norm(c) \
                        and norm(_plain_iter(z.args[1])) == norm(_plain_iter(c.generators[0].iter)):
                    d = elt
        if d is not None:
            target = [p for p in f.params if p != "self"][0]
            if isinstance(d, ast.Call) and call_name(d) in ("euclidean", "norm", "sqeuclidean"):
                txt = norm(d)
                refpos = "%s.position" % target in txt
                # reference atom position: self._refmolecule[index].position directly or through a local helper
                helper_ok = ("self._refmolecule[%s].position" % idx) in txt
                for sub in ast.walk(f.node):
                    if isinstance(sub, ast.FunctionDef) and sub is not f.node:
                        r_ = [n for n in ast.walk(sub) if isinstance(n, ast.Return)]
                        if r_ and norm(r_[0].value) == "self._refmolecule[%s].position" % sub.args.args[0].arg \
                                and "%s(%s)" % (sub.name, idx) in txt:
                            helper_ok = True
                ok_dist = refpos and helper_ok
    if rets:
        v = _xsd(f.node, rets[0].value)
        t = norm(v)
        ok_min = t.startswith("sorted(") and t.endswith(")[0][1]") and "reverse" not in t or \
            (t.startswith("min(") and t.endswith(")[1]"))
    if not comp:
        # the candidate list is not built by one comprehension (e.g. an explicit loop).  One thing can still be read from
        # the loop form: a `return <loop index>` inside the loop over the frames leaves the later anchors uncompared, which
        # is the nearest anchor only if the guard proves no other anchor can be nearer.  `distance < T` proves that exactly
        # when T <= half the smallest separation between ANY two anchors, a quantity that needs every pair of anchors
        # (nested loop / pdist / cdist / combinations / distance_matrix); a T accumulated inside one pass over the anchors
        # from each anchor's own frame sees bonded pairs only, and folded chains put non-bonded anchors nearer than that.
        if _early_capture(ctx, em, f, rule):
            return
        # anything else is left undecided rather than reported
        ctx.ob(rule, f, "candidates", True, "the nearest-anchor search is not written as a comprehension over the frames; not decided on this tree",
               undecided=True, node=f.node)
        return
    ctx.ob(rule, f, comp[0] if comp else "candidates", ok_iter,
           "the nearest-anchor search ranges over every frame of the reference (no filter)", node=comp[0] if comp else f.node)
    if comp and d is None:
        ctx.ob(rule, f, "distance expression", True, "the (distance, anchor) pairing is not written as a comprehension of pairs or a zip "
               "of the distances with the anchors; not decided on this tree", undecided=True, node=comp[0])
    else:
        ctx.ob(rule, f, "distance expression", ok_dist,
               "candidates are ordered by the distance between the target atom's position and the anchor atom's position",
               node=comp[0] if comp else f.node)
    t_ = norm(_xsd(f.node, rets[0].value)) if rets else ""
    wrong = (t_.startswith("sorted(") and (t_.endswith(")[-1][1]") or "reverse" in t_)) or t_.startswith("max(") \
        or (t_.startswith("sorted(") and not t_.endswith(")[0][1]"))
    if ok_min or wrong or not rets:
        ctx.ob(rule, f, rets[0] if rets else "selection", bool(ok_min),
               "the anchor with the smallest distance is returned", node=rets[0] if rets else f.node)
    else:
        ctx.ob(rule, f, rets[0], True, "selection of the nearest anchor not written as sorted(...)[0][1] / min(...)[1]; not decided on this tree",
               undecided=True, node=rets[0])


# ---------------------------------------------------------------------------
def r2_1(ctx: Ctx, rule="R2.1"):
    em = EM(ctx)
    f = em.call
    param = [p for p in f.params if p != "self"][0]
    cfg = CFG(f.node)
    dom = cfg.dominators()
    rc = [c for c in calls_in(f.node) if call_name(c) == em.recompute.name]
    rs = [c for c in calls_in(f.node) if call_name(c) == em.restore_mol.name]
    ok = False
    why = ""
    if not rc:
        why = "no call to %s in __call__" % em.recompute.name
    elif not rs:
        why = "no call to %s in __call__" % em.restore_mol.name
    else:
        nrc = cfg.node_containing(rc[0])
        nrs = cfg.node_containing(rs[0])
        pm = parents_map(f.node)
        guards = guards_of(rc[0], pm)
        arg_ok = rc[0].args and norm(rc[0].args[0]) == param
        ok = nrc.id in dom[cfg.exit.id] and nrc.id in dom[nrs.id] and not guards and bool(arg_ok)
        if guards:
            why = "the recomputation is conditional on `%s`" % norm(guards[0][0])
        elif not arg_ok:
            why = "frames are recomputed from `%s`, not from the argument `%s`" % (norm(rc[0].args[0]) if rc[0].args else "?", param)
        elif not ok:
            why = "the recomputation does not dominate the restoration / the return"
    ctx.ob(rule, f, rc[0] if rc else "frame recomputation", ok,
           "every successful call recomputes all frames from the argument molecule before restoring"
           + ("" if ok else " -- " + why), node=rc[0] if rc else f.node)
    # the recomputation overwrites entries unconditionally (no 'already present' guard)
    for g in dict.fromkeys([em.recompute, em.recompute_general]):
        pm = parents_map(g.node)
        for s in walk_no_nested(g.node):
            if isinstance(s, ast.Assign) and isinstance(s.targets[0], ast.Subscript) and attr_chain(s.targets[0].value) == em.frames_attr:
                bad = [t for t, pol in guards_of(s, pm) if em.frames_attr.split(".")[1] in norm(t)]
                src_ok = True
                val = _resolve_local(g.node, s.value)
                if isinstance(val, ast.Call) and call_name(val) == em.fb.name:
                    src_ok = True
                ctx.ob(rule, g, s, not bad and src_ok,
                       "a frame entry is overwritten with a freshly built frame (not kept when one exists)"
                       + ("" if not bad else " -- guarded by `%s`" % norm(bad[0])), node=s)
    # derived caches: a map attribute whose items are computed from frame-table entries must be invalidated wherever
    # a frame entry is rewritten (otherwise restoration uses the axes of an earlier argument)
    fa = em.frames_attr
    caches = {}
    for m_ in em.cls.methods.values():
        for s in walk_no_nested(m_.node):
            if isinstance(s, ast.Assign) and isinstance(s.targets[0], ast.Subscript):
                a_ = attr_chain(s.targets[0].value)
                if a_ and a_.startswith("self.") and a_ != fa:
                    val = _resolve_local(m_.node, s.value)
                    if any(isinstance(x, ast.Attribute) and attr_chain(x) == fa for x in ast.walk(val)) \
                            or any(isinstance(x, ast.Attribute) and attr_chain(x) == fa for x in ast.walk(s.value)):
                        caches.setdefault(a_, []).append((m_, s))
    pmaps = {}
    for a_, sites_ in caches.items():
        def invalidates(st_, a_=a_):
            if isinstance(st_, ast.Expr) and isinstance(st_.value, ast.Call) and isinstance(st_.value.func, ast.Attribute) \
                    and attr_chain(st_.value.func.value) == a_ and st_.value.func.attr in ("pop", "clear"):
                return True
            if isinstance(st_, ast.Delete) and any(isinstance(t_, ast.Subscript) and attr_chain(t_.value) == a_ for t_ in st_.targets):
                return True
            if isinstance(st_, ast.Assign) and any(attr_chain(t_) == a_ for t_ in st_.targets):
                return True
            return False
        # cleared unconditionally at the top of the recomputation or of the call?
        top_clear = any(invalidates(st_) for g_ in (em.recompute, em.call) for st_ in g_.node.body)
        for g_ in dict.fromkeys([em.recompute, em.recompute_general] + list(em.cls.methods.values())):
            if g_ is em.init:
                continue
            pm_ = pmaps.setdefault(g_.qual, parents_map(g_.node))
            for s in walk_no_nested(g_.node):
                if isinstance(s, ast.Assign) and isinstance(s.targets[0], ast.Subscript) and attr_chain(s.targets[0].value) == fa:
                    block = None
                    par = pm_.get(id(s))
                    for fld in ("body", "orelse", "finalbody"):
                        if par is not None and s in getattr(par, fld, []):
                            block = getattr(par, fld)
                    okc = top_clear or (block is not None and any(invalidates(x) for x in block))
                    ctx.ob(rule, g_, "%s ; cache %s" % (norm(s), a_), okc,
                           "`%s` holds values computed from frame-table entries (%s): wherever a frame entry is rewritten the "
                           "cached value is dropped, otherwise a later restoration uses the axes of an earlier argument"
                           % (a_, norm(sites_[0][1])[:80]), node=s)
    # dispatch of the recomputation uses the size of its own argument
    g = em.recompute
    p = [x for x in g.params if x != "self"][0]
    bad_reads = [n for n in ast.walk(g.node) if isinstance(n, ast.Attribute) and attr_chain(n) in ("self._refmolecule", "self._targetmolecule")]
    bad_reads += [n for n in ast.walk(em.recompute_general.node) if isinstance(n, ast.Attribute) and attr_chain(n) in ("self._refmolecule", "self._targetmolecule")]
    ctx.ob(rule, g, "recomputation reads only its argument `%s`" % p, not bad_reads,
           "frames are computed from the molecule passed in, never from the construction-time molecules"
           + ("" if not bad_reads else " -- reads %s" % norm(bad_reads[0])), node=bad_reads[0] if bad_reads else g.node)


def _seq_eval(e: ast.AST, env: Dict[str, List[str]], n: int, fn: ast.AST) -> Optional[List[str]]:
    """Abstract sequence of point tags ('M0','M1',...,'R') for the <=2-atom branch."""
    if isinstance(e, ast.Name):
        return env.get(e.id)
    if isinstance(e, ast.Attribute) and e.attr == "atoms_positions":
        return ["M%d" % i for i in range(n)]
    if isinstance(e, ast.Subscript):
        b = _seq_eval(e.value, env, n, fn)
        if b is None:
            return None
        if isinstance(e.slice, ast.Slice):
            lo = const_int(e.slice.lower) if e.slice.lower is not None else None
            hi = const_int(e.slice.upper) if e.slice.upper is not None else None
            if (e.slice.lower is not None and lo is None) or (e.slice.upper is not None and hi is None):
                return None
            return b[lo:hi]
        k = const_int(e.slice)
        if k is None or not (-len(b) <= k < len(b)):
            return None
        return [b[k]]
    if isinstance(e, ast.ListComp) and len(e.generators) == 1 and isinstance(e.generators[0].iter, ast.Call) \
            and call_name(e.generators[0].iter) == "range" and len(e.generators[0].iter.args) == 1:
        k = const_int(e.generators[0].iter.args[0], {"n_atoms": n, "n": n})
        if k is None:
            # range(3 - len(molecule)) ...
            return None
        rnd = any(isinstance(c, ast.Call) and "random" in norm(c.func) for c in ast.walk(e.elt))
        return (["R"] if rnd else ["?"]) * max(k, 0)
    if isinstance(e, (ast.List, ast.Tuple)):
        out = []
        for x in e.elts:
            if isinstance(x, ast.Starred):
                s = _seq_eval(x.value, env, n, fn)
            else:
                s = _seq_eval(x, env, n, fn)
                if s is not None and len(s) != 1 and not isinstance(x, (ast.Name,)):
                    pass
            if s is None:
                return None
            out += s
        return out
    if isinstance(e, ast.BinOp) and isinstance(e.op, ast.Add):
        a, b = _seq_eval(e.left, env, n, fn), _seq_eval(e.right, env, n, fn)
        # an array of random rows shifted by one point (broadcast) is still an array of random rows
        for x_, y_, xe_ in ((a, b, e.left), (b, a, e.right)):
            if x_ is not None and y_ is not None and set(x_) <= {"R"} and len(y_) == 1 and isinstance(xe_, ast.Call) \
                    and "random" in norm(xe_.func):
                return list(x_)
        if a is None or b is None:
            # point + vector: a single point
            return None
        return a + b
    if isinstance(e, ast.Call):
        nm = call_name(e)
        if nm in ("array", "asarray", "list", "copy") and e.args:
            return _seq_eval(e.args[0], env, n, fn)
        if nm == "append" and len(e.args) >= 2 and norm(e.func).startswith(("np.", "numpy.")):
            a, b = _seq_eval(e.args[0], env, n, fn), _seq_eval(e.args[1], env, n, fn)
            return a + b if a is not None and b is not None else None
        if nm in ("concatenate", "vstack") and e.args and isinstance(e.args[0], (ast.Tuple, ast.List)):
            out = []
            for x in e.args[0].elts:
                s = _seq_eval(x, env, n, fn)
                if s is None:
                    return None
                out += s
            return out
        if nm == "insert" and len(e.args) >= 3:
            a, b = _seq_eval(e.args[0], env, n, fn), _seq_eval(e.args[2], env, n, fn)
            k = const_int(e.args[1])
            if a is None or b is None or k is None:
                return None
            return a[:k] + b + a[k:]
        if "random" in norm(e.func):
            if nm in ("rand", "randn") and len(e.args) == 2 and const_int(e.args[1]) == 3:
                k = const_int(e.args[0])
                return None if k is None else ["R"] * max(k, 0)
            return ["R"]
    return None


def r2_3(ctx: Ctx, rule="R2.3"):
    em = EM(ctx)
    g = em.recompute
    # slots of the frame builder: which input point is the origin, which fixes the axis
    rs = frames.results(ctx)
    gen = [r for r in rs if not r.degenerate and r.frame]
    if not gen:
        ctx.ob(rule, em.fb, "frame builder slots", True, "generic path of the frame builder not recognised", undecided=True)
        return
    d = gen[0].frame[0].dir
    try:
        axis_idx = int(d[1].split("[")[-1].rstrip("]"))
        org_idx = int(d[2].split("[")[-1].rstrip("]"))
    except Exception:
        ctx.ob(rule, em.fb, "frame builder slots", True, "axis/origin slots not recognised", undecided=True)
        return
    ctx.extra["frame_builder_slots"] = {"origin": org_idx, "axis": axis_idx, "plane": 3 - axis_idx - org_idx}
    # the small-molecule branch: the `if` on the molecule's size whose body builds the single frame
    branch = None
    sizes: List[int] = []
    size_names = {norm(s_.targets[0]) for s_ in g.node.body if isinstance(s_, ast.Assign)
                  and isinstance(s_.value, ast.Call) and call_name(s_.value) == "len"}

    mol_params = [p_ for p_ in g.params if p_ != "self"]

    def eval_size_test(t, n_):
        # only lengths of the molecule itself are sizes of the reference (len(atom.bonds) is not)
        for x_ in ast.walk(t):
            if isinstance(x_, ast.Call) and call_name(x_) == "len" and x_.args and norm(x_.args[0]) not in mol_params:
                return None
        return globals()['eval_size_test'](t, n_, size_names)
    for n in walk_no_nested(g.node):
        if isinstance(n, ast.If) and eval_size_test(n.test, 1) is not None:
            in_body = any(call_name(c) == em.fb.name for s_ in n.body for c in calls_in(s_))
            in_else = any(call_name(c) == em.fb.name for s_ in n.orelse for c in calls_in(s_))
            truth = [eval_size_test(n.test, k) for k in range(1, 7)]
            small_when = True if in_body else (False if in_else else None)
            if small_when is None:
                continue
            branch = n if in_body else None
            sizes = [k for k, tv in zip(range(1, 7), truth) if tv == small_when]
            general_stmts = n.orelse if in_body else n.body
            gen_ok = any(call_name(c) == em.recompute_general.name for s_ in general_stmts for c in calls_in(s_))
            # the per-anchor code written in place (the two functions merged): a loop over the molecule that stores frames
            gen_inline = any(isinstance(l_, ast.For) and norm(l_.iter) in mol_params and EM._stores_in(l_, em.frames_attr)
                             for s_ in general_stmts for l_ in ast.walk(s_))
            if sizes == [1, 2] and not gen_ok and not gen_inline:
                ctx.ob(rule, g, n, True, "references of three or more atoms are not handed to %s and no per-anchor loop is written in "
                       "place; the general branch is not decided on this tree" % em.recompute_general.name, undecided=True, node=n)
                gen_ok = None
            if gen_ok is not None:
              ctx.ob(rule, g, n, sizes == [1, 2] and (gen_ok or gen_inline),
                   "references of one or two atoms take the single-frame branch and every reference of three or more "
                   "atoms the per-anchor branch" + ("" if sizes == [1, 2] else " -- the single-frame branch is taken for sizes %s (of 1..6)" % sizes),
                   node=n)
            if not in_body:
                # build a pseudo-branch object exposing .body/.test for the code below
                branch = ast.If(test=ast.UnaryOp(ast.Not(), n.test), body=n.orelse, orelse=n.body)
            sizes = [k for k in sizes if k <= 2]
    if branch is None:
        ctx.ob(rule, g, "small-reference branch", True, "branch for references of one or two atoms not recognised", undecided=True)
        return
    fbc = [c for c in calls_in(branch) if call_name(c) == em.fb.name and any(c in ast.walk(s) for s in branch.body)]
    if not fbc:
        ctx.ob(rule, g, branch, False, "the small-reference branch builds a frame with the frame builder -- call not found", node=branch)
        return
    size_var = sorted(size_names)[0] if size_names else "n_atoms"
    nob = n_und = 0
    for n in sizes:
        env: Dict[str, List[str]] = {}
        ints: Dict[str, int] = {}
        okseq = True
        def _walk_sized(stmts):
            for s in stmts:
                if isinstance(s, ast.If):
                    # a test on the size inside the branch: follow the arm taken by a reference of n atoms
                    tv = eval_size_test(s.test, n)
                    if tv is not None:
                        _walk_sized(s.body if tv else s.orelse)
                    continue
                if isinstance(s, ast.Assign) and isinstance(s.targets[0], ast.Name):
                    # fold range(3 - n_atoms) with the branch's size
                    val = s.value
                    seq = _seq_eval_n(val, env, n, size_var, ints)
                    if seq is not None:
                        env[s.targets[0].id] = seq
                    else:
                        iv = _int_eval_n(val, n, size_var, ints)
                        if iv is not None:
                            ints[s.targets[0].id] = iv
        _walk_sized(branch.body)
        arg = fbc[0].args[0]
        seq = _seq_eval_n(arg, env, n, size_var, ints)
        if seq is None or len(seq) != 3:
            ctx.ob(rule, g, "points handed to the frame builder for a %d-atom reference" % n, True,
                   "construction of the three points not in the modelled fragment (%s); not decided" % norm(arg),
                   undecided=True, node=fbc[0])
            n_und += 1
            continue
        nob += 1
        want_axis = "M1" if n >= 2 else None
        ok = seq[org_idx] == "M0" and (want_axis is None or seq[axis_idx] == want_axis)
        why = ""
        if seq[org_idx] != "M0":
            why = "the origin slot receives %s, not the first atom" % seq[org_idx]
        elif want_axis and seq[axis_idx] != want_axis:
            why = ("the axis slot (point %d of the frame builder) receives %s: the bond axis of a two-atom reference "
                   "is replaced by a random direction, so the coordinate along the axis is not preserved"
                   % (axis_idx, {"R": "a random point"}.get(seq[axis_idx], seq[axis_idx])))
        ctx.ob(rule, g, "%d-atom reference: points %s -> (origin, plane, axis) slots" % (n, seq), ok,
               "for a reference of one or two atoms the frame's origin is the first atom and, with two atoms, the "
               "frame axis runs along the bond; random points only complete the undetermined directions"
               + ("" if ok else " -- " + why), node=fbc[0], sequence=seq)
    # stored under the first atom's key
    keys = [s for s in branch.body if isinstance(s, ast.Assign) and isinstance(s.targets[0], ast.Subscript)
            and attr_chain(s.targets[0].value) == em.frames_attr]
    p = [x for x in g.params if x != "self"][0]
    ctx.ob(rule, g, keys[0] if keys else "frame key", bool(keys) and norm(keys[0].targets[0].slice) == "hash(%s[0])" % p,
           "the single frame of a small reference is keyed by its first atom (whose position is the origin)",
           node=keys[0] if keys else branch)
    ctx.floor(rule, nob + n_und, 2, "small-reference sizes evaluated")


def _fold_size(e, n, size_var, ints=None):
    ints = ints or {}

    class Sub(ast.NodeTransformer):
        def visit_Name(self, node):
            if node.id == size_var:
                return ast.copy_location(ast.Constant(n), node)
            if node.id in ints:
                return ast.copy_location(ast.Constant(ints[node.id]), node)
            return node

        def visit_Call(self, node):
            self.generic_visit(node)
            if call_name(node) == "len" and node.args and not isinstance(node.args[0], ast.Constant):
                return ast.copy_location(ast.Constant(n), node)
            return node
    import copy
    e2 = Sub().visit(copy.deepcopy(e))
    ast.fix_missing_locations(e2)
    return e2


def _int_eval_n(e, n, size_var, ints=None):
    return const_int(_fold_size(e, n, size_var, ints))


def _seq_eval_n(e, env, n, size_var, ints=None):
    """_seq_eval with the branch's size variable (and integer locals computed from it) folded to n."""
    ints = ints or {}

    class Sub(ast.NodeTransformer):
        def visit_Name(self, node):
            if node.id == size_var:
                return ast.copy_location(ast.Constant(n), node)
            if node.id in ints:
                return ast.copy_location(ast.Constant(ints[node.id]), node)
            return node

        def visit_Call(self, node):
            self.generic_visit(node)
            if call_name(node) == "len" and node.args and not isinstance(node.args[0], ast.Constant):
                return ast.copy_location(ast.Constant(n), node)
            return node
    import copy
    e2 = Sub().visit(copy.deepcopy(e))
    ast.fix_missing_locations(e2)
    return _seq_eval(e2, env, n, None)


def eval_size_test(t, n_, size_names):
    """Truth value of a test on the size for a molecule of n_ atoms (None: not a size test)."""
    if isinstance(t, ast.UnaryOp) and isinstance(t.op, ast.Not):
        v_ = eval_size_test(t.operand, n_, size_names)
        return None if v_ is None else (not v_)
    if isinstance(t, ast.BoolOp):
        vs = [eval_size_test(v_, n_, size_names) for v_ in t.values]
        if None in vs:
            return None
        return all(vs) if isinstance(t.op, ast.And) else any(vs)
    if isinstance(t, ast.Compare) and len(t.ops) == 1 and (norm(t.left) in size_names or norm(t.left).startswith("len(")):
        op, c = t.ops[0], t.comparators[0]
        if isinstance(op, (ast.In, ast.NotIn)) and isinstance(c, (ast.List, ast.Tuple, ast.Set)):
            vals = [const_int(x) for x in c.elts]
            if None in vals:
                return None
            return (n_ in vals) == isinstance(op, ast.In)
        k = const_int(c)
        if k is None:
            return None
        return {ast.Lt: n_ < k, ast.LtE: n_ <= k, ast.Gt: n_ > k, ast.GtE: n_ >= k, ast.Eq: n_ == k,
                ast.NotEq: n_ != k}.get(type(op))
    return None


def _size_names(fn: ast.AST) -> Set[str]:
    return {norm(s_.targets[0]) for s_ in walk_no_nested(fn) if isinstance(s_, ast.Assign)
            and isinstance(s_.value, ast.Call) and call_name(s_.value) == "len"}


# ---------------------------------------------------------------------------
def r3_1(ctx: Ctx, rule="R3.1"):
    em = EM(ctx)
    path = em.call_path()
    g = em.recompute_general
    small = em.recompute
    n_ok = 0
    loops = [n for n in walk_no_nested(g.node) if isinstance(n, ast.For)]
    anchor_var = norm(loops[0].target) if loops else None
    mol = norm(loops[0].iter) if loops else None
    neigh: Set[str] = set()
    idx_vars: Set[str] = set()
    for s in walk_no_nested(g.node):
        if isinstance(s, ast.Assign) and isinstance(s.value, ast.Call) and call_name(s.value) == "closest_atoms" \
                and norm(s.value.func.value) == anchor_var:
            idx_vars |= {norm(e) for e in (s.targets[0].elts if isinstance(s.targets[0], ast.Tuple) else [s.targets[0]])}
    for s in walk_no_nested(g.node):
        if isinstance(s, ast.Assign):
            tg = s.targets[0].elts if isinstance(s.targets[0], ast.Tuple) else [s.targets[0]]
            vs = s.value.elts if isinstance(s.value, ast.Tuple) else [s.value]
            for t_, v_ in zip(tg, vs):
                if isinstance(v_, ast.Subscript) and norm(v_.value) == mol and norm(v_.slice) in idx_vars:
                    neigh.add(norm(t_))
    for f in path:
        pm = parents_map(f.node)
        for n in walk_no_nested(f.node):
            if isinstance(n, ast.Attribute) and n.attr in COORD_ATTRS and isinstance(n.ctx, ast.Load):
                recv = norm(n.value)
                allowed, why = False, ""
                if f is g:
                    if recv == anchor_var and n.attr == "position":
                        allowed, why = True, "position of the anchor"
                    elif recv in neigh and n.attr == "position":
                        allowed, why = True, "position of a frame neighbour (closest_atoms)"
                    elif isinstance(n.value, ast.Subscript) and norm(n.value.value) == mol and norm(n.value.slice) in idx_vars \
                            and n.attr == "position":
                        allowed, why = True, "position of a frame neighbour (closest_atoms)"
                if not allowed and f is small:          # (the two roles may be one function when the branches are merged)
                    p = [x for x in small.params if x != "self"][0]
                    # the read is on paths taken by references of one or two atoms only (whatever the spelling of the size test)
                    sn_ = _size_names(small.node)
                    gl_ = guards_of(n, pm)
                    sizes_ = [k for k in range(1, 7) if all(eval_size_test(t_, k, sn_) == pol_ for t_, pol_ in gl_ if eval_size_test(t_, k, sn_) is not None)]
                    in_small = bool(gl_) and any(eval_size_test(t_, 1, sn_) is not None for t_, _ in gl_) and set(sizes_) <= {1, 2}
                    if recv == p and n.attr == "atoms_positions" and in_small:
                        allowed, why = True, "all (one or two) positions of a small reference"
                ctx.ob(rule, f, "coordinate read `%s` in %s" % (norm(n), f.name), allowed,
                       "on the call path the only coordinates read from the argument are the anchor's and its two "
                       "frame neighbours' positions" + (" (%s)" % why if allowed else
                                                         " -- this read makes the result depend on other coordinates"),
                       node=n)
                n_ok += 1 if allowed else 0
    ctx.floor(rule, n_ok, 3, "coordinate reads on the call path")
    ctx.extra["call_path"] = [f.qual for f in path]
    # effects on the result other than setting each atom's position: no move/rotate/move_to of the result
    for f in path:
        for c in calls_in(f.node):
            if call_name(c) in ("move", "move_to", "rotate") and isinstance(c.func, ast.Attribute):
                ctx.ob(rule, f, c, False, "the mapped molecule is not translated/rotated as a whole after restoration "
                       "-- `%s` makes every atom depend on all coordinates" % norm(c), node=c)


# ----------------------------------------------------------------------------------------------------------------
# R3.4  one selection of the nearest anchor

_ARGSEL = {"argmin", "argmax", "nanargmin", "nanargmax"}
_MINSEL = {"min", "max", "amin", "amax", "nanmin", "nanmax"}


def tie_split_sites(fn: ast.AST, table_a: str, table_b: str):
    """Pairs (store into table_a, store into table_b) in one function where one store is fed by an `argmin`-style
    selection and the other by an `== <the minimum>` mask: the first picks one winner of an exact tie, the second all
    of them, so the two tables disagree about which candidate an entry belongs to.  Names carry the two marks through
    assignments, loop targets and comprehension targets; a store inherits the marks of its key, its value and of the
    iterables of the loops around it."""
    def has_call(e, names):
        return any(isinstance(c, ast.Call) and ((isinstance(c.func, ast.Attribute) and c.func.attr in names)
                                                 or (isinstance(c.func, ast.Name) and c.func.id in names and names is _MINSEL))
                   for c in ast.walk(e))
    minnames: Set[str] = set()
    for s in walk_no_nested(fn):
        if isinstance(s, ast.Assign) and len(s.targets) == 1 and isinstance(s.targets[0], ast.Name) and has_call(s.value, _MINSEL) \
                and not has_call(s.value, _ARGSEL):
            minnames.add(s.targets[0].id)

    def eq_min(e):
        for c in ast.walk(e):
            if isinstance(c, ast.Compare) and any(isinstance(o, ast.Eq) for o in c.ops):
                for side in [c.left] + list(c.comparators):
                    if has_call(side, _MINSEL) or any(isinstance(n, ast.Name) and n.id in minnames for n in ast.walk(side)):
                        return True
            if isinstance(c, ast.Call) and call_name(c) in ("isclose",) and False:
                return True
        return False
    marks: Dict[str, Set[str]] = {}

    def expr_marks(e) -> Set[str]:
        m: Set[str] = set()
        if has_call(e, _ARGSEL):
            m.add("arg")
        if eq_min(e):
            m.add("eq")
        for n in ast.walk(e):
            if isinstance(n, ast.Name):
                m |= marks.get(n.id, set())
        return m

    def bind(target, m):
        # a (re)binding replaces the marks of the name: the walk below follows the program order
        for n in ast.walk(target):
            if isinstance(n, ast.Name) and isinstance(n.ctx, ast.Store):
                marks[n.id] = set(m)
    found = {table_a: [], table_b: []}

    def store_exprs(s, table):
        if isinstance(s, ast.Assign) and isinstance(s.targets[0], ast.Subscript) and attr_chain(s.targets[0].value) == table:
            return [s.targets[0].slice, s.value]
        if isinstance(s, ast.Expr) and isinstance(s.value, ast.Call) and isinstance(s.value.func, ast.Attribute) \
                and s.value.func.attr in ("update", "setdefault", "__setitem__") and attr_chain(s.value.func.value) == table:
            return list(s.value.args) + [k.value for k in s.value.keywords]
        return None

    def run(body, ctl: Set[str]):
        for s in body:
            if isinstance(s, (ast.FunctionDef, ast.AsyncFunctionDef, ast.ClassDef)):
                continue
            for table in (table_a, table_b):
                ex = store_exprs(s, table)
                if ex is not None:
                    m = set(ctl)
                    for e in ex:
                        m |= expr_marks(e)
                        for c in ast.walk(e):      # comprehension variables inside the stored expression
                            if isinstance(c, ast.comprehension):
                                m |= expr_marks(c.iter)
                    prev = [x for x in found[table] if x[0] is s]
                    if prev:
                        prev[0][1].update(m)
                    else:
                        found[table].append((s, m))
            if isinstance(s, ast.Assign):
                m = expr_marks(s.value)
                for t in s.targets:
                    if isinstance(t, (ast.Name, ast.Tuple, ast.List)):
                        bind(t, m)
            elif isinstance(s, ast.AugAssign) and isinstance(s.target, ast.Name):
                marks.setdefault(s.target.id, set()).update(expr_marks(s.value))
            elif isinstance(s, ast.For):
                m = expr_marks(s.iter)
                for _ in range(2):
                    bind(s.target, m)
                    run(s.body, ctl | m)
                run(s.orelse, ctl)
            elif isinstance(s, ast.While):
                m = expr_marks(s.test)
                for _ in range(2):
                    run(s.body, ctl | m)
            elif isinstance(s, ast.If):
                m = expr_marks(s.test)
                before = {k: set(v) for k, v in marks.items()}
                run(s.body, ctl | m)
                after_body = {k: set(v) for k, v in marks.items()}
                marks.clear()
                marks.update(before)
                run(s.orelse, ctl | m)
                for k, v in after_body.items():
                    marks.setdefault(k, set()).update(v)
            elif isinstance(s, (ast.With, ast.Try)):
                run(s.body, ctl)
                for h in getattr(s, "handlers", []):
                    run(h.body, ctl)
                run(getattr(s, "orelse", []), ctl)
                run(getattr(s, "finalbody", []), ctl)
    run(fn.body, set())
    sa, sb = found[table_a], found[table_b]
    hits = []
    for s1, m1 in sa:
        for s2, m2 in sb:
            if (m1 == {"arg"} and m2 == {"eq"}) or (m1 == {"eq"} and m2 == {"arg"}):
                hits.append((s1, s2))
    return hits, len(sa), len(sb)


def r3_4(ctx: Ctx, rule="R3.4"):
    """The anchor recorded for a target atom and the frame its stored coordinates were taken in are the same anchor:
    in the function that fills both tables the two may not come from two different selections of the nearest anchor
    (`argmin` vs `== minimum`), which disagree whenever two anchors are exactly equidistant."""
    cls = ctx.repo.cls("ExchangeMap")
    eq, co = "self._equivalences", "self._target_coordinates"
    n = 0
    for f in cls.methods.values():
        hits, na, nb = tie_split_sites(f.node, eq, co)
        if not (na and nb):
            continue
        ctx.seen(f)
        n += 1
        if hits:
            s1, s2 = hits[0]
            ctx.ob(rule, f, s1, False,
                   "the anchor recorded for a target atom is the anchor whose frame its stored coordinates are taken in -- here `%s` follows "
                   "an argmin-style selection and `%s` an `== minimum` mask, or the reverse: on an exact tie between two anchors the atom is "
                   "projected in one frame and restored in the other" % (norm(s1)[:70], norm(s2)[:70]), node=s1)
        else:
            ctx.ob(rule, f, "stores into %s and %s" % (eq, co), True,
                   "the recorded anchor and the projection frame are not drawn from two different selections of the minimum "
                   "(argmin vs == minimum)", node=f.node)
    if n == 0:
        ctx.ob(rule, cls.methods.get("__init__") or next(iter(cls.methods.values())), "map builder", True,
               "no single function fills both the anchor table and the coordinate table; not decided on this tree", undecided=True)
    from ..fixtures import check_fixture
    check_fixture(ctx, rule, "tiesplit.py",
                  lambda repo: sum(len(tie_split_sites(f_.node, "self._a", "self._b")[0]) for f_ in repo.funcs.values()), expect_exact=2)
