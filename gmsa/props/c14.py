"""C14 - incomplete or truncated .gro output is never accepted as a valid system.

R14.1 the undeclared-count placeholder folds to a whitespace-only line
R14.2 reader gauntlet: every normal exit of the read-mode constructor has passed the title test,
      the count parse (errors re-raised), the first-line format determination and the box-line load
      (which raises on an empty line and on an unparsable one); every record returned later has
      passed the fixed line-length test before field extraction
R14.3 only the closing routine writes the box line, and it is the last thing written
R14.4 write mode truncates at open time: builtin open(path, mode), or an opener that passes its flags on unchanged
R14.5 opening/closing keeps no table between calls
"""
from __future__ import annotations

import ast
from typing import List, Optional

from ..cfg import (CFG, call_name, calls_in, walk_no_nested, parents_map, guards_of, attr_chain,
                   enum_paths, ancestors)
from ..core import AnalysisError, Ctx, Func, norm
from ..util import who_calls, branch_raises, stmts_sorted

SPEC = {
    "explanation": (
        "Must-pass-through and who-may-call rules over GroFile.  A prefix of a written file is accepted "
        "only if the reader's gauntlet lets it through; the gauntlet is checked on the CFG of "
        "_load_and_verify/_load_box_matrix (dominators: each guard's test node dominates the normal exit, "
        "each guard's failing branch ends in raise on every path, exception handlers around the count parse "
        "and the box parse re-raise).  Together with the fixed record width (C13/R13.1) and the blank count "
        "placeholder (R14.1: int() of a whitespace-only line raises) this gives: a file whose box line was "
        "never written cannot be opened.  Byte-level enumeration of truncation points is not performed "
        "(that would be execution); the rules are the code facts that enumeration relies on."),
    "exhaustive": True,
    "trusted_base": ["int('   ') raises ValueError; file.readline() returns '' at end of file",
                     "CFG assumption: calls do not raise on the normal-exit paths (conservative for "
                     "must-pass-through: a raising call only removes accepting paths)"],
    "assumptions": ["the file is read through GroFile in 'r' mode"],
}


def _ws_only(e: ast.AST) -> Optional[bool]:
    """Does a string expression fold to whitespace only? None = cannot fold."""
    if isinstance(e, ast.Constant) and isinstance(e.value, str):
        return e.value.strip() == ""
    if isinstance(e, ast.BinOp) and isinstance(e.op, ast.Add):
        a, b = _ws_only(e.left), _ws_only(e.right)
        if a is False or b is False:
            return False
        if a is None or b is None:
            return None
        return True
    if isinstance(e, ast.BinOp) and isinstance(e.op, ast.Mult):
        for s in (e.left, e.right):
            if isinstance(s, ast.Constant) and isinstance(s.value, str):
                return s.value.strip() == ""
        return None
    if isinstance(e, ast.Call) and call_name(e) in ("format", "ljust", "rjust", "center") \
            and isinstance(e.func, ast.Attribute):
        base = _ws_only(e.func.value)
        if call_name(e) == "format":
            # any replacement field makes the text data-dependent
            if isinstance(e.func.value, ast.Constant) and "{" in str(e.func.value.value):
                return False
        return base
    if isinstance(e, ast.JoinedStr):
        if any(isinstance(v, ast.FormattedValue) for v in e.values):
            return False
        return all(_ws_only(v) for v in e.values)
    return None


def _handlers_reraise(tr: ast.Try, exc_names=("ValueError", "Exception", "BaseException")) -> List[ast.ExceptHandler]:
    """Handlers that may catch a ValueError but do not always raise."""
    bad = []
    for h in tr.handlers:
        names = []
        if h.type is None:
            names = ["BaseException"]
        elif isinstance(h.type, ast.Tuple):
            names = [norm(x).split(".")[-1] for x in h.type.elts]
        else:
            names = [norm(h.type).split(".")[-1]]
        if any(n in exc_names for n in names):
            if not branch_raises(h.body):
                bad.append(h)
    return bad


def _enclosing_try(node, pm) -> Optional[ast.Try]:
    child = node
    for a in ancestors(node, pm):
        if isinstance(a, ast.Try) and any(child is s or child in ast.walk(s) for s in a.body):
            return a
        if isinstance(a, (ast.FunctionDef, ast.AsyncFunctionDef)):
            return None
    return None


def _opener_drops_trunc(ctx: Ctx, init: Func, ref: ast.AST):
    """True: the opener removes O_TRUNC from the flags it passes on; False: it passes its flags through unchanged;
    None: not recognised."""
    name = ref.attr if isinstance(ref, ast.Attribute) else (ref.id if isinstance(ref, ast.Name) else None)
    cand = [f_ for f_ in ctx.repo.funcs.values() if f_.name == name]
    if isinstance(ref, ast.Lambda):
        bodies = [ref]
        params = [a.arg for a in ref.args.args]
    elif len(cand) == 1:
        bodies = [cand[0].node]
        params = [p_ for p_ in cand[0].params if p_ not in ("self", "cls")]
    else:
        return None
    for b in bodies:
        for c in ast.walk(b):
            if isinstance(c, ast.Call) and norm(c.func) in ("os.open", "open") and len(c.args) >= 2:
                fl = c.args[1]
                if isinstance(fl, ast.Name) and len(params) >= 2 and fl.id == params[1]:
                    return False
                txt = norm(fl).replace(" ", "")
                if "~os.O_TRUNC" in txt or "~O_TRUNC" in txt or ("O_TRUNC" in txt and "^" in txt):
                    return True
                if "O_TRUNC" not in txt and not any(isinstance(x, ast.Name) and len(params) >= 2 and x.id == params[1] for x in ast.walk(fl)):
                    return True                      # flags built from scratch without O_TRUNC
    return None


def run(ctx: Ctx):
    init = ctx.func("GroFile.__init__")
    load = ctx.func("GroFile._load_and_verify")
    box = ctx.func("GroFile._load_box_matrix")
    setup = ctx.func("GroFile._setup_write_file")
    closing = ctx.func("GroFile._write_closing_info")
    close = ctx.func("GroFile.close")
    parse = ctx.func("GroFile.parse_atomline")
    readline = ctx.func("GroFile.readline")
    from ..util import persistent_state
    ctx.attempt("R14.5", lambda: persistent_state(ctx, "R14.5", [f_ for f_ in (ctx.repo.func(q_, required=False) for q_ in ('GroFile.__init__', 'GroFile._load_and_verify', 'GroFile._load_box_matrix', 'GroFile.close', 'GroFile._write_closing_info')) if f_ is not None], "opening and closing a coordinate file"))

    # ---------------------------------------------------------------- R14.1
    pm = parents_map(setup.node)
    ph = None
    for c in calls_in(setup.node):
        if call_name(c) == "write" and c.args:
            g = [(norm(t), pol) for t, pol in guards_of(c, pm)]
            if any(("_natoms is None" in t and pol) or ("_natoms is not None" in t and not pol) for t, pol in g):
                ph = c
    ph_arg = ph.args[0] if ph is not None else None
    if ph is None:
        # the text of the count line is chosen first (`field = <blanks> if undeclared else <count>`) and written afterwards
        import copy as _copy
        for c in calls_in(setup.node):
            if call_name(c) == "write" and c.args:
                for nm_ in [x.id for x in ast.walk(c.args[0]) if isinstance(x, ast.Name)]:
                    for s_ in walk_no_nested(setup.node):
                        if isinstance(s_, ast.Assign) and norm(s_.targets[0]) == nm_:
                            g = [(norm(t), pol) for t, pol in guards_of(s_, pm)]
                            if any(("_natoms is None" in t and pol) or ("_natoms is not None" in t and not pol) for t, pol in g):
                                class _S(ast.NodeTransformer):
                                    def visit_Name(self, n, nm_=nm_, v_=s_.value):
                                        return _copy.deepcopy(v_) if n.id == nm_ else n
                                ph, ph_arg = c, _S().visit(_copy.deepcopy(c.args[0]))
    if ph is None:
        # the header is accumulated in a local and written once: `text += <blanks>` under the undeclared-count test
        for c in calls_in(setup.node):
            if call_name(c) == "write" and c.args and isinstance(c.args[0], ast.Name):
                for s_ in walk_no_nested(setup.node):
                    if isinstance(s_, ast.AugAssign) and isinstance(s_.op, ast.Add) and norm(s_.target) == c.args[0].id:
                        g = [(norm(t), pol) for t, pol in guards_of(s_, pm)]
                        if any(("_natoms is None" in t and pol) or ("_natoms is not None" in t and not pol) for t, pol in g):
                            ph, ph_arg = c, s_.value
    if ph is None:
        ctx.ob("R14.1", setup, "count placeholder", True, "the count-line write for an undeclared atom count is not in a recognised "
               "form; placeholder not decided on this tree", undecided=True, node=setup.node)
    ws = _ws_only(ph_arg) if ph is not None else None
    if ph is not None:
        ctx.ob("R14.1", setup, ph, ws is True,
           "until close the count line is whitespace only, so int() of it raises in the reader"
           + ("" if ws else " -- the placeholder %s" % ("is not whitespace-only" if ws is False else "could not be folded")),
           node=ph)

    # ---------------------------------------------------------------- R14.2
    # (a) read mode always verifies
    calls = [c for c in calls_in(init.node) if call_name(c) == load.name]
    pmi = parents_map(init.node)
    ok = False
    site = init.node
    if calls:
        site = calls[0]
        g = guards_of(calls[0], pmi)
        ok = len(g) == 1 and norm(g[0][0]) in ("'r' in mode", "mode == 'r'", "mode.startswith('r')") and g[0][1]
    ctx.attempt("R14.2", lambda: ctx.ob("R14.2", init, site, ok, "opening in read mode always runs the verification "
           "(guarded by nothing but the read-mode test)", node=site))


    cfg = CFG(load.node)
    dom = cfg.dominators()
    exit_dom = dom[cfg.exit.id]
    pml = parents_map(load.node)

    def dominating_guard(fn: Func, cfg: CFG, exit_dom, test_pred, what: str, rule="R14.2"):
        """An `if <test>: raise` whose test node dominates the normal exit and whose body always raises."""
        hits = []
        for n in walk_no_nested(fn.node):
            if isinstance(n, ast.If) and test_pred(n.test):
                hits.append(n)
        good = [n for n in hits if branch_raises(n.body) and cfg.node_of(n).id in exit_dom]
        site = (good or hits or [fn.node])[0]
        ctx.ob(rule, fn, site if hits else what, bool(good), what
               + ("" if good else (" -- guard present but %s" % (
                   "its failing branch does not always raise" if hits and not all(branch_raises(h.body) for h in hits)
                   else "it does not dominate the normal exit") if hits else " -- guard not found")),
               node=site)
        return good

    # (b1) title test
    title_vars = set()
    for st in stmts_sorted(load.node):
        if isinstance(st, ast.Assign) and isinstance(st.value, ast.Call) \
                and call_name(st.value) in ("_readline", "readline"):
            title_vars.add(norm(st.targets[0]))
            break

    def is_empty_test(t, vars_):
        return isinstance(t, ast.UnaryOp) and isinstance(t.op, ast.Not) and norm(t.operand) in vars_ \
            or (isinstance(t, ast.Compare) and norm(t.left) in vars_ and len(t.ops) == 1
                and isinstance(t.ops[0], ast.Eq) and isinstance(t.comparators[0], ast.Constant)
                and t.comparators[0].value == "")
    ctx.attempt("R14.2", lambda: dominating_guard(load, cfg, exit_dom, lambda t: is_empty_test(t, title_vars),
                     "an empty first line (empty file) is refused"))


    # (b2) count parse
    ints = [c for c in calls_in(load.node) if call_name(c) == "int" and c.args
            and any(isinstance(x, ast.Call) and call_name(x) in ("_readline", "readline") for x in ast.walk(c.args[0]))]
    if not ints:
        # int(var) where var is assigned from a readline
        rl_vars = {norm(st.targets[0]) for st in walk_no_nested(load.node)
                   if isinstance(st, ast.Assign) and isinstance(st.value, ast.Call)
                   and call_name(st.value) in ("_readline", "readline")}
        ints = [c for c in calls_in(load.node) if call_name(c) == "int" and c.args and norm(c.args[0]) in rl_vars]
    if not ints:
        ctx.ob("R14.2", load, "count parse", False, "the atom count is parsed with int() from the second line "
               "-- parse site not found", node=load.node)
    for c in ints:
        tr = _enclosing_try(c, pml)
        bad = _handlers_reraise(tr) if tr is not None else []
        st = cfg.node_containing(c)
        dominated = st is not None and st.id in exit_dom
        ctx.ob("R14.2", load, c, dominated and not bad,
               "a count line that is not an integer (blank placeholder, truncated header) is an error: the "
               "int() parse dominates the normal exit and no handler swallows its ValueError"
               + ("" if not bad else " -- handler `except %s` does not re-raise" % norm(bad[0].type)),
               node=c)
    # (b3) format determination and (b4) box load dominate the exit
    for callee, what in (("determine_format", "the first atom line's format is determined (raises on a malformed or empty line)"),
                         (box.name, "the box line is loaded before the constructor returns")):
        cs = [c for c in calls_in(load.node) if call_name(c) == callee]
        okc = False
        for c in cs:
            n = cfg.node_containing(c)
            if n is not None and n.id in exit_dom:
                okc = True
        ctx.ob("R14.2", load, cs[0] if cs else callee, okc, what + " on every path to the normal exit",
               node=cs[0] if cs else load.node)

    # (c) the box loader
    cfgb = CFG(box.node)
    domb = cfgb.dominators()
    exb = domb[cfgb.exit.id]
    pmb = parents_map(box.node)
    seeks = [c for c in calls_in(box.node) if call_name(c) == "seek_atom"]
    oks = bool(seeks) and norm(seeks[0].args[0]) in ("self._natoms", "self.natoms") \
        and cfgb.node_containing(seeks[0]).id in exb
    ctx.attempt("R14.2", lambda: ctx.ob("R14.2", box, seeks[0] if seeks else "seek to the box line", oks,
           "the box line is looked for directly after the declared number of atom records", node=seeks[0] if seeks else box.node))

    line_vars = {norm(st.targets[0]) for st in walk_no_nested(box.node)
                 if isinstance(st, ast.Assign) and isinstance(st.value, ast.Call)
                 and call_name(st.value) in ("_readline", "readline")}
    ctx.attempt("R14.2", lambda: dominating_guard(box, cfgb, exb, lambda t: is_empty_test(t, line_vars),
                     "a file that ends where the box line should be is refused"))

    ex = [c for c in calls_in(box.node) if call_name(c) == "extract_lattice_gro"]
    if not ex:
        ctx.ob("R14.2", box, "box parse", False, "the box line is parsed -- parse site not found", node=box.node)
    for c in ex:
        tr = _enclosing_try(c, pmb)
        bad = _handlers_reraise(tr) if tr is not None else []
        n = cfgb.node_containing(c)
        ctx.ob("R14.2", box, c, n is not None and n.id in exb and not bad and norm(c.args[0]) in line_vars,
               "the line after the last atom must parse as a box; a parse error is re-raised"
               + ("" if not bad else " -- handler `except %s` does not re-raise" % norm(bad[0].type)), node=c)

    # (d) fixed line length test dominates field extraction
    cfgp = CFG(parse.node)
    domp = cfgp.dominators()
    guards = []
    for n in walk_no_nested(parse.node):
        if isinstance(n, ast.If) and isinstance(n.test, ast.Compare) and len(n.test.ops) == 1 \
                and isinstance(n.test.ops[0], ast.NotEq) and branch_raises(n.body):
            txt = norm(n.test).lower()
            if "len" in txt and "expect" in txt:
                guards.append(n)
    line_param = [p for p in parse.params if p not in ("cls", "self")][0]
    slices = [s for s in walk_no_nested(parse.node) if isinstance(s, ast.Subscript)
              and isinstance(s.slice, ast.Slice) and norm(s.value) == line_param
              and not (s.slice.lower is None and isinstance(s.slice.upper, ast.UnaryOp))]
    okd = bool(guards)
    nsl = 0
    if guards:
        gid = cfgp.node_of(guards[0]).id
        for s in slices:
            n = cfgp.node_containing(s)
            if n is None:
                continue
            nsl += 1
            if gid not in domp[n.id]:
                okd = False
        # helper call also extracts fields
        for c in calls_in(parse.node):
            if call_name(c) == "_validate_res_atom_numbers":
                n = cfgp.node_containing(c)
                nsl += 1
                if n is None or gid not in domp[n.id]:
                    okd = False
    ctx.attempt("R14.2", lambda: ctx.ob("R14.2", parse, guards[0] if guards else "line length test", okd and nsl >= 3,
           "every field extraction is dominated by the raising test 'line length == expected length'",
           node=guards[0] if guards else parse.node, extraction_sites=nsl))


    # (e) records are parsed with the file's format
    cs = [c for c in calls_in(readline.node) if call_name(c) == parse.name]
    oke = bool(cs) and all(len(c.args) >= 2 and attr_chain(c.args[1]) == "self._format" or
                           any(k.arg == "format_dict" and attr_chain(k.value) == "self._format" for k in c.keywords)
                           for c in cs)
    ctx.attempt("R14.2", lambda: ctx.ob("R14.2", readline, cs[0] if cs else "record parse", oke,
           "records are parsed against the file's own format (fixed width), not re-guessed line by line",
           node=cs[0] if cs else readline.node))



    # ---------------------------------------------------------------- R14.3
    callers = who_calls(ctx.repo, "dump_lattice_gro")
    bad = [f for f, c in callers if f is None or f.qual != closing.qual]
    ctx.attempt("R14.3", lambda: ctx.ob("R14.3", closing, "callers of dump_lattice_gro: %s" % sorted({(f.qual if f else "<module>") for f, _ in callers}),
           bool(callers) and not bad, "only the closing routine produces the box line", node=closing.node))

    callers2 = who_calls(ctx.repo, closing.name)
    bad2 = [f for f, c in callers2 if f is None or f.qual != close.qual]
    ctx.attempt("R14.3", lambda: ctx.ob("R14.3", close, "callers of %s: %s" % (closing.name, sorted({(f.qual if f else "<module>") for f, _ in callers2})),
           bool(callers2) and not bad2, "the closing routine runs only from close()", node=close.node))

    # close() runs the closing routine exactly in write mode, then closes the handle
    pmcl = parents_map(close.node)
    cw = [c for c in calls_in(close.node) if call_name(c) == closing.name]
    from ..cfg import cguards_of, ctext
    gcl = cguards_of(cw[0], pmcl) if cw else []
    tr_, pr_ = ctext("'r' in self._file.mode")
    # the write-mode test may sit in close() around the call or at the top of the closing routine (everything else in it
    # then runs under that test)
    mode_lit = ctext("'w' in self._file.mode")
    pm_closing = parents_map(closing.node)
    body_stmts = [s_ for s_ in walk_no_nested(closing.node) if isinstance(s_, (ast.Expr, ast.Assign, ast.AugAssign, ast.Raise))
                  and not (isinstance(s_, ast.Expr) and isinstance(s_.value, ast.Constant))]
    inside = bool(body_stmts) and all(mode_lit in cguards_of(s_, pm_closing, split=True) for s_ in body_stmts)
    ctx.attempt("R14.3", lambda: ctx.ob("R14.3", close, cw[0] if cw else "closing call", gcl in ([mode_lit], [(tr_, not pr_)]) or (gcl == [] and inside),
           "closing a file opened for writing always writes the closing information (count back-fill and box line)",
           node=cw[0] if cw else close.node))


    # no finaliser of a coordinate-file object completes a file the user never closed
    parser_classes = [k for k in ctx.repo.classes.values() if k.name in ("GroFile", "CoordinatesParser")]
    fin = []
    for k in parser_classes:
        d = k.methods.get("__del__")
        if d is not None and any(call_name(c) in ("close", closing.name, "__exit__") for c in calls_in(d.node)):
            fin.append(d)
    # ... nor a callback registered with atexit / weakref.finalize
    for k in parser_classes:
        for m_ in k.methods.values():
            for c in calls_in(m_.node):
                if call_name(c) in ("register", "finalize") and attr_chain(c.func) in ("atexit.register", "weakref.finalize") \
                        and any(isinstance(x, ast.Attribute) and x.attr in ("close", closing.name, "__exit__")
                                for a_ in c.args for x in ast.walk(a_)):
                    fin.append(m_)
    ctx.attempt("R14.3", lambda: ctx.ob("R14.3", fin[0] if fin else close, "finalisers of the writer that close it: %s" % [d.qual for d in fin], not fin,
           "a writer abandoned before close() stays incomplete: no __del__ of the file object (and no atexit / weakref.finalize callback) calls close() (which would "
           "back-fill the count and append the box line, turning a partial file into an accepted one)",
           node=fin[0].node if fin else close.node))



    # last write
    flat = stmts_sorted(closing.node)
    writes = [st for st in flat if isinstance(st, ast.Expr) and isinstance(st.value, ast.Call)
              and call_name(st.value) == "write"]
    dump_w = [st for st in writes if any(call_name(c) == "dump_lattice_gro" for c in calls_in(st))]
    okw = False
    if dump_w:
        after = [st for st in writes if (st.lineno, st.col_offset) > (dump_w[-1].lineno, dump_w[-1].col_offset)]
        okw = all(isinstance(st.value.args[0], ast.Constant) and str(st.value.args[0].value).strip() == "" for st in after)
        # and the box write is at the top level of the function body (unconditional once reached)
        from ..cfg import cguards_of, canon_test, parents_map as _pm
        empty_exit = {canon_test(ast.parse("self._natoms is None and self._current_atom == 0", mode="eval").body, False)}
        empty_exit |= {canon_test(ast.parse("self._current_atom == 0", mode="eval").body, False), ctext("'w' in self._file.mode")}
        okw = okw and set(cguards_of(dump_w[-1], _pm(closing.node), split=True)) - {canon_test(ast.parse("self._natoms is None", mode="eval").body, False)} <= empty_exit \
            and (set(cguards_of(dump_w[-1], _pm(closing.node))) <= empty_exit or set(cguards_of(dump_w[-1], _pm(closing.node), split=True)) <= empty_exit)
    ctx.attempt("R14.3", lambda: ctx.ob("R14.3", closing, dump_w[-1] if dump_w else "box write", okw,
           "the box line is the last data written and is written unconditionally at the end of closing",
           node=dump_w[-1] if dump_w else closing.node))


    # the set-up (first record) writes no box
    okn = not any(call_name(c) == "dump_lattice_gro" for c in calls_in(setup.node))
    ctx.attempt("R14.3", lambda: ctx.ob("R14.3", setup, "no box line at set-up", okn, "the header set-up writes title and count only", node=setup.node))
    ctx.floor("R14.2", sum(1 for o in ctx.obligations if o.rule == "R14.2"), 9, "gauntlet obligations")

    # ---------------------------------------------------------------- R14.4
    # a file opened for writing starts EMPTY: it is opened with the builtin open(path, mode) - no custom opener, no
    # os-level flags - so a crash at any later point leaves only what this writer has written (stale bytes of an
    # older, complete file after the cursor would make a half-written file look complete)
    opens = [c for c in calls_in(init.node) if call_name(c) in ("open", "fdopen", "os.open") or norm(c.func) in ("os.open", "os.fdopen", "io.open")]
    n_open = 0
    for c in opens:
        n_open += 1
        kws = {k.arg for k in c.keywords}
        plain = isinstance(c.func, ast.Name) and c.func.id == "open"
        if plain and "opener" not in kws and None not in kws:
            ctx.ob("R14.4", init, c, len(c.args) >= 2 or "mode" in kws,
                   "the coordinate file is opened with the builtin open(path, mode): write mode truncates at open time, "
                   "so nothing of an older file survives a crash of this writer", node=c)
        elif plain and "opener" in kws and not _opener_drops_trunc(ctx, init, [k.value for k in c.keywords if k.arg == "opener"][0]):
            keeps = _opener_drops_trunc(ctx, init, [k.value for k in c.keywords if k.arg == "opener"][0])
            if keeps is False:
                ctx.ob("R14.4", init, c, True, "the custom opener hands the flags it is given to os.open unchanged (truncation at open time kept)", node=c)
            else:
                ctx.ob("R14.4", init, c, True, "the file is opened through a custom opener whose flags are not in a recognised form; "
                       "truncation at open time not decided on this tree", undecided=True, node=c)
        elif plain and "opener" in kws:
            ctx.ob("R14.4", init, c, False,
                   "the coordinate file is opened with the builtin open(path, mode): write mode truncates at open time -- a "
                   "custom opener (`%s`) decides the OS flags itself; if it keeps the old bytes, a crash before close leaves a "
                   "half-written file followed by the tail (records, box line) of the previous one" % norm([k.value for k in c.keywords if k.arg == "opener"][0]),
                   node=c)
        else:
            ctx.ob("R14.4", init, c, True, "the file is not opened with the builtin open(); truncation at open time not decided on this tree",
                   undecided=True, node=c)
    ctx.floor("R14.4", n_open, 1, "open() calls in the constructor")
    # no truncate() after the fact in the writer (it would mean the bytes were not dropped at open time)
    trunc = [(f_, c) for f_ in ctx.repo.funcs.values() if f_.cls is init.cls for c in calls_in(f_.node) if call_name(c) == "truncate"]
    if trunc:
        ctx.ob("R14.4", trunc[0][0], trunc[0][1], True, "the writer truncates the file explicitly; whether every crash point leaves no stale bytes "
               "is not decided on this tree", undecided=True, node=trunc[0][1])
