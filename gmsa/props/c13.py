"""C13 - writing then reading a .gro file returns the same system (structural clauses).

R13.1 writer column layout == reader slice table (as polynomials in the field width)
R13.2 the format record is fully initialised before the first formatted write (typestate)
R13.3 five-digit wrap: identity on [0, 99999], range within [0, 99999] on [0, 10^7]
R13.4 box line: scatter/gather index tables agree and are a permutation of 0..8
R13.5 atom-count back-fill geometry (placeholder, seek distance, field width agree)
R13.4b every number of box values the writer can emit is accepted by the reader (exact value sets of small integer expressions)
R13.8 the record writer/reader keep no table between calls
"""
from __future__ import annotations

import ast
import string
import re
from fractions import Fraction
from typing import Dict, List, Optional, Tuple

from ..cfg import (canon_test, cguards_of, ctext, branches, CFG, enum_paths, call_name, attr_chain, walk_no_nested, parents_map,
                   guards_of, const_int, names_loaded)
from ..core import AnalysisError, Ctx, Func, norm
from ..util import branch_raises
from ..poly import Poly, poly_of


def _flag_by_compare(fn: ast.AST, value: ast.AST, count_txt: Optional[str], tval: int, fval: int, before_line: float):
    """`flag = X == tval` (or `X != fval`) where every other value of X has been refused earlier:
    `if X not in (fval, tval): raise` (canonical: not (X == fval or X == tval)).  X may be a local bound once to the
    counted expression.  Returns the counted expression's text when the spelling is recognised and right, False when
    it is recognised and wrong (other constants), None when it is not this spelling."""
    from ..pat import expand_single_defs as _x
    if not (isinstance(value, ast.Compare) and len(value.ops) == 1 and isinstance(value.ops[0], (ast.Eq, ast.NotEq))):
        return None
    k = const_int(value.comparators[0])
    left = value.left
    if k is None:
        k, left = const_int(value.left), value.comparators[0]
    if k is None:
        return None
    X = norm(left)
    Xe = norm(_x(fn, left))
    if count_txt is not None and Xe.replace(" ", "") != count_txt.replace(" ", ""):
        return None
    want = canon_test(ast.parse("%s == %d or %s == %d" % (X, fval, X, tval), mode="eval").body, False)
    refused = any(isinstance(n_, ast.If) and branch_raises(n_.body) and canon_test(n_.test, True) == want and n_.lineno <= before_line
                  for n_ in walk_no_nested(fn))
    if not refused:
        # the refusal may have been structured into an enclosing `if X == fval or X == tval:` block
        return None
    right = (isinstance(value.ops[0], ast.Eq) and k == tval) or (isinstance(value.ops[0], ast.NotEq) and k == fval)
    return Xe if right else False

SPEC = {
    "explanation": (
        "Layout folding and typestate over gaddlemaps/parsers/__init__.py.  R13.1 folds the writer's "
        "format pieces (GroFile.parse_atomlist) into a column table whose offsets are polynomials in the "
        "position width F and compares it, field by field, with the slice bounds the reader uses "
        "(GroFile.parse_atomline and _validate_res_atom_numbers), with the reader's expected line length "
        "for both velocity settings and with determine_format's decimals = figures - 5.  R13.2 runs a "
        "typestate over the two keys of the format record (None/Set) through every path of the first-record "
        "set-up, starting from every state the public setters can produce, and requires both keys Set at "
        "the first formatted write.  R13.3 interprets the expressions feeding the two {:5d} slots in a "
        "piecewise-affine domain over [0, 10^7] (pieces cut at comparison constants and multiples of the "
        "modulus): identity on [0, 99999], range inside [0, 99999] everywhere.  R13.4 compares the "
        "scatter and gather index tables of the box line.  R13.5 folds placeholder length, back-fill seek "
        "distance and back-fill width to the same polynomial in NUMBER_FIGURES.  Float rounding of the "
        "formatted coordinates ('within half a unit') is not decided."),
    "exhaustive": True,
    "trusted_base": ["Python format mini-language: '{:Wd}'/'{:W.Df}' produce at least W characters",
                     "str.format / string.Formatter.parse field order"],
    "assumptions": ["values fit the field width (the property's own precondition)",
                    "names are 1-5 non-blank characters"],
}

SPEC_RE = re.compile(r"^(?:(?P<fill>.)?(?P<align>[<>=^]))?(?P<sign>[+\- ])?#?0?"
                     r"(?P<width>\d+|\{\w+\})?[,_]?(?:\.(?P<prec>\d+|\{\w+\}))?(?P<type>[a-zA-Z%])?$")


def run(ctx: Ctx):
    ctx.attempt("R13.1", lambda: r13_1(ctx))
    ctx.attempt("R13.2", lambda: r13_2(ctx))
    ctx.attempt("R13.3", lambda: r13_3(ctx))
    ctx.attempt("R13.4", lambda: r13_4(ctx))
    ctx.attempt("R13.5", lambda: r13_5(ctx))
    ctx.attempt("R13.6", lambda: r13_6(ctx))
    ctx.attempt("R13.7", lambda: r13_7(ctx))
    from ..util import persistent_state
    ctx.attempt("R13.8", lambda: persistent_state(ctx, "R13.8", [f_ for f_ in (ctx.repo.func(q_, required=False) for q_ in ('GroFile.writeline', 'GroFile._setup_write_file', 'GroFile.parse_atomlist', 'GroFile.parse_atomline', 'GroFile.determine_format', 'extract_lattice_gro', 'dump_lattice_gro')) if f_ is not None], "writing and reading a record"))


# ---------------------------------------------------------------------------
# R13.1 layout tables
# ---------------------------------------------------------------------------
F, D, Vv = Poly.sym("F"), Poly.sym("D"), Poly.sym("V")


def _str_pieces(node: ast.AST) -> Optional[str]:
    """Fold a string literal expression (constant, * int, +)."""
    if isinstance(node, ast.Constant) and isinstance(node.value, str):
        return node.value
    if isinstance(node, ast.BinOp) and isinstance(node.op, ast.Mult):
        for a, b in ((node.left, node.right), (node.right, node.left)):
            s, k = _str_pieces(a), const_int(b)
            if s is not None and k is not None:
                return s * k
    if isinstance(node, ast.BinOp) and isinstance(node.op, ast.Add):
        a, b = _str_pieces(node.left), _str_pieces(node.right)
        if a is not None and b is not None:
            return a + b
    if isinstance(node, ast.JoinedStr):
        return None
    return None


def writer_layout(ctx: Ctx, f: Func):
    """Returns (fields_without_velocities, fields_with_velocities, keysyms) where a field is a dict
    {width: Poly, prec: Poly|None, type: str, spec: str, literal: int}."""
    fn = f.node
    # the list literal of format strings
    lst_name, base, extra = None, None, []
    pm = parents_map(fn)
    for st in walk_no_nested(fn):
        if isinstance(st, ast.Assign) and isinstance(st.value, ast.List) and st.value.elts \
                and all(_str_pieces(e) is not None for e in st.value.elts) \
                and any("{" in (_str_pieces(e) or "") for e in st.value.elts) \
                and isinstance(st.targets[0], ast.Name):
            lst_name, base = st.targets[0].id, [_str_pieces(e) for e in st.value.elts]
    if base is None:
        return None
    for st in walk_no_nested(fn):
        if isinstance(st, ast.Expr) and isinstance(st.value, ast.Call) and call_name(st.value) in ("append", "extend") \
                and isinstance(st.value.func, ast.Attribute) and norm(st.value.func.value) == lst_name:
            s = _str_pieces(st.value.args[0]) if st.value.args else None
            if s is None:
                return None
            extra.append((s, [norm(t) + ("" if pol else " is false") for t, pol in guards_of(st, pm)]))
        if isinstance(st, ast.AugAssign) and norm(st.target) == lst_name and isinstance(st.value, ast.List):
            for e in st.value.elts:
                s = _str_pieces(e)
                if s is None:
                    return None
                extra.append((s, [norm(t) for t, pol in guards_of(st, pm)]))
    # key symbols of the keyword dict
    keysym: Dict[str, Poly] = {}
    tuple_vars = set()       # names bound to the (figures, decimals) tuple
    for st in walk_no_nested(fn):
        if isinstance(st, ast.Assign) and isinstance(st.targets[0], ast.Name):
            v = norm(st.value)
            if "position" in v.lower() or "POSTION" in v or "POSITION" in v:
                if not isinstance(st.value, ast.Dict):
                    tuple_vars.add(st.targets[0].id)

    def leaf(e):
        if isinstance(e, ast.Subscript) and isinstance(e.value, ast.Name) and e.value.id in tuple_vars:
            k = const_int(e.slice)
            return {0: F, 1: D}.get(k)
        if isinstance(e, ast.Subscript) and isinstance(e.slice, ast.Constant) and isinstance(e.slice.value, str) \
                and e.slice.value in keysym:
            return keysym[e.slice.value]
        if isinstance(e, ast.Subscript) and isinstance(e.value, ast.Subscript):
            # format_dict["position"][0]
            inner = e.value
            if isinstance(inner.slice, ast.Constant) and inner.slice.value == "position":
                return {0: F, 1: D}.get(const_int(e.slice))
        return None

    stmts = sorted([s for s in walk_no_nested(fn) if isinstance(s, ast.Assign)], key=lambda s: s.lineno)
    for st in stmts:
        if isinstance(st.value, ast.Dict) and all(isinstance(k, ast.Constant) for k in st.value.keys):
            for k, v in zip(st.value.keys, st.value.values):
                p = poly_of(v, leaf)
                if p is not None and isinstance(k.value, str):
                    keysym[k.value] = p
        t = st.targets[0]
        if isinstance(t, ast.Subscript) and isinstance(t.slice, ast.Constant) and isinstance(t.slice.value, str):
            p = poly_of(st.value, leaf)
            if p is not None:
                keysym[t.slice.value] = p

    def fields_of(strings: List[str]):
        out = []
        for s in strings:
            for lit, name, spec, conv in string.Formatter().parse(s):
                if name is None:
                    if lit:
                        out.append({"width": Poly.const(len(lit)), "prec": None, "type": "lit", "spec": lit})
                    continue
                if lit:
                    out.append({"width": Poly.const(len(lit)), "prec": None, "type": "lit", "spec": lit})
                m = SPEC_RE.match(spec or "")
                if not m:
                    return None

                def val(x):
                    if x is None:
                        return None
                    if x.startswith("{"):
                        return keysym.get(x[1:-1])
                    return Poly.const(int(x))
                w = val(m.group("width"))
                if w is None:
                    return None
                out.append({"width": w, "prec": val(m.group("prec")), "type": m.group("type") or "",
                            "align": m.group("align") or "", "sign": m.group("sign") or "", "spec": spec})
        return out

    novel = fields_of(base)
    withvel = fields_of(base + [s for s, _ in extra])
    return novel, withvel, keysym, extra


def _slice_bounds(sub: ast.Subscript, leaf) -> Optional[Tuple[Poly, Optional[Poly]]]:
    if not isinstance(sub.slice, ast.Slice) or sub.slice.step is not None:
        return None
    lo = Poly.const(0) if sub.slice.lower is None else poly_of(sub.slice.lower, leaf)
    hi = None if sub.slice.upper is None else poly_of(sub.slice.upper, leaf)
    if lo is None or (sub.slice.upper is not None and hi is None):
        return None
    return lo, hi


def reader_layout(ctx: Ctx, f: Func, helper: Optional[Func]):
    fn = f.node
    line_param = [p for p in f.params if p not in ("cls", "self")][0]
    width_vars = {}
    for st in walk_no_nested(fn):
        if isinstance(st, ast.Assign) and isinstance(st.targets[0], ast.Name) \
                and isinstance(st.value, ast.Subscript) and isinstance(st.value.value, ast.Subscript) \
                and isinstance(st.value.value.slice, ast.Constant) and st.value.value.slice.value == "position" \
                and const_int(st.value.slice) in (0, 1):
            width_vars[st.targets[0].id] = F if const_int(st.value.slice) == 0 else D

    def leaf(e):
        if isinstance(e, ast.Name) and e.id in width_vars:
            return width_vars[e.id]
        if isinstance(e, ast.Subscript) and isinstance(e.value, ast.Subscript) \
                and isinstance(e.value.slice, ast.Constant) and e.value.slice.value == "position":
            return {0: F, 1: D}.get(const_int(e.slice))
        if isinstance(e, ast.Subscript) and isinstance(e.slice, ast.Constant) and e.slice.value == "velocities":
            return Vv
        if isinstance(e, ast.Attribute) and e.attr == "COORD_START":
            c = f.cls.consts.get("COORD_START") if f.cls else None
            k = const_int(c) if c is not None else None
            return Poly.const(k) if k is not None else None
        return None

    # helper: name -> slice of its parameter
    helper_slices: Dict[int, Tuple[Poly, Optional[Poly]]] = {}
    helper_call_targets: Dict[str, int] = {}
    if helper is not None:
        hp = helper.params[0]
        name_slice: Dict[str, Tuple[Poly, Optional[Poly]]] = {}
        assigns = sorted([s for s in walk_no_nested(helper.node) if isinstance(s, ast.Assign)],
                         key=lambda s: s.lineno)
        for st in assigns:
            if not isinstance(st.targets[0], ast.Name):
                continue
            tname = st.targets[0].id
            for sub in ast.walk(st.value):
                if isinstance(sub, ast.Subscript) and isinstance(sub.value, ast.Name) and sub.value.id == hp:
                    b = _slice_bounds(sub, lambda e: None)
                    if b:
                        name_slice[tname] = b
                elif isinstance(sub, ast.Name) and sub.id in name_slice and tname not in name_slice:
                    name_slice[tname] = name_slice[sub.id]
        for st in walk_no_nested(helper.node):
            if isinstance(st, ast.Return) and isinstance(st.value, ast.Tuple):
                for i, e in enumerate(st.value.elts):
                    if isinstance(e, ast.Name) and e.id in name_slice:
                        helper_slices[i] = name_slice[e.id]
        for st in walk_no_nested(fn):
            if isinstance(st, ast.Assign) and isinstance(st.value, ast.Call) \
                    and call_name(st.value) == helper.name and isinstance(st.targets[0], ast.Tuple):
                for i, e in enumerate(st.targets[0].elts):
                    if isinstance(e, ast.Name):
                        helper_call_targets[e.id] = i

    # locals bound once to a tail of the line (`values = line[20:]`): a slice of the tail is a slice of the line shifted
    # by the tail's start; locals bound once to an expression over one slice of the line name that slice
    from ..pat import single_defs as _sd
    sd = _sd(fn)
    tails: Dict[str, Poly] = {}
    named: Dict[str, ast.AST] = {}
    for nm_, v_ in sd.items():
        if isinstance(v_, ast.Subscript) and isinstance(v_.value, ast.Name) and v_.value.id == line_param \
                and isinstance(v_.slice, ast.Slice) and v_.slice.upper is None and v_.slice.step is None and v_.slice.lower is not None:
            k_ = poly_of(v_.slice.lower, leaf)
            if k_ is not None:
                tails[nm_] = k_
        elif nm_ != line_param:
            named[nm_] = v_

    def elem_slice(e, depth=0):
        if isinstance(e, ast.Name) and e.id in helper_call_targets:
            return helper_slices.get(helper_call_targets[e.id])
        if isinstance(e, ast.Name) and e.id in named and depth < 3:
            return elem_slice(named[e.id], depth + 1)
        for sub in ast.walk(e):
            if isinstance(sub, ast.Subscript) and isinstance(sub.value, ast.Name) and sub.value.id == line_param \
                    and isinstance(sub.slice, ast.Slice):
                return _slice_bounds(sub, leaf)
            if isinstance(sub, ast.Subscript) and isinstance(sub.value, ast.Name) and sub.value.id in tails \
                    and isinstance(sub.slice, ast.Slice):
                b = _slice_bounds(sub, leaf)
                if b is None or b[1] is None:
                    return None
                return (b[0] + tails[sub.value.id], b[1] + tails[sub.value.id])
        return None

    tuples: Dict[str, ast.Tuple] = {}
    order: List[str] = []
    for st in sorted([s for s in walk_no_nested(fn) if isinstance(s, (ast.Assign, ast.AnnAssign, ast.AugAssign))],
                     key=lambda s: s.lineno):
        tgt = st.targets[0] if isinstance(st, ast.Assign) else st.target
        if isinstance(st, (ast.Assign, ast.AnnAssign)) and isinstance(st.value, (ast.Tuple, ast.List)) \
                and isinstance(tgt, ast.Name) and len(st.value.elts) >= 3:
            tuples[tgt.id] = st.value
    base_fields = vel_fields = None
    ret_name = None
    for st in walk_no_nested(fn):
        if isinstance(st, ast.Return) and isinstance(st.value, ast.Name):
            ret_name = st.value.id
    if ret_name in tuples:
        base_fields = [elem_slice(e) for e in tuples[ret_name].elts]
        for st in walk_no_nested(fn):
            if isinstance(st, ast.AugAssign) and isinstance(st.target, ast.Name) and st.target.id == ret_name:
                src = st.value
                if isinstance(src, ast.Name) and src.id in tuples:
                    vel_fields = [elem_slice(e) for e in tuples[src.id].elts]
                elif isinstance(src, (ast.Tuple, ast.List)):
                    vel_fields = [elem_slice(e) for e in src.elts]
    # expected line length
    explen = None
    for st in walk_no_nested(fn):
        if isinstance(st, ast.Assign) and isinstance(st.targets[0], ast.Name) \
                and "expect" in st.targets[0].id.lower():
            explen = poly_of(st.value, leaf)
            if explen is None:
                explen = "non-polynomial: " + norm(st.value)
    # is the length test a raising guard that dominates the slices?
    return base_fields, vel_fields, explen, leaf


def r13_1(ctx: Ctx):
    w = ctx.func("GroFile.parse_atomlist")
    r = ctx.func("GroFile.parse_atomline")
    h = ctx.repo.func("_validate_res_atom_numbers", required=False)
    d = ctx.func("GroFile.determine_format")
    ctx.seen(h)
    wl = writer_layout(ctx, w)
    if wl is None or wl[0] is None or wl[1] is None:
        ctx.ob("R13.1", w, "writer format table", True, "writer layout not in the recognised "
               "list-of-format-strings shape; column agreement not decided on this tree", undecided=True)
        return
    novel, withvel, keysym, extra = wl
    # a numeric field is exactly as wide as the reader's column: a sign flag (' ' or '+') reserves a column on top of the
    # digits, so a positive value that needs the whole width comes out one character wider and shifts every later column
    for fld in withvel:
        if fld.get("type") in ("f", "d", "e", "g") and fld.get("sign") in (" ", "+"):
            ctx.ob("R13.1", w, "format field `{:%s}`" % fld["spec"], False,
                   "numeric fields carry no sign flag: the flag %r reserves a sign column, so a positive number that fills "
                   "the field is written one character wider than the column the reader cuts" % fld["sign"], node=w.node)
    base_fields, vel_fields, explen, leaf = reader_layout(ctx, r, h)
    if base_fields is not None and any(b is None for b in base_fields):
        # a slice of the line whose bounds are arithmetic in the field width but not a polynomial (e.g. a division)
        # cannot be a column boundary
        bad_slices = [sub for sub in ast.walk(r.node) if isinstance(sub, ast.Subscript) and isinstance(sub.slice, ast.Slice)
                      and isinstance(sub.value, ast.Name) and sub.value.id == [p_ for p_ in r.params if p_ not in ("cls", "self")][0]
                      and _slice_bounds(sub, leaf) is None
                      and all(isinstance(x, (ast.Name, ast.Constant, ast.BinOp, ast.operator, ast.Load, ast.Slice, ast.Subscript, ast.expr_context))
                              for b_ in (sub.slice.lower, sub.slice.upper) if b_ is not None for x in ast.walk(b_))]
        if bad_slices:
            ctx.ob("R13.1", r, bad_slices[0], False, "reader slice bounds are integer polynomials in the field width -- "
                   "`%s` is not" % norm(bad_slices[0]), node=bad_slices[0])
            return
    if base_fields is None or any(b is None for b in base_fields):
        # the written fields have no separator of their own (a value that fills its width touches the previous field), so a
        # reader that cuts the numeric part of the line at white space instead of at column boundaries cannot read every
        # line the writer produces
        lp_ = [p_ for p_ in r.params if p_ not in ("cls", "self")][0]
        from ..pat import single_defs as _sd131
        sd131 = _sd131(r.node)

        def _from_line(e_, d_=0):
            if d_ > 4:
                return False
            if isinstance(e_, ast.Name):
                return e_.id == lp_ or (e_.id in sd131 and _from_line(sd131[e_.id], d_ + 1))
            if isinstance(e_, ast.Subscript):
                return _from_line(e_.value, d_ + 1)
            if isinstance(e_, ast.Call) and isinstance(e_.func, ast.Attribute) and e_.func.attr in ("strip", "rstrip", "lstrip", "replace", "expandtabs"):
                return _from_line(e_.func.value, d_ + 1)
            return False
        ws_split = [c_ for c_ in ast.walk(r.node) if isinstance(c_, ast.Call) and isinstance(c_.func, ast.Attribute) and c_.func.attr == "split"
                    and not c_.args and not c_.keywords and _from_line(c_.func.value)]
        floats_from_tokens = any(isinstance(c_, ast.Call) and call_name(c_) == "float" for c_ in ast.walk(r.node))
        if ws_split and floats_from_tokens:
            ctx.ob("R13.1", r, ws_split[0], False, "the reader cuts every numeric field at the writer's column boundaries -- `%s` "
                   "separates the fields at white space: a coordinate or velocity that fills its whole width (e.g. -999.999 "
                   "with %%8.3f) has no blank before it, the two fields are read as one token and the line the writer produced is "
                   "refused or misread" % norm(ws_split[0])[:70], node=ws_split[0])
            return
        ctx.ob("R13.1", r, "reader slice table", True, "reader layout not in the recognised tuple-of-slices "
               "shape; column agreement not decided on this tree", undecided=True)
        return

    def offsets(fields):
        off, out = Poly.const(0), []
        for fld in fields:
            out.append((off, off + fld["width"], fld))
            off = off + fld["width"]
        return out, off

    w_nv, tot_nv = offsets(novel)
    w_v, tot_v = offsets(withvel)
    ctx.extra["writer_layout"] = [{"from": repr(a), "to": repr(b), "spec": fld["spec"]} for a, b, fld in w_v]
    ctx.extra["reader_layout"] = [{"from": repr(b[0]), "to": repr(b[1])} for b in base_fields + (vel_fields or [])]
    data_nv = [x for x in w_nv if x[2]["type"] != "lit"]
    data_v = [x for x in w_v if x[2]["type"] != "lit"]
    n = 0
    rd = list(base_fields)
    if len(rd) != len(data_nv):
        ctx.ob("R13.1", r, "field count", False, "writer emits %d fields without velocities, reader extracts %d"
               % (len(data_nv), len(rd)))
    for i, ((a, b, fld), sl) in enumerate(zip(data_nv, rd)):
        lo, hi = sl
        ok = (lo == a) and (hi is not None and hi == b)
        n += 1
        ctx.ob("R13.1", r, "field %d: writer columns [%r, %r) spec '%s' vs reader slice [%r, %r)"
               % (i, a, b, fld["spec"], lo, hi), ok,
               "reader slice bounds equal the writer's column span (polynomials in the position width F)",
               node=r.node)
    if vel_fields is not None and all(v is not None for v in vel_fields):
        for i, ((a, b, fld), sl) in enumerate(zip(data_v[len(data_nv):], vel_fields)):
            lo, hi = sl
            ok = (lo == a) and (hi is not None and hi == b)
            n += 1
            ctx.ob("R13.1", r, "velocity field %d: writer columns [%r, %r) spec '%s' vs reader slice [%r, %r)"
                   % (i, a, b, fld["spec"], lo, hi), ok,
                   "reader velocity slice equals the writer's column span", node=r.node)
        if len(vel_fields) != len(data_v) - len(data_nv):
            ctx.ob("R13.1", r, "velocity field count", False, "writer emits %d velocity fields, reader extracts %d"
                   % (len(data_v) - len(data_nv), len(vel_fields)))
    elif len(data_v) > len(data_nv):
        ctx.ob("R13.1", r, "velocity fields", False,
               "writer emits velocity columns but the reader's velocity slices were not found")
    # velocity fields appended exactly under the velocities condition
    flag_defs = {}
    pmw = parents_map(w.node)
    for st in walk_no_nested(w.node):
        if isinstance(st, ast.Assign) and isinstance(st.targets[0], ast.Name) and isinstance(st.value, ast.Constant) \
                and isinstance(st.value.value, bool):
            g_ = cguards_of(st, pmw)
            flag_defs.setdefault(st.targets[0].id, []).append((st.value.value, g_))
    inp_w = [p_ for p_ in w.params if p_ not in ("cls", "self")][0]
    for s_, guards in extra:
        flag = [g_ for g_ in guards if not g_.endswith(" is false")]
        okg = len(guards) == 1 and len(flag) == 1 and flag[0] in flag_defs
        if len(guards) == 1 and len(flag) == 1 and flag[0] not in flag_defs:
            # the flag computed by a comparison: `velocities = len(x) == 10` after `if len(x) not in (7, 10): raise`
            fl_as = [st for st in walk_no_nested(w.node) if isinstance(st, ast.Assign) and norm(st.targets[0]) == flag[0]]
            cand = fl_as[0].value if len(fl_as) == 1 else None
            if cand is None:
                try:
                    cand = ast.parse(flag[0], mode="eval").body
                except SyntaxError:
                    cand = None
            got = _flag_by_compare(w.node, cand, "len(%s)" % inp_w, 10, 7, getattr(fl_as[0] if fl_as else s_, "lineno", 1e9)) if cand is not None else None
            if got is None:
                ctx.ob("R13.1", w, "velocity columns appended under %s" % guards, True,
                       "the velocity flag of the writer is not set in a recognised form; not decided on this tree", undecided=True, node=w.node)
            else:
                ctx.ob("R13.1", w, "velocity columns appended under %s; flag = (%s == 10) after refusing lengths other than 7 and 10" % (guards, got),
                       bool(got), "velocity columns are emitted exactly for records of ten fields (anything but 7 or 10 is refused)", node=w.node)
            continue
        if okg:
            # the flag is True exactly for records of 10 fields (7 + 3 velocities) and False for 7
            c10_, c7_ = ctext("len(%s) == 10" % inp_w)[0], ctext("len(%s) == 7" % inp_w)[0]
            want = {True: [(c10_, True)], False: [(c10_, False), (c7_, True)]}
            for val, g_ in flag_defs[flag[0]]:
                if sorted(g_) != sorted(want[val]):
                    okg = False
        ctx.ob("R13.1", w, "velocity columns appended under %s; flag definitions %s" % (guards, flag_defs.get(flag[0] if flag else "", "?")),
               okg, "velocity columns are emitted exactly for records of ten fields (the flag is True under len == 10, "
               "False under len == 7, anything else is refused)", node=w.node)
    # expected length for both settings
    if isinstance(explen, str):
        ctx.ob("R13.1", r, "expected_length " + explen, False, "the expected line length is an integer polynomial in the "
               "field width equal to the writer's total", node=r.node)
    elif explen is not None:
        for v, tot, lab in ((0, tot_nv, "without velocities"), (1, tot_v, "with velocities")):
            got = explen.subst({"V": Poly.const(v)})
            n += 1
            ctx.ob("R13.1", r, "expected_length %s: reader %r vs writer total %r" % (lab, got, tot), got == tot,
                   "the reader's expected line length equals the writer's total width", node=r.node)
    else:
        ctx.ob("R13.1", r, "expected_length", True, "no expected-length expression recognised", undecided=True)
    # every float field: width F precision D (positions) / D+1 (velocities); ints width 5 -> fixed header 20
    for i, (a, b, fld) in enumerate(data_v):
        if fld["type"] == "f":
            isvel = i >= len(data_nv)
            okw = fld["width"] == F
            okp = fld["prec"] is not None and fld["prec"] == (D + 1 if isvel else D)
            n += 1
            ctx.ob("R13.1", w, "float field %d spec '%s' width %r precision %r" % (i, fld["spec"], fld["width"], fld["prec"]),
                   okw and okp, "coordinates use (figures, decimals); velocities one more decimal", node=w.node)
    # determine_format: decimals = figures - 5 ; header width constant equals writer header
    dec_ok = None
    for st in walk_no_nested(d.node):
        if isinstance(st, ast.Dict):
            for k, v in zip(st.keys, st.values):
                if isinstance(k, ast.Constant) and k.value == "position" and isinstance(v, ast.Tuple) and len(v.elts) == 2:
                    fig, dec = v.elts
                    defs = {s.targets[0].id: s.value for s in walk_no_nested(d.node)
                            if isinstance(s, ast.Assign) and isinstance(s.targets[0], ast.Name)}

                    def lf(e):
                        if isinstance(e, ast.Name) and norm(e) == norm(fig):
                            return F
                        if isinstance(e, ast.Name) and e.id in defs and e.id != norm(fig):
                            return poly_of(defs[e.id], lf)
                        return None
                    p = poly_of(dec, lf)
                    dec_ok = (p is not None and p == F - 5)
                    n += 1
                    ctx.ob("R13.1", d, "inferred position format (%s, %s)" % (norm(fig), norm(dec)), bool(dec_ok),
                           "reader infers decimals = figures - 5 (width = decimals + 5)", node=st,
                           decimals_poly=repr(p))
    if dec_ok is None:
        ctx.ob("R13.1", d, "inferred position format", True, "shape not recognised", undecided=True)
    from ..pat import find as pfind
    pmd = parents_map(d.node)
    ret_dicts = [n_ for n_ in walk_no_nested(d.node) if isinstance(n_, ast.Dict) and any(isinstance(k_, ast.Constant) and k_.value == "velocities" for k_ in n_.keys)]
    velv = figv = velcmp = None
    if ret_dicts:
        for k_, v_ in zip(ret_dicts[0].keys, ret_dicts[0].values):
            if k_.value == "velocities" and isinstance(v_, ast.Name):
                velv = v_.id
            if k_.value == "velocities" and isinstance(v_, ast.Compare):
                velcmp = v_
            if k_.value == "position" and isinstance(v_, ast.Tuple) and isinstance(v_.elts[0], ast.Name):
                figv = v_.elts[0].id
    seen_vals = {}
    ndv = None
    for s_ in walk_no_nested(d.node):
        if isinstance(s_, ast.Assign) and velv and norm(s_.targets[0]) == velv and isinstance(s_.value, ast.Constant):
            g_ = guards_of(s_, pmd)
            for t_, pol_ in g_:
                if isinstance(t_, ast.Compare) and isinstance(t_.left, ast.Name):
                    ndv = t_.left.id
            seen_vals[s_.value.value] = cguards_of(s_, pmd)
    c3_, c6_ = ctext("%s == 3" % (ndv or "n"))[0], ctext("%s == 6" % (ndv or "n"))[0]
    vel_ok = ndv is not None and seen_vals.get(False) == [(c3_, True)] and \
        seen_vals.get(True) == sorted([(c3_, False), (c6_, True)])
    if seen_vals:
        ctx.ob("R13.1", d, "velocities flag from the number of decimal points: %s" % seen_vals, vel_ok,
               "three decimal points after the header mean positions only, six mean positions and velocities, anything else is refused",
               node=d.node)
    else:
        # the flag is not set by constant assignments under tests of the count: other recognised spelling
        # `if n not in (3, 6): raise` (canonical: n == 3 or n == 6) followed by `velocities = n == 6`
        alt = False
        cands_ = [(s_.value, s_.lineno) for s_ in walk_no_nested(d.node) if isinstance(s_, ast.Assign) and velv and norm(s_.targets[0]) == velv]
        if velcmp is not None:
            cands_.append((velcmp, velcmp.lineno))
        for v_, ln_ in cands_:
            got_ = _flag_by_compare(d.node, v_, None, 6, 3, ln_)
            if got_ is False:
                ctx.ob("R13.1", d, "velocities flag: %s" % norm(v_), False,
                       "three decimal points after the header mean positions only, six mean positions and velocities", node=v_)
                alt = None
            elif got_:
                nm_ = v_.left if const_int(v_.comparators[0]) is not None else v_.comparators[0]
                ndv = nm_.id if isinstance(nm_, ast.Name) else ndv
                alt = True
        if alt is None:
            pass
        elif alt:
            ctx.ob("R13.1", d, "velocities flag: %s == 6 after refusing counts other than 3 and 6" % ndv, True,
                   "three decimal points after the header mean positions only, six mean positions and velocities, anything else is refused",
                   node=d.node)
        else:
            ctx.ob("R13.1", d, "velocities flag", True, "the velocity flag is not set in a recognised form; not decided on this tree",
                   undecided=True, node=d.node)
    figs = pfind(d.node, "V_fig = (V_size - cls.COORD_START) // V_nd")
    okf = any(b_["V_fig"] == figv and b_["V_nd"] == ndv for _, b_ in figs)
    if okf:
        szb = [b_ for _, b_ in figs if b_["V_fig"] == figv][0]["V_size"]
        okf = bool(pfind(d.node, "%s = len(V_line)" % szb))
    if not figs:
        dm = pfind(d.node, "V_fig, V_rem = divmod(len(V_line) - cls.COORD_START, V_nd)")
        if dm and dm[0][1]["V_fig"] == figv and dm[0][1]["V_nd"] == ndv:
            figs, okf = dm, True
    if figs:
        ctx.ob("R13.1", d, figs[0][0], okf,
               "the field width is (line length - header width) // number of float fields", node=figs[0][0])
    else:
        ctx.ob("R13.1", d, "field width", True, "the field width is not computed in a recognised form; not decided on this tree",
               undecided=True, node=d.node)
    n += 2
    cs = d.cls.consts.get("COORD_START") if d.cls else None
    hdr = Poly.const(0)
    for a, b, fld in w_nv:
        if fld["type"] == "f":
            break
        hdr = b
    if cs is not None and const_int(cs) is not None:
        n += 1
        ctx.ob("R13.1", d, "COORD_START = %s vs writer header width %r" % (norm(cs), hdr),
               Poly.const(const_int(cs)) == hdr, "coordinates start where the writer's fixed header ends",
               node=cs)
    ctx.floor("R13.1", n, 10, "layout comparisons")


# ---------------------------------------------------------------------------
# R13.2 typestate of the format record
# ---------------------------------------------------------------------------
def _fmt_key_store(st: ast.AST, rec_attr: str) -> List[str]:
    """Keys of self.<rec_attr>[K] = ... stores in a simple statement."""
    out = []
    if isinstance(st, ast.Assign):
        for t in st.targets:
            if isinstance(t, ast.Subscript) and attr_chain(t.value) == "self." + rec_attr \
                    and isinstance(t.slice, ast.Constant):
                out.append(t.slice.value)
    return out


def _fmt_none_test(test: ast.AST, rec_attr: str) -> Optional[Tuple[str, bool]]:
    """(key, True) for `self._format[key] is None`; (key, False) for `is not None`."""
    if isinstance(test, ast.Compare) and len(test.ops) == 1 and isinstance(test.left, ast.Subscript) \
            and attr_chain(test.left.value) == "self." + rec_attr and isinstance(test.left.slice, ast.Constant) \
            and isinstance(test.comparators[0], ast.Constant) and test.comparators[0].value is None:
        if isinstance(test.ops[0], (ast.Is, ast.Eq)):
            return test.left.slice.value, True
        if isinstance(test.ops[0], (ast.IsNot, ast.NotEq)):
            return test.left.slice.value, False
    if isinstance(test, ast.UnaryOp) and isinstance(test.op, ast.Not):
        t = test.operand
        if isinstance(t, ast.Subscript) and attr_chain(t.value) == "self." + rec_attr \
                and isinstance(t.slice, ast.Constant):
            return t.slice.value, True
    return None


def r13_2(ctx: Ctx):
    cls = ctx.repo.cls("GroFile")
    init = ctx.func("GroFile.__init__")
    setup = ctx.func("GroFile._setup_write_file")
    wl = ctx.func("GroFile.writeline")
    rec = None
    keys: List[str] = []
    for st in walk_no_nested(init.node):
        tgt = None
        if isinstance(st, ast.Assign):
            tgt, val = st.targets[0], st.value
        elif isinstance(st, ast.AnnAssign):
            tgt, val = st.target, st.value
        if tgt is not None and isinstance(val, ast.Dict) and attr_chain(tgt) and attr_chain(tgt).startswith("self.") \
                and all(isinstance(k, ast.Constant) and k.value in ("position", "velocities") for k in val.keys) \
                and val.keys:
            rec = attr_chain(tgt)[5:]
            keys = [k.value for k in val.keys]
            init_state = {k.value: not (isinstance(v, ast.Constant) and v.value is None)
                          for k, v in zip(val.keys, val.values)}
    if rec is None:
        # a record taken from a class-level dict is shared by every reader/writer of the process
        for st in walk_no_nested(init.node):
            if isinstance(st, ast.Assign) and isinstance(st.value, ast.Attribute) and isinstance(st.value.value, ast.Name) \
                    and st.value.value.id in ("self", "cls", cls.name) and st.value.attr in cls.consts \
                    and isinstance(cls.consts[st.value.attr], (ast.Dict, ast.List, ast.Set)):
                ctx.ob("R13.2", init, st, False, "the format record is per-file state and must be a fresh dict for every GroFile -- "
                       "`%s` is a class-level mutable shared by all instances (one writer's format leaks into the next)" % norm(st.value),
                       node=st)
                return
        raise AnalysisError("R13.2: format record (dict with keys position/velocities) not found in GroFile.__init__")
    # states reachable through the public API before the first write: every function of the class other
    # than the set-up itself that stores a key
    setters = []
    for fq, f in ctx.repo.funcs.items():
        if f.cls is cls and f is not setup and f is not init:
            ks = set()
            whole = False
            for st in walk_no_nested(f.node):
                ks.update(_fmt_key_store(st, rec))
                if isinstance(st, ast.Assign) and any(attr_chain(t) == "self." + rec for t in st.targets):
                    whole = True
            if ks and not whole:
                setters.append((f, ks))
    # only setters callable in write mode before the first record matter: those not reachable from read-only
    # paths are all of them here; compute closure of states
    states = {tuple(sorted(init_state.items()))}
    changed = True
    while changed:
        changed = False
        for f, ks in setters:
            for s in list(states):
                d = dict(s)
                for k in ks:
                    d[k] = True
                t = tuple(sorted(d.items()))
                if t not in states:
                    states.add(t)
                    changed = True
    ctx.extra["format_record"] = {"attribute": rec, "keys": keys,
                                  "writers_outside_setup": [f.qual + " -> " + ",".join(sorted(ks)) for f, ks in setters],
                                  "initial_states": [dict(s) for s in sorted(states)]}
    # the first formatted write inside the set-up: a call that formats the record (writeline / parse_atomlist)
    paths = enum_paths(setup.node.body)
    n = 0
    for s0 in sorted(states):
        for p in paths:
            st8 = dict(s0)
            feasible = True
            reached_write = False
            for ev in p.events:
                if ev[0] == "c":
                    t = _fmt_none_test(ev[1], rec)
                    if t is not None:
                        key, is_none_when_true = t
                        is_none = not st8.get(key, False)
                        outcome_needed = (is_none == is_none_when_true)
                        if ev[2] != outcome_needed:
                            feasible = False
                            break
                elif ev[0] == "s":
                    stn = ev[1]
                    wrote = False
                    for c in [x for x in ast.walk(stn) if isinstance(x, ast.Call)]:
                        if call_name(c) in ("writeline", "parse_atomlist") or \
                                any(attr_chain(a) == "self." + rec for a in list(c.args) + [k.value for k in c.keywords]):
                            wrote = True
                    if wrote:
                        reached_write = True
                        n += 1
                        missing = [k for k in keys if not st8.get(k, False)]
                        ctx.ob("R13.2", setup,
                               "state %s at first formatted write `%s`" % (
                                   "{" + ", ".join("%s:%s" % (k, "Set" if v else "None") for k, v in s0) + "}",
                                   norm(stn)),
                               not missing,
                               "both keys of the format record are Set when the first record is formatted"
                               + ("" if not missing else " -- still None: %s (reachable: preset through %s)"
                                  % (missing, [f.name for f, ks in setters])),
                               node=stn, path=p.describe()[:300])
                        break
                    for k in _fmt_key_store(stn, rec):
                        st8[k] = True
            if not feasible:
                continue
    ctx.floor("R13.2", n, 2, "(initial state, path) pairs reaching the first formatted write")
    vst = [s_ for s_ in walk_no_nested(setup.node) if isinstance(s_, ast.Assign) and "velocities" in _fmt_key_store(s_, rec)]
    p_rec = [p_ for p_ in setup.params if p_ != "self"][0]
    ctx.ob("R13.2", setup, vst[0] if vst else "velocities key", bool(vst) and norm(vst[0].value).replace(" ", "") == "len(%s)==10" % p_rec,
           "the file carries velocities exactly when its first record has ten fields", node=vst[0] if vst else setup.node)
    # writeline routes the first record through the set-up (guard on the header position)
    ok = any(isinstance(c, ast.Call) and call_name(c) == setup.name for c in ast.walk(wl.node))
    ctx.ob("R13.2", wl, "first record goes through %s" % setup.name, ok,
           "writeline delegates the first record to the set-up routine", node=wl.node)


# ---------------------------------------------------------------------------
# R13.3 the five-digit wrap (piecewise-affine interpretation)
# ---------------------------------------------------------------------------
LIMIT = 10 ** 7
MAXV = 99999


class Undecided(Exception):
    pass


def _consts(e: ast.AST) -> List[int]:
    out = [n.value for n in ast.walk(e) if isinstance(n, ast.Constant) and isinstance(n.value, int)
           and not isinstance(n.value, bool)]
    out += [CLASS_CONSTS[n.attr] for n in ast.walk(e) if isinstance(n, ast.Attribute) and n.attr in CLASS_CONSTS]
    return out


CLASS_CONSTS: Dict[str, int] = {}


def _aff_eval(e: ast.AST, is_x, lo: int, hi: int):
    """Affine form (a, b) meaning a*x+b valid for all integers x in [lo, hi]; or ('bool', v)."""
    if is_x(e):
        return (1, 0)
    if isinstance(e, ast.Attribute) and isinstance(e.value, ast.Name) and e.value.id in ("cls", "self", "GroFile") \
            and e.attr in CLASS_CONSTS:
        return (0, CLASS_CONSTS[e.attr])
    if isinstance(e, ast.Constant) and isinstance(e.value, bool):
        return ("bool", e.value)
    if isinstance(e, ast.Constant) and isinstance(e.value, int):
        return (0, e.value)
    if isinstance(e, ast.Call) and call_name(e) in ("int", "bool") and len(e.args) == 1:
        v = _aff_eval(e.args[0], is_x, lo, hi)
        if v[0] == "bool":
            return (0, int(v[1]))
        return v
    if isinstance(e, ast.Call) and call_name(e) in ("min", "max") and len(e.args) == 2:
        a, b = (_aff_eval(x, is_x, lo, hi) for x in e.args)
        fa = (a[0] * lo + a[1], a[0] * hi + a[1])
        fb = (b[0] * lo + b[1], b[0] * hi + b[1])
        want_min = call_name(e) == "min"
        if fa[0] <= fb[0] and fa[1] <= fb[1]:
            return a if want_min else b
        if fb[0] <= fa[0] and fb[1] <= fa[1]:
            return b if want_min else a
        raise Undecided("min/max operands cross inside a piece")
    if isinstance(e, ast.IfExp):
        t = _aff_eval(e.test, is_x, lo, hi)
        if t[0] != "bool":
            raise Undecided("non-boolean test")
        return _aff_eval(e.body if t[1] else e.orelse, is_x, lo, hi)
    if isinstance(e, ast.Compare) and len(e.ops) == 1:
        a = _aff_eval(e.left, is_x, lo, hi)
        b = _aff_eval(e.comparators[0], is_x, lo, hi)
        if a[0] == "bool" or b[0] == "bool":
            raise Undecided("comparison of booleans")
        d = (a[0] - b[0], a[1] - b[1])
        vals = (d[0] * lo + d[1], d[0] * hi + d[1])
        mn, mx = min(vals), max(vals)
        op = e.ops[0]
        table = {ast.Gt: (mn > 0, mx <= 0), ast.GtE: (mn >= 0, mx < 0), ast.Lt: (mx < 0, mn >= 0),
                 ast.LtE: (mx <= 0, mn > 0), ast.Eq: (mn == 0 == mx, mn > 0 or mx < 0),
                 ast.NotEq: (mn > 0 or mx < 0, mn == 0 == mx)}
        if type(op) not in table:
            raise Undecided("comparison operator")
        t, f_ = table[type(op)]
        if t:
            return ("bool", True)
        if f_:
            return ("bool", False)
        raise Undecided("comparison flips inside a piece [%d,%d]" % (lo, hi))
    if isinstance(e, ast.UnaryOp) and isinstance(e.op, ast.USub):
        a = _aff_eval(e.operand, is_x, lo, hi)
        return (-a[0], -a[1])
    if isinstance(e, ast.BinOp):
        a = _aff_eval(e.left, is_x, lo, hi)
        b = _aff_eval(e.right, is_x, lo, hi)
        if a[0] == "bool":
            a = (0, int(a[1]))
        if b[0] == "bool":
            b = (0, int(b[1]))
        if isinstance(e.op, ast.Add):
            return (a[0] + b[0], a[1] + b[1])
        if isinstance(e.op, ast.Sub):
            return (a[0] - b[0], a[1] - b[1])
        if isinstance(e.op, ast.Mult):
            if a[0] == 0:
                return (a[1] * b[0], a[1] * b[1])
            if b[0] == 0:
                return (a[0] * b[1], a[1] * b[1])
            raise Undecided("non-linear product")
        if isinstance(e.op, (ast.Mod, ast.FloorDiv)):
            if b[0] != 0 or b[1] <= 0:
                raise Undecided("modulus is not a positive constant")
            m = b[1]
            vlo, vhi = a[0] * lo + a[1], a[0] * hi + a[1]
            q1, q2 = min(vlo, vhi) // m, max(vlo, vhi) // m
            if q1 != q2:
                raise Undecided("quotient changes inside a piece")
            if isinstance(e.op, ast.Mod):
                return (a[0], a[1] - q1 * m)
            return (0, q1)
    raise Undecided("expression form %s" % type(e).__name__)


def _pieces(e: ast.AST) -> List[Tuple[int, int]]:
    cuts = {0, LIMIT + 1, MAXV + 1}
    for c in _consts(e):
        if c <= 0:
            continue
        for k in (c - 1, c, c + 1):
            if 0 < k <= LIMIT:
                cuts.add(k)
        if c > 1 and LIMIT // c <= 5000:
            for m in range(c, LIMIT + 2, c):
                # the quotient of (x + d) // c changes at m - d: cut around every multiple (small offsets d)
                for k in (m - 2, m - 1, m, m + 1, m + 2):
                    if 0 < k <= LIMIT + 1:
                        cuts.add(k)
    cs = sorted(cuts)
    return [(a, b - 1) for a, b in zip(cs, cs[1:]) if b - 1 >= a]


def r13_3(ctx: Ctx):
    f = ctx.func("GroFile.parse_atomlist")
    CLASS_CONSTS.clear()
    if f.cls is not None:
        for k, v in f.cls.consts.items():
            c = const_int(v)
            if c is not None:
                CLASS_CONSTS[k] = c
    wl = writer_layout(ctx, f)
    if wl is None or wl[0] is None:
        ctx.ob("R13.3", f, "integer slots", True, "writer layout not recognised", undecided=True)
        return
    novel = [x for x in wl[0] if x["type"] != "lit"]
    int_slots = [i for i, fld in enumerate(novel) if fld["type"] == "d"]
    # the sequence that is formatted: "...".format(*seq, **kw)
    seq = None
    for c in ast.walk(f.node):
        if isinstance(c, ast.Call) and call_name(c) == "format":
            for a in c.args:
                if isinstance(a, ast.Starred) and isinstance(a.value, ast.Name):
                    seq = a.value.id
    inp = [p for p in f.params if p not in ("cls", "self")][0]
    if seq is None:
        ctx.ob("R13.3", f, "formatted sequence", True, "format(*sequence) not recognised", undecided=True)
        return
    n = 0
    for slot in int_slots:
        # definition of seq[slot]
        expr = None
        for st in walk_no_nested(f.node):
            if isinstance(st, ast.Assign) and isinstance(st.targets[0], ast.Subscript) \
                    and isinstance(st.targets[0].value, ast.Name) and st.targets[0].value.id == seq \
                    and const_int(st.targets[0].slice) == slot:
                expr, site = st.value, st
        # the same slot assigned in both branches of one test: read as the conditional expression it is
        for st in walk_no_nested(f.node):
            if isinstance(st, ast.If) and len(st.body) == 1 and len(st.orelse) == 1 and all(
                    isinstance(b_, ast.Assign) and isinstance(b_.targets[0], ast.Subscript) and isinstance(b_.targets[0].value, ast.Name)
                    and b_.targets[0].value.id == seq and const_int(b_.targets[0].slice) == slot for b_ in (st.body[0], st.orelse[0])):
                expr, site = ast.copy_location(ast.IfExp(st.test, st.body[0].value, st.orelse[0].value), st), st
        if expr is None:
            # the sequence built as a list literal whose leading elements are the (wrapped) numbers themselves
            from ..pat import expand_single_defs as _xsd133
            for st in walk_no_nested(f.node):
                if isinstance(st, ast.Assign) and len(st.targets) == 1 and isinstance(st.targets[0], ast.Name) and st.targets[0].id == seq \
                        and isinstance(st.value, (ast.List, ast.Tuple)) and slot < len(st.value.elts) \
                        and not any(isinstance(e_, ast.Starred) for e_ in st.value.elts[:slot + 1]):
                    el_ = st.value.elts[slot]
                    ex_ = _xsd133(f.node, el_)
                    # only when the element really is computed (not the raw input element): a raw `inp[slot]` stays "unwrapped"
                    if norm(ex_) != "%s[%d]" % (inp, slot):
                        expr, site = ex_, st
        n += 1
        if expr is None:
            ctx.ob("R13.3", f, "slot %d of %s is formatted unwrapped" % (slot, seq), False,
                   "numbers above 99999 must be wrapped into five columns; this slot is the raw input",
                   node=f.node)
            continue

        others = [norm(e_) for e_ in ast.walk(expr) if isinstance(e_, ast.Subscript) and isinstance(e_.value, ast.Name)
                  and e_.value.id in (inp, seq) and const_int(e_.slice) not in (None, slot)]
        if others:
            ctx.ob("R13.3", f, site, False, "slot %d is computed from the same field of the input record -- it reads %s"
                   % (slot, others), node=site)
            continue

        def is_x(e, slot=slot):
            return isinstance(e, ast.Subscript) and isinstance(e.value, ast.Name) \
                and e.value.id in (inp, seq) and const_int(e.slice) == slot
        try:
            bad_id, bad_rng = None, None
            pcs = _pieces(expr)
            for lo, hi in pcs:
                a, b = _aff_eval(expr, is_x, lo, hi)
                if a == "bool":
                    a, b = 0, int(b)
                if hi <= MAXV and (a, b) != (1, 0) and bad_id is None:
                    bad_id = (lo, hi, a, b)
                vals = (a * lo + b, a * hi + b)
                if (min(vals) < 0 or max(vals) > MAXV) and bad_rng is None:
                    bad_rng = (lo, hi, a, b)
            ok = bad_id is None and bad_rng is None
            why = ""
            if bad_id:
                lo, hi, a, b = bad_id
                why += " -- not the identity on [%d, %d]: value is %d*x%+d (e.g. x=%d -> %d)" % (lo, hi, a, b, hi, a * hi + b)
            if bad_rng:
                lo, hi, a, b = bad_rng
                why += " -- leaves five columns on [%d, %d]: value is %d*x%+d" % (lo, hi, a, b)
            ctx.ob("R13.3", f, site, ok,
                   "wrap is the identity on [0, 99999] and stays within [0, 99999] on [0, 10^7]" + why,
                   node=site, pieces=len(pcs), slot=slot)
        except Undecided as exc:
            ctx.ob("R13.3", f, site, True, "wrap expression outside the piecewise-affine fragment (%s)" % exc,
                   node=site, undecided=True)
    ctx.floor("R13.3", n, 2, "five-digit integer slots")


# ---------------------------------------------------------------------------
# R13.4 box tables
# ---------------------------------------------------------------------------
def _index_table(f: Func) -> Optional[Tuple[str, List[int]]]:
    for st in walk_no_nested(f.node):
        if isinstance(st, ast.Assign) and isinstance(st.value, (ast.Tuple, ast.List)) \
                and len(st.value.elts) == 9 and all(const_int(e) is not None for e in st.value.elts) \
                and isinstance(st.targets[0], ast.Name):
            return st.targets[0].id, [const_int(e) for e in st.value.elts]
    return None


def r13_4(ctx: Ctx, rule: str = "R13.4"):
    ex = ctx.func("extract_lattice_gro")
    du = ctx.func("dump_lattice_gro")
    te, td = _index_table(ex), _index_table(du)
    if te is None or td is None:
        ctx.ob(rule, ex, "index tables", True, "index tables not in the literal-tuple shape", undecided=True)
        _triclinic_test(ctx, rule, du)
        r13_4_counts(ctx, rule, ex, du)
        return
    ctx.ob(rule, du, "index table %s" % (td[1],), sorted(td[1]) == list(range(9)),
           "writer's table is a permutation of 0..8", node=du.node)
    ctx.ob(rule, ex, "index table %s" % (te[1],), sorted(te[1]) == list(range(9)),
           "reader's table is a permutation of 0..8", node=ex.node)
    ctx.ob(rule, ex, "reader table %s vs writer table %s" % (te[1], td[1]), te[1] == td[1],
           "both sides use the same component order", node=ex.node)
    # roles: reader scatters (store index taken from the table), writer gathers (load index from the table)
    def role(f: Func, tab: str) -> str:
        for loop in [n for n in walk_no_nested(f.node) if isinstance(n, ast.For)]:
            it = norm(loop.iter)
            if tab not in it:
                continue
            tnames = [n.id for n in ast.walk(loop.target) if isinstance(n, ast.Name)]
            if "enumerate" in it and len(tnames) == 2:
                pos, val = tnames
            elif "zip" in it and len(tnames) == 2:
                args = loop.iter.args if isinstance(loop.iter, ast.Call) else []
                if len(args) == 2 and norm(args[0]) == tab:
                    val, pos = tnames[0], None
                elif len(args) == 2 and norm(args[1]) == tab:
                    val, pos = tnames[1], None
                else:
                    continue
            else:
                continue
            for st in walk_no_nested(loop):
                if isinstance(st, ast.Assign) and isinstance(st.targets[0], ast.Subscript):
                    store_idx = norm(st.targets[0].slice)
                    loads = [norm(s.slice) for s in ast.walk(st.value) if isinstance(s, ast.Subscript)]
                    if store_idx == val:
                        return "scatter"
                    if val in loads and (pos is None or store_idx == pos):
                        return "gather"
        return "?"
    re_, rw = role(ex, te[0]), role(du, td[0])
    ctx.ob(rule, ex, "reader role=%s writer role=%s" % (re_, rw), {re_, rw} == {"scatter", "gather"},
           "one side scatters by the table and the other gathers by it (inverse permutations)", node=ex.node)
    _triclinic_test(ctx, rule, du)
    r13_4_counts(ctx, rule, ex, du)


def _triclinic_test(ctx: Ctx, rule: str, du: Func):
    # nine numbers whenever any off-diagonal component is non-zero
    from ..pat import single_defs as _sd
    sd_ = _sd(du.node)
    ifs = [n_ for n_ in walk_no_nested(du.node) if isinstance(n_, ast.If)]
    okt, shown, verdict = False, "", None
    for n_ in ifs:
        t = n_.test
        tpol = True
        while isinstance(t, ast.UnaryOp) and isinstance(t.op, ast.Not):
            t, tpol = t.operand, not tpol
        if isinstance(t, ast.Name) and t.id in sd_:
            t = sd_[t.id]
            while isinstance(t, ast.UnaryOp) and isinstance(t.op, ast.Not):
                t, tpol = t.operand, not tpol
        when_any, when_none = (n_.body, n_.orelse) if tpol else (n_.orelse, n_.body)
        body9 = any(isinstance(x, ast.Assign) and const_int(x.value) == 9 for x in when_any)
        else3 = any(isinstance(x, ast.Assign) and const_int(x.value) == 3 for x in when_none)
        if not (body9 or else3):
            continue
        shown = norm(t)
        inner = None
        if isinstance(t, ast.Call) and call_name(t) in ("any", "count_nonzero") and (t.args or isinstance(t.func, ast.Attribute)):
            inner = t.args[0] if t.args else t.func.value
        if inner is None:
            continue
        if isinstance(inner, ast.Compare) and isinstance(inner.ops[0], ast.NotEq) and const_int(inner.comparators[0]) == 0:
            inner = inner.left
        whole = isinstance(inner, ast.Subscript) and isinstance(inner.slice, ast.Slice) and const_int(inner.slice.lower) == 3 \
            and inner.slice.upper is None and inner.slice.step is None
        partial = isinstance(inner, ast.Compare) or (isinstance(inner, ast.Call) and call_name(inner) in ("tril", "triu", "abs", "fabs", "absolute",
                                                                                                           "isclose", "greater", "less")) \
            or (isinstance(inner, ast.Subscript) and isinstance(inner.slice, ast.Slice) and not whole)
        if whole:
            okt, verdict = body9 and else3, True
        elif partial:
            okt, verdict = False, True
    if verdict:
        ctx.ob(rule, du, "triclinic test `%s`" % shown, okt,
               "all nine components are written as soon as any of the six off-diagonal ones is non-zero (of either sign), "
               "three otherwise", node=ifs[0] if ifs else du.node)
    else:
        ctx.ob(rule, du, "triclinic test `%s`" % shown, True, "the test that selects three or nine box components is not in a recognised "
               "form; not decided on this tree", undecided=True, node=ifs[0] if ifs else du.node)
    # number of components written: 3 or 9
    lims = sorted({const_int(st.value) for st in walk_no_nested(du.node)
                   if isinstance(st, ast.Assign) and const_int(st.value) is not None})
    ctx.extra["box_components_written"] = lims


# ---------------------------------------------------------------------------
# R13.4b how many box numbers the writer can emit vs how many the reader accepts
# ---------------------------------------------------------------------------
class _IntSets:
    """Value sets of small integer expressions inside one function.  `exact` means every member is attained by some
    input (at most one data-dependent leaf feeds each value; leaves: the position of the first/last non-zero entry,
    the number of non-zero entries of a vector of known length)."""
    def __init__(self, fn: ast.AST):
        self.fn = fn
        self.defs: Dict[str, List[ast.AST]] = {}
        for st in walk_no_nested(fn):
            if isinstance(st, ast.Assign) and len(st.targets) == 1 and isinstance(st.targets[0], ast.Name):
                self.defs.setdefault(st.targets[0].id, []).append(st.value)

    def length(self, e, depth=0) -> Optional[int]:
        """number of entries of a 1-D array expression, when the code fixes it"""
        if depth > 6:
            return None
        if isinstance(e, ast.Name) and len(self.defs.get(e.id, [])) == 1:
            return self.length(self.defs[e.id][0], depth + 1)
        if isinstance(e, (ast.List, ast.Tuple)):
            return len(e.elts)
        if isinstance(e, ast.Subscript):
            if isinstance(e.slice, ast.Slice):
                n = self.length(e.value, depth + 1)
                lo = const_int(e.slice.lower) if e.slice.lower is not None else 0
                hi = const_int(e.slice.upper) if e.slice.upper is not None else n
                if n is None or lo is None or hi is None or e.slice.step is not None:
                    return None
                lo = lo + n if lo < 0 else lo
                hi = hi + n if hi < 0 else hi
                return max(0, min(hi, n) - min(lo, n))
            idx = e.slice
            if isinstance(idx, ast.Name) and len(self.defs.get(idx.id, [])) == 1:
                idx = self.defs[idx.id][0]
            if isinstance(idx, (ast.List, ast.Tuple)):
                return len(idx.elts)                       # fancy indexing by a literal table
            if isinstance(idx, ast.Call) and call_name(idx) in ("array", "asarray") and idx.args and isinstance(idx.args[0], (ast.List, ast.Tuple)):
                return len(idx.args[0].elts)
            return None
        if isinstance(e, ast.Call) and call_name(e) in ("zeros", "ones", "empty") and e.args and const_int(e.args[0]) is not None:
            return const_int(e.args[0])
        if isinstance(e, ast.Call) and call_name(e) in ("zeros_like", "copy", "abs", "absolute", "asarray", "array") and e.args:
            return self.length(e.args[0], depth + 1)
        return None

    def _nz(self, e, depth):
        """length of the vector whose non-zero positions `e` lists (flatnonzero(v), nonzero(v)[0], where(v)[0])"""
        if isinstance(e, ast.Name) and len(self.defs.get(e.id, [])) == 1:
            return self._nz(self.defs[e.id][0], depth + 1) if depth < 6 else None
        if isinstance(e, ast.Call) and call_name(e) == "flatnonzero" and len(e.args) == 1:
            return self.length(e.args[0])
        if isinstance(e, ast.Subscript) and const_int(e.slice) == 0 and isinstance(e.value, ast.Call) \
                and call_name(e.value) in ("nonzero", "where") and len(e.value.args) == 1:
            return self.length(e.value.args[0])
        return None

    def values(self, e, depth=0):
        """(set of ints, exact) or None"""
        if depth > 8:
            return None
        k = const_int(e)
        if k is not None:
            return {k}, True
        if isinstance(e, ast.Name):
            ds = self.defs.get(e.id)
            if not ds:
                return None
            out, ex = set(), True
            for d in ds:
                r = self.values(d, depth + 1)
                if r is None:
                    return None
                out |= r[0]
                ex = ex and r[1]
            return out, ex
        if isinstance(e, ast.IfExp):
            a, b = self.values(e.body, depth + 1), self.values(e.orelse, depth + 1)
            if a is None or b is None:
                return None
            return a[0] | b[0], a[1] and b[1]
        if isinstance(e, ast.BinOp) and isinstance(e.op, (ast.Add, ast.Sub, ast.Mult)):
            a, b = self.values(e.left, depth + 1), self.values(e.right, depth + 1)
            if a is None or b is None:
                return None
            f = {ast.Add: lambda x, y: x + y, ast.Sub: lambda x, y: x - y, ast.Mult: lambda x, y: x * y}[type(e.op)]
            single = len(a[0]) == 1 or len(b[0]) == 1
            return {f(x, y) for x in a[0] for y in b[0]}, a[1] and b[1] and single
        if isinstance(e, ast.Subscript) and const_int(e.slice) in (-1, 0):
            n = self._nz(e.value, 0)
            if n:
                return set(range(n)), True                 # position of the last / first non-zero entry
        if isinstance(e, ast.Attribute) and e.attr == "size":
            n = self._nz(e.value, 0)
            if n is not None:
                return set(range(n + 1)), True
        if isinstance(e, ast.Call) and call_name(e) == "len" and len(e.args) == 1:
            n = self._nz(e.args[0], 0)
            if n is not None:
                return set(range(n + 1)), True
            n = self.length(e.args[0])
            if n is not None:
                return {n}, True
        if isinstance(e, ast.Call) and call_name(e) == "count_nonzero" and len(e.args) == 1:
            n = self.length(e.args[0])
            if n is not None:
                return set(range(n + 1)), True
        if isinstance(e, ast.Call) and call_name(e) in ("int", "bool") and len(e.args) == 1:
            return {0, 1}, True
        return None


def r13_4_counts(ctx: Ctx, rule: str, ex: Func, du: Func):
    """If the reader refuses box lines by the number of values they hold, every count the writer can emit must be one it
    accepts (two cooperating edits: a writer that emits "as many components as are set" and a reader that insists on 3
    or 9 each round-trip alone)."""
    from .exmap import eval_size_test
    # reader: raising guards on len(<values>)
    guards = [n_ for n_ in walk_no_nested(ex.node) if isinstance(n_, ast.If) and branch_raises(n_.body)
              and any(isinstance(c_, ast.Call) and call_name(c_) == "len" for c_ in ast.walk(n_.test))]
    names = {norm(c_) for g_ in guards for c_ in ast.walk(g_.test) if isinstance(c_, ast.Call) and call_name(c_) == "len"}
    size_names = set(names) | {norm(st.targets[0]) for st in walk_no_nested(ex.node) if isinstance(st, ast.Assign)
                               and isinstance(st.value, ast.Call) and call_name(st.value) == "len"}
    accepted = set(range(0, 13))
    decided = True
    for g_ in guards:
        for n in list(accepted):
            tv = eval_size_test(g_.test, n, size_names)
            if tv is None:
                decided = False
            elif tv:
                accepted.discard(n)
    # writer: the upper bound of the slice of the reordered vector that is formatted
    iv = _IntSets(du.node)
    lim = None
    for sub in ast.walk(du.node):
        if isinstance(sub, ast.Subscript) and isinstance(sub.slice, ast.Slice) and sub.slice.lower is None and sub.slice.upper is not None \
                and sub.slice.step is None and not isinstance(sub.ctx, ast.Store):
            par_ok = True
            lim = sub.slice.upper
    w = iv.values(lim) if lim is not None else None
    if not guards:
        ctx.ob(rule, ex, "box line counts: reader accepts any count, writer emits %s" % (sorted(w[0]) if w else "?"), True,
               "the reader accepts every number of box values the writer can emit (it does not refuse lines by their count)", node=ex.node)
        return
    if not decided or w is None:
        ctx.ob(rule, ex, guards[0], True, "the reader refuses box lines by their number of values; the counts the writer can emit "
               "(%s) or the reader's test are not in a recognised form; agreement not decided on this tree" % (norm(lim) if lim is not None else "?"),
               undecided=True, node=guards[0])
        return
    bad = sorted(w[0] - accepted)
    if bad and not w[1]:
        ctx.ob(rule, ex, guards[0], True, "the writer's component count may take values the reader refuses (%s) but attainability is not "
               "established; not decided on this tree" % bad, undecided=True, node=guards[0])
        return
    ctx.ob(rule, ex, "box line counts: reader accepts %s, writer emits %s" % (sorted(accepted), sorted(w[0])), not bad,
           "every number of box values the writer can emit is accepted by the reader"
           + ("" if not bad else " -- the writer emits %s values for some boxes (e.g. only the first off-diagonal terms set) and the "
              "reader raises on them: a file this package wrote cannot be opened" % bad), node=guards[0])


# ---------------------------------------------------------------------------
# R13.5 count back-fill geometry
# ---------------------------------------------------------------------------
def stmts_sorted_local(fn):
    out = [s_ for s_ in walk_no_nested(fn) if isinstance(s_, ast.stmt) and s_ is not fn]
    out.sort(key=lambda s_: (s_.lineno, s_.col_offset))
    return out


def r13_5(ctx: Ctx):
    setup = ctx.func("GroFile._setup_write_file")
    closing = ctx.func("GroFile._write_closing_info")
    wl = ctx.func("GroFile.writeline")
    NF = Poly.sym("NF")

    def leaf(e):
        if isinstance(e, ast.Attribute) and e.attr == "NUMBER_FIGURES":
            return NF
        return None

    def str_len(e) -> Optional[Poly]:
        if isinstance(e, ast.Constant) and isinstance(e.value, str):
            return Poly.const(len(e.value))
        if isinstance(e, ast.BinOp) and isinstance(e.op, ast.Add):
            a, b = str_len(e.left), str_len(e.right)
            return a + b if a is not None and b is not None else None
        if isinstance(e, ast.BinOp) and isinstance(e.op, ast.Mult):
            for s, k in ((e.left, e.right), (e.right, e.left)):
                if isinstance(s, ast.Constant) and isinstance(s.value, str):
                    kp = poly_of(k, leaf)
                    if kp is not None:
                        return kp * len(s.value)
        return None

    # placeholder: the write under `self._natoms is None` in the set-up
    pm = parents_map(setup.node)
    placeholder = None
    for c in ast.walk(setup.node):
        if isinstance(c, ast.Call) and call_name(c) == "write" and c.args:
            g = [norm(t) + ":" + str(pol) for t, pol in guards_of(c, pm)]
            if any("_natoms is None:True" in x or "_natoms is not None:False" in x for x in g):
                placeholder = c
    if placeholder is None:
        ctx.ob("R13.5", setup, "count placeholder", True, "placeholder write not recognised", undecided=True)
        return
    plen = str_len(placeholder.args[0])
    # back-fill: seek(init - k) and write("{:{figures}d}\n".format(..., figures=NF))
    seek = None
    fill = None
    for c in ast.walk(closing.node):
        if isinstance(c, ast.Call) and call_name(c) == "seek" and c.args and "_init_position" in norm(c.args[0]):
            seek = c
        if isinstance(c, ast.Call) and call_name(c) == "write" and c.args and isinstance(c.args[0], ast.Call) \
                and call_name(c.args[0]) == "format" and isinstance(c.args[0].func, ast.Attribute) \
                and isinstance(c.args[0].func.value, ast.Constant):
            fill = c.args[0]
    if plen is not None and (seek is None or fill is None):
        ctx.ob("R13.5", closing, "count back-fill", False,
               "a blank count placeholder is written at set-up, so closing must seek back to it and write the count -- %s"
               % ("the seek back is missing" if seek is None else "the count is never written"), node=closing.node)
        return
    if seek is None or fill is None or plen is None:
        ctx.ob("R13.5", closing, "back-fill", True, "back-fill seek/write not recognised", undecided=True)
        return
    pmc = parents_map(closing.node)
    from ..cfg import cguards_of
    # closing an empty file (nothing declared, nothing written) is a separate early exit; whether it is spelled as a
    # guard clause or as an enclosing else-branch, statements after it carry at most that one extra guard
    empty_exit = {canon_test(ast.parse("self._natoms is None and self._current_atom == 0", mode="eval").body, False)}
    undeclared = canon_test(ast.parse("self._natoms is None", mode="eval").body, True)
    gfill = set(cguards_of(fill, pmc))
    # nested spelling of the same early exit: under `natoms is None`, `if current_atom == 0: warn; return`
    empty_exit.add(canon_test(ast.parse("self._current_atom == 0", mode="eval").body, False))
    # the write-mode test moved from close() to the top of the closing routine: everything runs under it
    empty_exit.add(ctext("'w' in self._file.mode"))
    ctx.ob("R13.5", closing, "back-fill guarded by %s" % sorted(gfill - empty_exit), undeclared in gfill and gfill - {undeclared} <= empty_exit,
           "the count is back-filled exactly when it was not declared up front", node=fill)
    # declared count: a mismatch with the number of records written is an error
    from ..pat import expand_single_defs as _xsd13
    mism = [n_ for n_ in walk_no_nested(closing.node) if isinstance(n_, ast.If) and norm(_xsd13(closing.node, n_.test)).replace(" ", "") in
            ("self._natoms!=self._current_atom", "self._current_atom!=self._natoms")
            and any(isinstance(x, ast.Raise) for x in n_.body)]
    ctx.ob("R13.5", closing, mism[0] if mism else "declared-count check", bool(mism),
           "a declared atom count that differs from the number of records written is refused on close", node=mism[0] if mism else closing.node)
    # the box line goes after the last record: seek_atom(natoms) between the back-fill and the box write
    flat_c = stmts_sorted_local(closing.node)
    box_w = [s_ for s_ in flat_c if isinstance(s_, ast.Expr) and any(call_name(c) == "dump_lattice_gro" for c in ast.walk(s_) if isinstance(c, ast.Call))]
    seek_end = [s_ for s_ in flat_c if isinstance(s_, ast.Expr) and isinstance(s_.value, ast.Call) and call_name(s_.value) == "seek_atom"
                and norm(s_.value.args[0]) in ("self._natoms", "self.natoms")]
    oks = bool(box_w) and bool(seek_end) and set(cguards_of(seek_end[-1], pmc)) <= empty_exit and set(cguards_of(box_w[-1], pmc)) <= empty_exit \
        and seek_end[-1].lineno < box_w[-1].lineno and seek_end[-1].lineno > fill.lineno
    ctx.ob("R13.5", closing, seek_end[-1] if seek_end else "seek to the end of the records", oks,
           "after the count is back-filled the writer returns to the end of the atom records before writing the box line",
           node=seek_end[-1] if seek_end else closing.node)
    # record size measured over the first record
    bs = [s_ for s_ in walk_no_nested(setup.node) if isinstance(s_, ast.Assign) and attr_chain(s_.targets[0]) == "self._atomline_bytesize"]
    # a local that holds the tell() value stored into _init_position is that position
    from ..pat import single_defs as _sd13
    sd_setup = _sd13(setup.node)
    init_locals = {norm(s_.value) for s_ in walk_no_nested(setup.node) if isinstance(s_, ast.Assign)
                   and attr_chain(s_.targets[0]) == "self._init_position" and isinstance(s_.value, ast.Name)
                   and s_.value.id in sd_setup and norm(sd_setup[s_.value.id]) == "self._file.tell()"}
    bs_txt = norm(bs[0].value).replace(" ", "") if bs else ""
    for nm_ in init_locals:
        if bs_txt == "self._file.tell()-%s" % nm_:
            bs_txt = "self._file.tell()-self._init_position"
    okb = bool(bs) and bs_txt == "self._file.tell()-self._init_position"
    ctx.ob("R13.5", setup, bs[0] if bs else "record size", okb,
           "the record size is the distance covered by writing the first record", node=bs[0] if bs else setup.node)
    INIT = Poly.sym("INIT")

    def leaf2(e):
        if isinstance(e, ast.Attribute) and e.attr == "_init_position":
            return INIT
        return leaf(e)
    sp = poly_of(seek.args[0], leaf2)
    dist = (INIT - sp) if sp is not None else None
    fmt = fill.func.value.value
    kw = {k.arg: poly_of(k.value, leaf) for k in fill.keywords}
    flen = Poly.const(0)
    okfmt = True
    for lit, name, spec, conv in string.Formatter().parse(fmt):
        flen = flen + len(lit)
        if name is not None:
            m = SPEC_RE.match(spec or "")
            w = m.group("width") if m else None
            if w is None:
                okfmt = False
            elif w.startswith("{"):
                if kw.get(w[1:-1]) is None:
                    okfmt = False
                else:
                    flen = flen + kw[w[1:-1]]
            else:
                flen = flen + int(w)
    ctx.ob("R13.5", closing, "placeholder %s (len %r) / seek back %r / back-fill '%s' (len %r)"
           % (norm(placeholder.args[0]), plen, dist, fmt.replace("\n", "\\n"), flen),
           okfmt and dist is not None and plen == dist == flen,
           "placeholder length, seek distance and back-fill width are the same polynomial in NUMBER_FIGURES",
           node=seek)
    # header position taken right after the count line
    body = setup.node.body
    flat = [st for st in walk_no_nested(setup.node) if isinstance(st, ast.stmt)]
    flat.sort(key=lambda s: (s.lineno, s.col_offset))
    tell = [st for st in flat if isinstance(st, ast.Assign) and "_init_position" in norm(st.targets[0])
            and "tell" in norm(st.value)]
    if not tell:
        tell = [st for st in flat if isinstance(st, ast.Assign) and isinstance(st.targets[0], ast.Name) and st.targets[0].id in init_locals
                and norm(st.value) == "self._file.tell()"]
    ok = False
    if tell:
        i = flat.index(tell[0])
        between = [st for st in flat[:i] if st.lineno > placeholder.lineno and
                   any(isinstance(c, ast.Call) and call_name(c) in ("write", "writeline") for c in ast.walk(st))
                   and not isinstance(st, (ast.If,))]
        # writes between the count line (either branch) and the tell()
        count_if = [st for st in flat if isinstance(st, ast.If) and "_natoms" in norm(st.test)]
        last_count_line = max([max(getattr(x, "lineno", 0) for x in ast.walk(s)) for s in count_if] + [placeholder.lineno])
        between = [st for st in flat if last_count_line < st.lineno < tell[0].lineno and
                   any(isinstance(c, ast.Call) and call_name(c) in ("write", "writeline") for c in ast.walk(st))]
        ok = not between
    ctx.ob("R13.5", setup, tell[0] if tell else "header position", ok,
           "the atom block starts immediately after the count line (no write in between)",
           node=tell[0] if tell else setup.node)
    # one counter increment per written record
    incs = [st for st in walk_no_nested(wl.node) if isinstance(st, ast.AugAssign)
            and "_current_atom" in norm(st.target)]
    paths = enum_paths(wl.node.body)
    good = True
    for p in paths:
        writes = sum(1 for st in p.stmts() if any(isinstance(c, ast.Call) and call_name(c) == "write"
                                                    and c.args and not (isinstance(c.args[0], ast.Constant))
                                                    for c in ast.walk(st)))
        inc = sum(1 for st in p.stmts() if isinstance(st, ast.AugAssign) and "_current_atom" in norm(st.target)
                  and isinstance(st.op, ast.Add) and const_int(st.value) == 1)
        delegated = any(any(isinstance(c, ast.Call) and call_name(c) == setup.name for c in ast.walk(st))
                        for st in p.stmts())
        if delegated:
            continue
        if writes != inc:
            good = False
    ctx.ob("R13.5", wl, incs[0] if incs else "record counter", good and bool(incs),
           "the written-record counter advances exactly once per record written", node=incs[0] if incs else wl.node)


# ---------------------------------------------------------------------------
# R13.6 the title travels unchanged (setter -> header writer -> reader)
# ---------------------------------------------------------------------------
_CHANGING = {"strip", "lstrip", "rstrip", "lower", "upper", "title", "capitalize", "swapcase", "casefold", "expandtabs",
             "replace", "split", "join", "format", "center", "ljust", "rjust", "zfill", "translate", "encode", "partition",
             "rpartition", "splitlines"}


def _title_expr_kind(e: ast.AST, param: str, guards) -> str:
    """'same' (the value given), 'less-newline' (one trailing newline removed, which the writer adds back),
    'changed' (provably another text for some title), '?'"""
    from ..cfg import conjuncts
    if isinstance(e, ast.Name) and e.id == param:
        return "same"
    gl = [x for t_, p_ in guards for x in conjuncts(t_, p_)]
    ends_nl = any(g in (ctext("%s[-1] == '\\n'" % param), ctext("%s.endswith('\\n')" % param)) for g in gl)
    if isinstance(e, ast.Subscript) and isinstance(e.value, ast.Name) and e.value.id == param and isinstance(e.slice, ast.Slice):
        sl = e.slice
        if sl.lower is None and sl.step is None and const_int(sl.upper) == -1:
            return "less-newline" if ends_nl else "changed"
        return "changed"
    if isinstance(e, ast.Call) and isinstance(e.func, ast.Attribute) and isinstance(e.func.value, ast.Name) and e.func.value.id == param:
        m = e.func.attr
        if m in ("rstrip", "removesuffix") and len(e.args) == 1 and isinstance(e.args[0], ast.Constant) and e.args[0].value in ("\n", "\r\n"):
            # rstrip('\n') removes every trailing newline; a title is one line, so at most one
            return "less-newline"
        if m in _CHANGING:
            return "changed"
    if any(isinstance(x, ast.Call) and isinstance(x.func, ast.Attribute) and x.func.attr in _CHANGING for x in ast.walk(e)):
        return "changed"
    return "?"


def r13_6(ctx: Ctx, rule: str = "R13.6"):
    st = ctx.func("GroFile.comment@set")
    param = [p_ for p_ in st.params if p_ != "self"][0]
    n = 0
    for p in enum_paths(st.node.body):
        if p.end == "raise":
            continue
        cur: ast.AST = ast.Name(param, ast.Load())
        kind = "same"
        stored = None
        # walk the path in order: tests seen so far guard later statements
        for s_ in p.stmts():
            if isinstance(s_, ast.Assign) and len(s_.targets) == 1:
                tg = s_.targets[0]
                if isinstance(tg, ast.Name) and tg.id == param:
                    gs = [(t_, o_) for t_, o_ in p.conds() if t_.lineno <= s_.lineno]
                    k2 = _title_expr_kind(s_.value, param, gs)
                    kind = k2 if kind in ("same",) else ("changed" if k2 == "changed" or kind == "changed" else ("?" if "?" in (k2, kind) else kind))
                elif attr_chain(tg) and attr_chain(tg).startswith("self."):
                    gs = [(t_, o_) for t_, o_ in p.conds() if t_.lineno <= s_.lineno]
                    k2 = _title_expr_kind(s_.value, param, gs)
                    stored = (s_, kind if k2 == "same" else (k2 if kind == "same" else ("changed" if "changed" in (k2, kind) else "?")))
        if stored is None:
            continue
        n += 1
        s_, k_ = stored
        if k_ == "?":
            ctx.ob(rule, st, s_, True, "stored title expression not recognised", undecided=True, node=s_)
        else:
            ctx.ob(rule, st, "path [%s] stores %s" % (p.describe()[:120], norm(s_.value)), k_ in ("same", "less-newline"),
                   "the title stored is the text given, less at most its line terminator (which the header writer adds "
                   "back)" + ("" if k_ != "changed" else " -- the stored text differs from the one given for some titles "
                              "(leading/trailing blanks, case, ...)"), node=s_)
    ctx.floor(rule, n, 1, "paths of the title setter that store a title")
    # header writer: the title is written as it is, followed by a newline iff it does not end with one
    setup = ctx.func("GroFile._setup_write_file")
    from ..pat import find as pfind
    w = pfind(setup.node, "self._file.write(V_c)")
    okw = False
    for node, b in w:
        v = b["V_c"]
        if pfind(setup.node, "%s = self.comment" % v):
            nl = [n_ for n_ in walk_no_nested(setup.node) if isinstance(n_, ast.If)
                  and canon_test(n_.test)[0] == ctext("%s[-1] == '\\n'" % v)[0]]
            for n_ in nl:
                ct_, when_t, when_f = branches(n_)
                pol = ctext("%s[-1] == '\\n'" % v)[1]
                no_nl = when_f if pol else when_t
                has_nl = when_t if pol else when_f
                okw = any(isinstance(x, ast.Expr) and norm(x.value).replace('"', "'") == "self._file.write('\\n')" for x in no_nl) \
                    and not any(isinstance(x, ast.Expr) and isinstance(x.value, ast.Call) and call_name(x.value) == "write" for x in has_nl)
    ctx.ob(rule, setup, w[0][0] if w else "title write", okw,
           "the header writer emits the stored title unchanged and terminates it with exactly one newline", node=w[0][0] if w else setup.node)
    # reader: the title is the first line as read
    load = ctx.func("GroFile._load_and_verify")
    rd = [s_ for s_ in walk_no_nested(load.node) if isinstance(s_, ast.Assign) and attr_chain(s_.targets[0]) == "self._comment"]
    from ..pat import single_defs as _sd13
    rdv = rd[0].value if rd else None
    if isinstance(rdv, ast.Name) and rdv.id in _sd13(load.node):
        rdv = _sd13(load.node)[rdv.id]          # `line = self._readline(); self._comment = line`
    okr = bool(rd) and norm(rdv) in ("self._readline()", "self._file.readline()", "self._readline().rstrip('\\n')",
                                     "self._readline()[:-1]")
    ctx.ob(rule, load, rd[0] if rd else "title read", okr, "the title is the first line of the file as read", node=rd[0] if rd else load.node)
    gt = ctx.func("GroFile.comment@get")
    rets = [r_ for r_ in walk_no_nested(gt.node) if isinstance(r_, ast.Return)]
    okg = bool(rets) and all(norm(r_.value) in ("self._comment", "self.DEFAULT_COMMENT") for r_ in rets)
    ctx.ob(rule, gt, "title getter returns %s" % [norm(r_.value) for r_ in rets], okg,
           "the title handed out is the stored one (the default only when none was set)", node=gt.node)


# ---------------------------------------------------------------------------
# R13.7 the record is written as formatted (no text substitution afterwards)
# ---------------------------------------------------------------------------
_SUBST = {"replace", "sub", "subn", "translate", "strip", "lstrip", "rstrip", "lower", "upper", "removeprefix", "removesuffix"}


def postformat_sites(fn: ast.AST):
    """calls that rewrite text in a function that formats numbers: str.replace / re.sub / translate / strip..."""
    if not any(isinstance(c_, ast.Call) and call_name(c_) == "format" for c_ in ast.walk(fn)) and \
            not any(isinstance(x_, ast.JoinedStr) for x_ in ast.walk(fn)):
        return []
    return [c_ for c_ in ast.walk(fn) if isinstance(c_, ast.Call) and isinstance(c_.func, ast.Attribute) and c_.func.attr in _SUBST]


def r13_7(ctx: Ctx, rule: str = "R13.7"):
    """The digits and signs of a written record are exactly what the format specification produces.  A textual
    substitution applied to the formatted line (a 'tidy-up' of negative zeros, stripped blanks ...) cannot tell a
    position field from a velocity field of another precision, nor a sign from a separator: it silently changes values."""
    w = ctx.func("GroFile.parse_atomlist")
    hits = postformat_sites(w.node)
    for c_ in hits:
        ctx.ob(rule, w, c_, False, "the record is returned as formatted -- `%s` rewrites the text after formatting (a pattern such as "
               "'-0.000' also occurs inside a velocity '-0.0004', whose sign is then lost)" % norm(c_)[:70], node=c_)
    if not hits:
        ctx.ob(rule, w, "text substitutions after formatting: 0", True, "the record is returned exactly as the format specification "
               "produces it", node=w.node)
    from ..fixtures import check_fixture
    check_fixture(ctx, rule, "postformat.py", lambda repo: sum(len(postformat_sites(f_.node)) for f_ in repo.funcs.values()), expect_exact=2)
