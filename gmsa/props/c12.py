"""C12 - coordinate-file view tiles the file into residues with stable random access.

R12.1 seek-before-read typestate on the shared file handle of SystemGro
R12.2 the cursor fields of GroFile move together (seek_atom / readline)
R12.3 offset arithmetic and run-length encoding/decoding agree
R12.4 the residue-boundary predicate is injective in (residue number, residue name)
R12.5 integer (incl. -1), negative and slice indexing go through the same offset generator
R12.2b raw-reader discipline: whoever reads records from the underlying file advances the counter or re-seeks afterwards, itself or in all callers
R12.7 the view keeps no table between calls
"""
from __future__ import annotations

import ast
import string
from typing import Dict, List, Optional, Tuple

from ..cfg import (CFG, call_name, calls_in, walk_no_nested, parents_map, guards_of, attr_chain,
                   enum_paths, const_int, enclosing_stmt, ancestors, branches, ctext, cconds, cguards_of)
from ..core import AnalysisError, Ctx, Func, norm
from ..poly import Poly, poly_of
from ..util import stmts_sorted

SPEC = {
    "explanation": (
        "SystemGro shares one open GroFile between iteration, indexing and slicing.  R12.1 is a typestate "
        "rule: every statement that reads records from the shared handle (outside the one sequential scan "
        "done at construction) is immediately preceded, in the same block, by seek_atom(start) on the same "
        "handle, where start and the number of records read come from the same (kind, start, length) tuple; "
        "so a read never depends on where an earlier access left the cursor, whatever the access history.  "
        "R12.2 checks that seek_atom sets the logical record counter and the byte position from the same "
        "index (byte position = header + index * record size) and that readline advances the counter "
        "exactly on the path that returns a record.  R12.3 checks the generator that turns the run-length "
        "list into (kind, start, length) triples: start advances by the length once per yielded residue, "
        "after the yield; encoder and decoder of the run-length list agree on the pair layout.  R12.4 "
        "requires the test that starts a new residue to distinguish (number, name) pairs: a bare "
        "concatenation of two variable-width fields is not injective.  Byte offsets for non-ASCII records "
        "are not decided."),
    "exhaustive": True,
    "trusted_base": ["a list comprehension inside a yield/return/append argument is fully evaluated before "
                     "the generator suspends"],
    "assumptions": ["all atom records of a file have the same byte length (C13/R13.1, C14/R14.2)"],
}


def _handle_attr(init: Func) -> str:
    for st in walk_no_nested(init.node):
        if isinstance(st, ast.Assign) and isinstance(st.value, ast.Call) \
                and call_name(st.value) in ("open_coordinate_file", "GroFile") \
                and attr_chain(st.targets[0]) and attr_chain(st.targets[0]).startswith("self."):
            return attr_chain(st.targets[0])
    raise AnalysisError("R12.1: the shared coordinate-file handle of SystemGro was not found")


def _reads_handle(node: ast.AST, handle: str) -> List[ast.Call]:
    out = []
    for c in ast.walk(node):
        if isinstance(c, ast.Call):
            if call_name(c) == "next" and isinstance(c.func, ast.Name) and c.args and attr_chain(c.args[0]) == handle:
                out.append(c)
            elif isinstance(c.func, ast.Attribute) and attr_chain(c.func.value) == handle \
                    and c.func.attr in ("next", "readline", "__next__", "readlines"):
                out.append(c)
    return out


def run(ctx: Ctx):
    ctx.attempt("R12.1", lambda: r12_1(ctx))
    ctx.attempt("R12.2", lambda: r12_2(ctx))
    ctx.attempt("R12.2", lambda: r12_2b(ctx))
    ctx.attempt("R12.3", lambda: r12_3(ctx))
    ctx.attempt("R12.4", lambda: r12_4(ctx))
    from .c11 import accessor_branches
    ctx.attempt("R12.5", lambda: accessor_branches(ctx, "R12.5", ("SystemGro.__getitem__",)))
    ctx.attempt("R12.6", lambda: r12_6(ctx))
    from . import c13
    ctx.attempt("R12.6", lambda: c13.r13_6(ctx, rule="R12.6"))        # the title line is taken as it is (a blank title is a valid title)
    from ..util import persistent_state
    ctx.attempt("R12.7", lambda: persistent_state(ctx, "R12.7", [f_ for f_ in (ctx.repo.func(q_, required=False) for q_ in ('SystemGro.__init__', 'SystemGro.__getitem__', 'SystemGro.__iter__', 'GroFile.seek_atom', 'GroFile.readline')) if f_ is not None], "the coordinate-file view"))


def r12_6(ctx: Ctx, rule="R12.6"):
    """Whether a record has velocities is decided by the number of fields parsed from it, never by their values: a
    velocity of exactly (0, 0, 0) is a velocity."""
    init = ctx.func("AtomGro.__init__")
    none_stores = [s_ for s_ in walk_no_nested(init.node) if isinstance(s_, ast.Assign) and any(attr_chain(t_) == "self.velocity" for t_ in s_.targets)
                   and isinstance(s_.value, ast.Constant) and s_.value.value is None]
    if not none_stores:
        ctx.ob(rule, init, "velocity presence", True, "no branch stores `self.velocity = None`; presence test not decided on this tree",
               undecided=True, node=init.node)
        return
    pm = parents_map(init.node)
    gs = guards_of(none_stores[0], pm)
    value_based = [t_ for t_, _ in gs if any(isinstance(x_, ast.Call) and call_name(x_) in ("any", "all", "count_nonzero", "allclose", "isclose", "sum", "norm", "array_equal")
                                             for x_ in ast.walk(t_))
                   or any(isinstance(x_, ast.Compare) and any(isinstance(c_, ast.Constant) and isinstance(c_.value, (int, float)) and not isinstance(c_.value, bool)
                                                              for c_ in x_.comparators) and not any(isinstance(y_, ast.Call) and call_name(y_) == "len" for y_ in ast.walk(x_))
                          for x_ in ast.walk(t_))]
    ctx.ob(rule, init, none_stores[0], not value_based,
           "an atom has no velocity exactly when its record has no velocity fields" + ("" if not value_based else
           " -- the test `%s` looks at the values: a record whose velocity is exactly zero comes back without velocity" % norm(value_based[0])[:60]),
           node=none_stores[0])


def r12_1(ctx: Ctx):
    cls = ctx.repo.cls("SystemGro")
    init = ctx.func("SystemGro.__init__")
    handle = _handle_attr(init)
    ctx.extra["shared_handle"] = handle
    sites = 0
    seq_scans = []
    for f in ctx.repo.funcs.values():
        if f.cls is not cls or f.parent is not None:
            continue
        # sequential scan: iterates the handle itself
        scans = [n for n in ast.walk(f.node) if isinstance(n, (ast.For, ast.comprehension)) and attr_chain(n.iter) == handle]
        if not scans:
            # the handle handed to an iterator adaptor (map / chain / iter / enumerate ...) is iterated sequentially as well
            scans = [n for n in ast.walk(f.node) if isinstance(n, ast.Call) and call_name(n) in
                     ("map", "chain", "iter", "enumerate", "zip", "filter", "groupby", "list", "tuple", "islice", "from_iterable")
                     and any(attr_chain(a_) == handle for a_ in n.args)]
        if scans:
            seq_scans.append(f)
            continue
        pm = parents_map(f.node)
        reads = _reads_handle(f.node, handle)
        if not reads:
            continue
        read_stmts = {id(enclosing_stmt(rd, pm)): enclosing_stmt(rd, pm) for rd in reads}

        def seek_of(st):
            for c in ast.walk(st):
                if isinstance(c, ast.Call) and call_name(c) == "seek_atom" and isinstance(c.func, ast.Attribute) \
                        and attr_chain(c.func.value) == handle and c.args:
                    return c
            return None

        def is_yield(st):
            return any(isinstance(x, (ast.Yield, ast.YieldFrom)) for x in ast.walk(st))

        def moves_handle(st):
            # any other use of the handle, or a call of another method of the view (which may move the cursor)
            for c in ast.walk(st):
                if isinstance(c, ast.Call) and isinstance(c.func, ast.Attribute):
                    if attr_chain(c.func.value) == handle and c.func.attr not in ("seek_atom",):
                        return True
                    if norm(c.func.value) == "self" and c.func.attr in cls.methods:
                        return True
                if isinstance(c, ast.Subscript) and norm(c.value) == "self":
                    return True
            return False
        # typestate along every path: a read needs the cursor to have been set by seek_atom since the last point where
        # it could have moved (function entry, a yield, another use of the handle)
        verdict: Dict[int, Tuple[bool, str, dict]] = {}
        for p_ in enum_paths(f.node.body):
            state, seek_c = "unknown", None
            for ev in p_.events:
                if ev[0] != "s":
                    continue
                st = ev[1]
                if id(st) in read_stmts:
                    sk = seek_of(st)
                    if sk is not None:
                        state, seek_c = "set", sk
                    ok_ = state in ("set", "reading")
                    why_ = "" if ok_ else "the cursor may have moved since it was last set (no seek_atom on this path between the last yield / other use of the handle and the read)"
                    prev_ok = verdict.get(id(st), (True, "", {}))[0]
                    facts_ = {"seek": norm(seek_c)[:80] if seek_c is not None else None}
                    verdict[id(st)] = (prev_ok and ok_, why_ if not ok_ else verdict.get(id(st), (True, "", {}))[1], facts_)
                    if ok_:
                        # start and record count come from the same (kind, start, length) tuple
                        start = norm(seek_c.args[0])
                        counts = []
                        for comp in ast.walk(st):
                            if isinstance(comp, ast.comprehension) and isinstance(comp.iter, ast.Call) \
                                    and call_name(comp.iter) == "range" and len(comp.iter.args) == 1:
                                counts.append(norm(comp.iter.args[0]))
                        for a_ in ancestors(st, pm):
                            if isinstance(a_, ast.For) and isinstance(a_.iter, ast.Call) and call_name(a_.iter) == "range" and len(a_.iter.args) == 1:
                                counts.append(norm(a_.iter.args[0]))
                        cnt = counts[0] if counts else None
                        if cnt is not None:
                            same = {start, cnt} <= set(f.params)
                            for n in ast.walk(f.node):
                                tgts = [n.target] if isinstance(n, (ast.For, ast.comprehension)) else (n.targets if isinstance(n, ast.Assign) else [])
                                for t in tgts:
                                    if isinstance(t, ast.Tuple) and {start, cnt} <= {norm(e) for e in t.elts}:
                                        same = True
                            if not same:
                                verdict[id(st)] = (False, "start `%s` and record count `%s` do not come from the same (kind, start, length) tuple" % (start, cnt),
                                                   {"seek": norm(seek_c), "start": start, "count": cnt})
                            else:
                                verdict[id(st)][2].update({"start": start, "count": cnt})
                    state = "reading" if ok_ else "unknown"
                    continue
                sk = seek_of(st)
                if sk is not None:
                    state, seek_c = "set", sk
                elif is_yield(st) or moves_handle(st):
                    state, seek_c = "unknown", None
        for sid, st in read_stmts.items():
            sites += 1
            ok, why, facts = verdict.get(sid, (True, "", {}))
            ctx.ob("R12.1", f, st, ok,
                   "every batch of record reads on the shared handle is preceded, with no yield or other use of the handle "
                   "in between, by seek_atom(start) with the start/length of the same residue" + ("" if ok else " -- " + why),
                   node=st, **{k_: v_ for k_, v_ in facts.items() if v_ is not None})
    ctx.floor("R12.1", sites, 1, "read sites on the shared handle")
    # the sequential scan at construction starts at atom 0: the reader leaves the cursor there
    load = ctx.func("GroFile._load_and_verify")
    cfg = CFG(load.node)
    pdom = cfg.dominators(reverse=True, virtual_end=False)
    seek0 = [c for c in calls_in(load.node) if call_name(c) == "seek_atom" and c.args and const_int(c.args[0]) == 0]
    boxcalls = [c for c in calls_in(load.node) if call_name(c) == "_load_box_matrix"]
    ok = False
    if seek0:
        n0 = cfg.node_containing(seek0[-1])
        ok = all(n0.id in pdom[cfg.node_containing(b).id] and
                 (seek0[-1].lineno, seek0[-1].col_offset) > (b.lineno, b.col_offset) for b in boxcalls)
    ctx.ob("R12.1", load, seek0[-1] if seek0 else "rewind after verification", ok,
           "after verifying the file (which moves the cursor to the box line) the reader rewinds to atom 0, "
           "where the construction-time scan starts", node=seek0[-1] if seek0 else load.node,
           sequential_scans=[f.qual for f in seq_scans])


def r12_2(ctx: Ctx):
    sk = ctx.func("GroFile.seek_atom")
    rl = ctx.func("GroFile.readline")
    idx = [p for p in sk.params if p != "self"][0]
    cnt = [s for s in walk_no_nested(sk.node) if isinstance(s, ast.Assign) and attr_chain(s.targets[0]) == "self._current_atom"]
    ctx.ob("R12.2", sk, cnt[0] if cnt else "record counter", bool(cnt) and all(norm(s.value) == idx for s in cnt),
           "seek_atom sets the logical record counter to the index it seeks to", node=cnt[0] if cnt else sk.node)
    seeks = [c for c in calls_in(sk.node) if call_name(c) == "seek" and attr_chain(c.func.value) == "self._file"]
    I, H, B = Poly.sym("index"), Poly.sym("header"), Poly.sym("recsize")

    def leaf(e):
        if isinstance(e, ast.Name) and e.id == idx:
            return I
        ch = attr_chain(e) if isinstance(e, ast.Attribute) else None
        if ch == "self._init_position":
            return H
        if ch == "self._atomline_bytesize":
            return B
        return None
    ok = False
    got = None
    if seeks and seeks[0].args:
        from ..pat import expand_single_defs as _xsd12
        got = poly_of(_xsd12(sk.node, seeks[0].args[0]), leaf)
        ok = got is not None and got == H + I * B
    ctx.ob("R12.2", sk, seeks[0] if seeks else "byte seek", ok,
           "byte position = header end + index * record size, from the same index as the counter",
           node=seeks[0] if seeks else sk.node, position=repr(got))
    # the header end / record size fields are measured by the reader as tell() differences
    load = ctx.func("GroFile._load_and_verify")
    a = {attr_chain(s.targets[0]): norm(s.value) for s in walk_no_nested(load.node)
         if isinstance(s, ast.Assign) and attr_chain(s.targets[0])}
    okm = a.get("self._init_position") == "self._file.tell()" and \
        a.get("self._atomline_bytesize") == "self._file.tell() - self._init_position"
    ctx.ob("R12.2", load, "header end and record size measured with tell()", okm,
           "header end is the position before the first record, record size the distance covered by reading it",
           node=load.node, measured=a)
    # readline
    n = 0
    for p in enum_paths(rl.node.body):
        incs = [s for s in p.stmts() if isinstance(s, ast.AugAssign) and attr_chain(s.target) == "self._current_atom"]
        parsed = p.end == "return" and any(call_name(c) == "parse_atomline" for c in calls_in(p.end_node))
        n += 1
        if parsed:
            ok = len(incs) == 1 and isinstance(incs[0].op, ast.Add) and const_int(incs[0].value) == 1
            ctx.ob("R12.2", rl, "path returning a record: " + p.describe()[:160], ok,
                   "the counter advances exactly once when a record is returned", node=p.end_node)
        else:
            ctx.ob("R12.2", rl, "path without a record: " + p.describe()[:160], len(incs) == 0,
                   "the counter does not move when no record is returned", node=p.end_node or rl.node)
    stop = [n_ for n_ in walk_no_nested(rl.node) if isinstance(n_, ast.If) and any(
        isinstance(x, ast.Raise) and "StopIteration" in norm(x) for x in n_.body)]
    from ..cfg import canon_test
    oks = bool(stop) and canon_test(stop[0].test) in (ctext("self._current_atom >= self.natoms"),
                                                       ctext("self._current_atom >= self._natoms"))
    ctx.ob("R12.2", rl, stop[0] if stop else "end of records", oks,
           "iteration stops exactly when the counter reaches the declared number of atoms",
           node=stop[0] if stop else rl.node)


def r12_2b(ctx: Ctx, rule="R12.2"):
    """Counter / cursor discipline: whoever reads records from the underlying file either advances the record counter
    itself, or re-seeks afterwards (which resets both), or is a private raw reader all of whose callers in the class
    do.  A public reader that moves the cursor and leaves the counter alone makes the next sequential read and the
    end-of-records test use a stale counter."""
    cls = ctx.repo.cls("GroFile")
    methods = {m.name: m for m in cls.methods.values() if m.parent is None}
    ADAPT = ("islice", "iter", "map", "enumerate", "zip", "list", "tuple", "filter", "chain")

    def raw_reads(fn: ast.AST):
        out = []
        for n in walk_no_nested(fn):
            if isinstance(n, ast.Call) and isinstance(n.func, ast.Attribute) and attr_chain(n.func.value) == "self._file" \
                    and n.func.attr in ("readline", "readlines", "read", "__next__"):
                out.append(n)
            elif isinstance(n, ast.Call) and call_name(n) == "next" and n.args and attr_chain(n.args[0]) == "self._file":
                out.append(n)
            elif isinstance(n, (ast.For, ast.comprehension)) and (attr_chain(n.iter) == "self._file" or (
                    isinstance(n.iter, ast.Call) and call_name(n.iter) in ADAPT and any(attr_chain(a_) == "self._file" for a_ in n.iter.args))):
                out.append(n.iter)
        return out

    def maintains(f: Func, reads) -> bool:
        first = min(getattr(r_, "lineno", 0) for r_ in reads)
        for n in walk_no_nested(f.node):
            if isinstance(n, (ast.Assign, ast.AugAssign)):
                tg = n.targets[0] if isinstance(n, ast.Assign) else n.target
                if attr_chain(tg) == "self._current_atom":
                    return True
            if isinstance(n, ast.Call) and call_name(n) == "seek_atom" and getattr(n, "lineno", 0) >= first:
                return True
        return False

    def callers(name: str):
        return [m for m in methods.values() if any(isinstance(c, ast.Call) and isinstance(c.func, ast.Attribute) and norm(c.func.value) == "self"
                                                   and c.func.attr == name for c in ast.walk(m.node))]
    raw = {nm: raw_reads(m.node) for nm, m in methods.items()}
    raw = {nm: r_ for nm, r_ in raw.items() if r_}
    n_sites = 0
    for nm, reads in sorted(raw.items()):
        f = methods[nm]
        n_sites += 1
        def disciplined(g: Func, rds, stack):
            """(ok, why): g keeps counter and cursor together around these reads, or all its callers do"""
            if maintains(g, rds):
                return True, ""
            public = not g.name.startswith("_") or (g.name.startswith("__") and g.name.endswith("__"))
            cs = [c for c in callers(g.name) if c.name not in stack]
            if public or not cs or len(stack) > 4:
                return False, "`%s` reads records from the file and neither advances the record counter nor re-seeks; it can be " \
                    "called from outside%s" % (g.name, "" if g.name == nm else " (reaches the raw read in `%s`)" % nm)
            for c in cs:
                sites = [x for x in ast.walk(c.node) if isinstance(x, ast.Call) and isinstance(x.func, ast.Attribute)
                         and norm(x.func.value) == "self" and x.func.attr == g.name]
                o_, w_ = disciplined(c, sites, stack + (c.name,))
                if not o_:
                    return False, w_
            return True, ""
        ok, why = disciplined(f, reads, (nm,))
        ctx.ob(rule, f, "raw reads of the underlying file in %s: %s" % (nm, [norm(r_)[:50] for r_ in reads]), ok,
               "every reader of the underlying file keeps the record counter in step with the cursor (advances it, or re-seeks "
               "afterwards), directly or in all of its callers" + ("" if ok else " -- " + why), node=reads[0])
    ctx.floor(rule, n_sites, 1, "methods of GroFile reading the underlying file")


def r12_3(ctx: Ctx):
    gen = ctx.func("SystemGro._molecules_ordered_all_gen")
    enc = ctx.func("SystemGro._add_residue_init")
    dec = ctx.func("SystemGro._pk_ammount_ordered_gen")
    fn = gen.node
    # innermost loop containing the yield
    pm = parents_map(fn)
    ys = [n for n in walk_no_nested(fn) if isinstance(n, ast.Yield)]
    if len(ys) != 1 or not isinstance(ys[0].value, ast.Tuple) or len(ys[0].value.elts) != 3:
        ctx.ob("R12.3", gen, "offset generator", True, "generator shape not recognised", undecided=True)
        return
    y = ys[0]
    kind, start, length = (norm(e) for e in y.value.elts)
    loops = [a for a in ancestors(y, pm) if isinstance(a, ast.For)]
    inner = loops[0] if loops else None
    ok = False
    why = ""
    if inner is not None:
        paths = enum_paths(inner.body)
        ok = True
        for p in paths:
            st = p.stmts()
            yi = [i for i, s in enumerate(st) if any(x is y for x in ast.walk(s))]
            inc = [i for i, s in enumerate(st) if isinstance(s, ast.AugAssign) and norm(s.target) == start
                   and isinstance(s.op, ast.Add) and norm(s.value) == length]
            other = [s for s in st if (isinstance(s, ast.AugAssign) and norm(s.target) == start and st.index(s) not in inc)
                     or (isinstance(s, ast.Assign) and any(norm(t) == start for t in s.targets))]
            if not (len(yi) == 1 and len(inc) == 1 and yi[0] < inc[0] and not other):
                ok = False
                why = "on a path of the per-residue loop: yields=%d, `%s += %s`=%d" % (len(yi), start, length, len(inc))
        # no other update of start outside the inner loop except the initialisation to 0
        outside = [s for s in walk_no_nested(fn) if isinstance(s, (ast.AugAssign, ast.Assign))
                   and ((isinstance(s, ast.AugAssign) and norm(s.target) == start)
                        or (isinstance(s, ast.Assign) and any(norm(t) == start for t in s.targets)))
                   and not any(s is x for x in ast.walk(inner))]
        init_ok = len(outside) == 1 and isinstance(outside[0], ast.Assign) and const_int(outside[0].value) == 0 \
            and not any(outside[0] is x for l in loops for x in ast.walk(l))
        if not init_ok:
            ok = False
            why = why or "start offset is (re)assigned outside the per-residue loop: %s" % [norm(s) for s in outside]
    # the offsets produced by a stepped range (`for start in range(first, first + count * n, n)`): another, equally exact way
    # to enumerate them, which this rule does not follow
    stepped = inner is not None and isinstance(inner.iter, ast.Call) and call_name(inner.iter) == "range" and len(inner.iter.args) == 3 \
        and norm(inner.target) == start
    if stepped and not ok:
        ctx.ob("R12.3", gen, y, True, "the start offsets are produced by a stepped range, not by a running offset advanced after each yield; "
               "not decided on this tree", undecided=True, node=y)
    else:
        ctx.ob("R12.3", gen, y, ok,
               "the start offset is 0 initially and advances by the residue length exactly once per yielded "
               "residue, after the yield" + ("" if ok else " -- " + why), node=y)
    # the length is the length of the representative of that kind
    lens = [s for s in walk_no_nested(fn) if isinstance(s, ast.Assign) and norm(s.targets[0]) == length]
    okl = bool(lens) and norm(lens[0].value) == "len(self.different_molecules[%s])" % kind
    ctx.ob("R12.3", gen, lens[0] if lens else "length", okl,
           "the record count of an instance is the atom count of its kind's representative",
           node=lens[0] if lens else fn)
    # encoder / decoder of the run-length list
    lst = "self._molecules_ordered"
    app = [s for s in walk_no_nested(enc.node) if isinstance(s, ast.AugAssign) and attr_chain(s.target) == lst
           and isinstance(s.value, ast.List)]
    inc = [s for s in walk_no_nested(enc.node) if isinstance(s, ast.AugAssign) and isinstance(s.target, ast.Subscript)
           and attr_chain(s.target.value) == lst]
    tests = [n for n in walk_no_nested(enc.node) if isinstance(n, ast.If) and lst.split(".")[1] in norm(n.test)]
    oke = False
    if app and inc and tests:
        pair = app[0].value.elts
        t, when_new, when_same = branches(tests[0])
        want_t, wpol = ctext("not %s or %s[-2] != %s" % (lst, lst, norm(pair[0])))
        if not wpol:
            when_new, when_same = when_same, when_new
        oke = len(pair) == 2 and const_int(pair[1]) == 1 and const_int(inc[0].target.slice) == -1 \
            and const_int(inc[0].value) == 1 and t == want_t \
            and app[0] in when_new and inc[0] in when_same \
            and isinstance(app[0].op, ast.Add) and isinstance(inc[0].op, ast.Add)
        # the kind index of a residue: new kinds are appended and indexed by position, known kinds looked up
        kinds = [n_ for n_ in walk_no_nested(enc.node) if isinstance(n_, ast.If) and "different_molecules" in norm(n_.test)]
        if kinds:
            k0 = kinds[0]
            kt, k_known, k_new = branches(k0)
            okk = (kt, True) == ctext("residue in self.different_molecules") \
                and any("different_molecules.append(residue)" in norm(x) for x in k_new) \
                and any(isinstance(x, ast.Assign) and norm(x.value).replace(" ", "") == "len(self.different_molecules)-1" for x in k_new)
            oke = oke and okk
    # exactly one place starts a pair and exactly one extends the last count
    all_inc = [s_ for s_ in walk_no_nested(enc.node) if isinstance(s_, ast.AugAssign) and (
        attr_chain(s_.target) == lst or (isinstance(s_.target, ast.Subscript) and attr_chain(s_.target.value) == lst))]
    if len(all_inc) != 2:
        oke = False
    if app and inc and tests:
        ctx.ob("R12.3", enc, tests[0] if tests else "run-length encoder", oke,
               "a new (kind, 1) pair is started when the list is empty or the last kind differs, otherwise the last "
               "count is incremented", node=tests[0] if tests else enc.node)
    else:
        ctx.ob("R12.3", enc, "run-length encoder", True, "the encoder is not written as `list += [kind, 1]` / `list[-1] += 1` under a test "
               "of the last kind; not decided on this tree", undecided=True, node=enc.node)
    rng = [n for n in walk_no_nested(dec.node) if isinstance(n, ast.For) and isinstance(n.iter, ast.Call)
           and call_name(n.iter) == "range"]
    okd = False
    if rng:
        a = rng[0].iter.args
        i = norm(rng[0].target)
        yd = [n for n in walk_no_nested(rng[0]) if isinstance(n, ast.Yield)]
        okd = len(a) == 3 and const_int(a[0]) == 0 and const_int(a[2]) == 2 and norm(a[1]) == "len(%s)" % lst \
            and len(yd) == 1 and isinstance(yd[0].value, ast.Tuple) \
            and [norm(e) for e in yd[0].value.elts] == ["%s[%s]" % (lst, i), "%s[%s + 1]" % (lst, i)]
    # slice form: zip(list[::2], list[1::2]) (yield from / return iter(...)): evens are kinds, odds are counts
    zips = [n for n in ast.walk(dec.node) if isinstance(n, ast.Call) and call_name(n) == "zip" and len(n.args) == 2
            and all(isinstance(a_, ast.Subscript) and attr_chain(a_.value) == lst and isinstance(a_.slice, ast.Slice) for a_ in n.args)]
    if not rng and zips:
        def _sl(sub):
            sl = sub.slice
            return (const_int(sl.lower) if sl.lower is not None else 0, sl.upper is None, const_int(sl.step) if sl.step is not None else 1)
        okz = _sl(zips[0].args[0]) == (0, True, 2) and _sl(zips[0].args[1]) == (1, True, 2)
        outs = [n for n in walk_no_nested(dec.node) if isinstance(n, (ast.YieldFrom, ast.Return)) and n.value is not None
                and any(x is zips[0] for x in ast.walk(n.value))]
        others = [n for n in walk_no_nested(dec.node) if isinstance(n, (ast.Yield, ast.YieldFrom, ast.Return)) and n not in outs]
        fl = [n for n in walk_no_nested(dec.node) if isinstance(n, ast.For) and n.iter is zips[0] and isinstance(n.target, ast.Name)
              and len(n.body) == 1 and isinstance(n.body[0], ast.Expr) and isinstance(n.body[0].value, ast.Yield)
              and norm(n.body[0].value.value) == n.target.id]
        if fl and not outs:
            outs = [ast.Return(zips[0])]
            others = [n for n in others if n is not fl[0].body[0].value]
        ctx.ob("R12.3", dec, zips[0], okz and len(outs) == 1 and outs[0].value is zips[0] and not others,
               "the decoder pairs the even positions (kinds) with the odd positions (counts) of the list", node=zips[0])
    elif rng:
        ctx.ob("R12.3", dec, rng[0], okd, "the decoder walks the list two by two and yields (kind, count)", node=rng[0])
    else:
        ctx.ob("R12.3", dec, "run-length decoder", True, "the decoder is not a `for i in range(0, len(list), 2)` loop; not decided on "
               "this tree", undecided=True, node=dec.node)


def _format_fields(fmt: str):
    out = []
    for lit, name, spec, conv in string.Formatter().parse(fmt):
        if lit:
            out.append(("lit", lit))
        if name is not None:
            out.append(("field", spec or ""))
    return out


def _injective_key(ctx: Ctx, owner_cls, attr: str) -> Tuple[Optional[bool], str]:
    """Is the property ``attr`` an injective encoding of two fields?  (None: unknown shape)."""
    g = None
    for k in ctx.repo.mro(owner_cls):
        if attr in k.getters:
            g = k.getters[attr]
            break
    if g is None:
        return None, "attribute %s is not a property" % attr
    rets = [n for n in walk_no_nested(g.node) if isinstance(n, ast.Return)]
    if len(rets) != 1:
        return None, "several returns"
    v = rets[0].value
    if isinstance(v, ast.Tuple):
        return True, "tuple of fields"
    if isinstance(v, ast.Call) and call_name(v) == "format" and isinstance(v.func.value, ast.Constant):
        fields = _format_fields(v.func.value.value)
        args = [norm(a) for a in v.args]
    elif isinstance(v, ast.JoinedStr):
        fields, args = [], []
        for part in v.values:
            if isinstance(part, ast.Constant):
                fields.append(("lit", part.value))
            else:
                spec = norm(part.format_spec) if part.format_spec is not None else ""
                fields.append(("field", "" if spec in ("", "''") else spec.strip("f'\"")))
                args.append(norm(part.value))
    else:
        return None, "unrecognised encoding %s" % norm(v)
    # adjacent replacement fields with neither a separator nor a fixed width between them
    for a, b in zip(fields, fields[1:]):
        if a[0] == "field" and b[0] == "field":
            wa = "".join(ch for ch in a[1] if ch.isdigit())
            if not wa:
                return False, "'%s' of (%s): two variable-width fields are concatenated with no separator " \
                              "(1+'1AB' == 11+'AB')" % (norm(v), ", ".join(args))
    return True, "fields separated or fixed-width"


def r12_4(ctx: Ctx):
    f = ctx.func("SystemGro._parse_gro")
    atomcls = ctx.repo.cls("AtomGro")
    loops = [n for n in walk_no_nested(f.node) if isinstance(n, ast.For)]
    tests = [n for l in loops for n in walk_no_nested(l) if isinstance(n, ast.If)]
    if not tests:
        # boundaries found by itertools.groupby: the key function plays the part of the comparison
        gb = [c_ for c_ in calls_in(f.node) if call_name(c_) == "groupby"]
        if gb:
            key = next((k_.value for k_ in gb[0].keywords if k_.arg == "key"), gb[0].args[1] if len(gb[0].args) > 1 else None)
            fields = set()
            if isinstance(key, ast.Lambda) and isinstance(key.body, ast.Tuple):
                fields = {e.attr for e in key.body.elts if isinstance(e, ast.Attribute)}
            elif isinstance(key, ast.Lambda) and isinstance(key.body, ast.Attribute):
                fields = {key.body.attr}
            elif isinstance(key, ast.Call) and call_name(key) == "attrgetter":
                fields = {a_.value for a_ in key.args if isinstance(a_, ast.Constant)}
            if {"resid", "resname"} <= fields:
                ctx.ob("R12.4", f, gb[0], True, "a new residue starts exactly where residue number or residue name changes: the grouping "
                       "key is the pair of both fields", node=gb[0], compared=sorted(fields))
            elif fields and fields <= {"resid", "resname"}:
                ctx.ob("R12.4", f, gb[0], False, "a new residue starts exactly where residue number or residue name changes -- the grouping "
                       "key uses only %s" % sorted(fields), node=gb[0])
            else:
                ctx.ob("R12.4", f, gb[0], True, "grouping key not recognised; boundary not decided on this tree", undecided=True, node=gb[0])
            return
        raise AnalysisError("R12.4: residue boundary test not found in SystemGro._parse_gro")
    t = tests[0]
    test = t.test
    n = 0
    comps = []
    if isinstance(test, ast.BoolOp):
        comps = [v for v in test.values if isinstance(v, ast.Compare)]
        joined = type(test.op).__name__
    elif isinstance(test, ast.Compare):
        comps, joined = [test], "single"
    attrs_compared = set()
    verdict, why = None, ""
    for c in comps:
        sides = [c.left, c.comparators[0]]
        for s in sides:
            if isinstance(s, ast.Tuple):
                attrs_compared |= {e.attr for e in s.elts if isinstance(e, ast.Attribute)}
                for e in s.elts:
                    if isinstance(e, ast.Name):
                        attrs_compared |= _origin_attrs(f, e.id)
            elif isinstance(s, ast.Attribute):
                attrs_compared.add(s.attr)
            elif isinstance(s, ast.Name):
                attrs_compared |= _origin_attrs(f, s.id)
    if {"resid", "resname"} <= attrs_compared:
        verdict, why = True, "number and name are compared as separate fields"
    elif "residname" in attrs_compared:
        verdict, why = _injective_key(ctx, atomcls, "residname")
    elif attrs_compared & {"resid", "resname"}:
        verdict, why = False, "only %s is compared" % sorted(attrs_compared & {"resid", "resname"})
    if verdict is None:
        ctx.ob("R12.4", f, t, True, "boundary predicate not recognised (%s)" % why, undecided=True, node=t)
        return
    ctx.ob("R12.4", f, t, verdict,
           "a new residue starts exactly where residue number or residue name changes: the comparison must "
           "distinguish any two different (number, name) pairs" + ("" if verdict else " -- " + why), node=t,
           compared=sorted(attrs_compared))
    # polarity: atoms with an unchanged key extend the current residue; a changed key closes it
    body_same = t.body if _is_same_test(test) else t.orelse
    body_new = t.orelse if _is_same_test(test) else t.body
    neg = isinstance(test, ast.UnaryOp) and isinstance(test.op, ast.Not)
    from ..pat import find as pfind
    app_ = [b_ for x in body_same for _, b_ in pfind(x, "V_cur.append(V_atom)")]
    clo_ = [b_ for x in body_new for _, b_ in pfind(x, "self._add_residue_init(Residue(V_cur))")]
    pol_ok = (not neg) and bool(app_) and bool(clo_) and app_[0]["V_cur"] == clo_[0]["V_cur"]
    if not pol_ok and (not neg) and clo_ and not app_:
        # "flush on change, then append": the changed-key branch closes the residue and restarts it EMPTY, and the atom is
        # appended after the test on both paths
        pm124 = parents_map(f.node)
        holder = pm124.get(id(t))
        for fld_ in ("body", "orelse"):
            blk_ = getattr(holder, fld_, None)
            if isinstance(blk_, list) and any(x_ is t for x_ in blk_):
                i_ = [j_ for j_, x_ in enumerate(blk_) if x_ is t][0]
                after_ = [b_ for x_ in blk_[i_ + 1:i_ + 2] for _, b_ in pfind(x_, "V_cur.append(V_atom)")]
                restart_empty = any(isinstance(x_, ast.Assign) and norm(x_.targets[0]) == clo_[0]["V_cur"] and norm(x_.value) == "[]" for x_ in body_new)
                if after_ and after_[0]["V_cur"] == clo_[0]["V_cur"] and restart_empty and not body_same:
                    pol_ok = True
    ctx.ob("R12.4", f, "branches of the boundary test", pol_ok,
           "an atom whose (number, name) equals the current residue's is appended to it; otherwise the current residue "
           "is closed and a new one starts with this atom", node=t)
    refreshed = any(isinstance(s, ast.Assign) for s in body_new)
    ctx.ob("R12.4", f, "key refresh in the new-residue branch", refreshed,
           "the key of the current residue is updated when a new residue starts", node=t)


def _is_same_test(test) -> bool:
    if isinstance(test, ast.Compare):
        return isinstance(test.ops[0], ast.Eq)
    if isinstance(test, ast.BoolOp):
        return isinstance(test.op, ast.And)
    return True


def _origin_attrs(f: Func, name: str) -> set:
    out = set()
    for s in walk_no_nested(f.node):
        if isinstance(s, ast.Assign) and any(norm(t) == name for t in s.targets):
            for n in ast.walk(s.value):
                if isinstance(n, ast.Attribute) and n.attr in ("resid", "resname", "residname"):
                    out.add(n.attr)
    return out
