"""C16 - ItpFile read-write-read loses no section, line or comment (structural clauses).

R16.1 a repeated section header never replaces the section already collected
R16.2 nothing is filtered on the way out: every parsed line is recorded in the full-line list,
      the section serialiser walks that list, the file writer emits the header lines and every section
R16.3 line re-assembly keeps what the split produced: for every way parse_itp_line splits a
      newline-terminated line into (content, comment), ItpLine.line returns a text that still ends
      with that newline (sections are serialised by joining with the empty string, so a line that
      loses its terminator fuses with the next one) and that omits the content / the comment only
      when that part is empty
R16.5 reading/writing a topology file keeps no table between calls (no cached file text)
"""
from __future__ import annotations

import ast
from typing import Dict, List, Optional, Tuple

from ..cfg import (CFG, call_name, calls_in, walk_no_nested, parents_map, guards_of, attr_chain,
                   enum_paths, const_int)
from ..core import AnalysisError, Ctx, Func, norm
from ..util import stmts_sorted

SPEC = {
    "explanation": (
        "Structural rules over gaddlemaps/parsers/_itp_parse.py.  R16.1: in the reader loop the store that "
        "creates a section is reached only when the name is not yet a key (membership guard, setdefault or "
        "an early continue).  R16.2: ItpSection.append records every parsed line unconditionally in the list "
        "that __str__ serialises; ItpFile.write emits header lines and every section on every loop path.  "
        "R16.3: a small abstract string domain (EMPTY / keeps-the-line-end / drops-the-line-end, may-be-"
        "whitespace-only, may-be-non-empty) is computed for the (content, comment) pair on every return path "
        "of ItpLine.parse_itp_line from the slicing/splitting forms used there; every path of ItpLine.line is "
        "then interpreted under each such pair, refining the pair by the branch tests (raw vs stripped "
        "comment), and must return a text that keeps the line end and mentions every part that may be "
        "non-empty.  The token-by-token inverse law itself is not decided."),
    "exhaustive": True,
    "trusted_base": ["str.split/join/strip/startswith semantics as modelled in R16.3",
                     "OrderedDict keeps first-insertion order"],
    "assumptions": ["lines handed to the parser are newline-terminated (all but possibly the last line of a file)"],
}


def run(ctx: Ctx):
    ctx.attempt("R16.1", lambda: r16_1(ctx))
    ctx.attempt("R16.1", lambda: r16_1b(ctx))
    ctx.attempt("R16.4", lambda: r16_4(ctx))
    ctx.attempt("R16.2", lambda: r16_2(ctx))
    ctx.attempt("R16.3", lambda: r16_3(ctx))
    ctx.attempt("R16.5", lambda: r16_5(ctx))


def r16_5(ctx: Ctx, rule="R16.5"):
    from ..util import persistent_state
    fs = [ctx.func(q) for q in ("ItpFile.__init__", "ItpFile.write", "ItpSection.__init__", "ItpLine.__init__", "ItpLine.parse_itp_line")]
    persistent_state(ctx, rule, fs, "reading / writing a topology file")


# ---------------------------------------------------------------------------
def r16_1(ctx: Ctx, rule: str = "R16.1"):
    init = ctx.func("ItpFile.__init__")
    pm = parents_map(init.node)
    stores = []
    for st in walk_no_nested(init.node):
        if isinstance(st, ast.Assign) and isinstance(st.targets[0], ast.Subscript) \
                and norm(st.targets[0].value) == "self" and isinstance(st.value, ast.Call) \
                and call_name(st.value) == "ItpSection":
            stores.append(st)
    setdef = [c for c in calls_in(init.node) if call_name(c) == "setdefault" and norm(c.func.value) == "self"
              and len(c.args) == 2 and isinstance(c.args[1], ast.Call) and call_name(c.args[1]) == "ItpSection"]
    if not stores and not setdef:
        ctx.ob(rule, init, "section creation", True, "no `self[name] = ItpSection(...)` store and no setdefault: "
               "section bookkeeping has another shape; not decided on this tree", undecided=True)
        return
    for c in setdef:
        ctx.ob(rule, init, c, True, "setdefault keeps a section that already exists", node=c)
    for st in stores:
        key = norm(st.targets[0].slice)
        guards = guards_of(st, pm)
        ok = False
        how = ""
        for t, pol in guards:
            tt = norm(t)
            if (tt == "%s not in self" % key and pol) or (tt == "%s in self" % key and not pol) \
                    or (tt == "not %s in self" % key and pol) \
                    or (tt in ("%s not in self.keys()" % key,) and pol):
                ok, how = True, "guarded by `%s`" % tt
        if not ok:
            # early continue / else-less guard earlier in the same block
            blk = _block_of(st, pm)
            if blk is not None:
                for prev in blk[:blk.index(st)]:
                    if isinstance(prev, ast.If) and norm(prev.test) == "%s in self" % key \
                            and prev.body and isinstance(prev.body[-1], (ast.Continue, ast.Return, ast.Raise)):
                        ok, how = True, "preceded by `if %s in self: continue`" % key
        ctx.ob(rule, init, st, ok,
               "a section header seen again must not replace the lines already collected for that name"
               + ("" if ok else " -- the store is unconditional: a second `[ %s ]` header discards the first block" % key),
               node=st, guard=how)


def _block_of(st, pm):
    par = pm.get(id(st))
    for fld in ("body", "orelse", "finalbody"):
        blk = getattr(par, fld, None)
        if isinstance(blk, list) and any(s is st for s in blk):
            return blk
    return None


# ---------------------------------------------------------------------------
def reorder_sites(fn: ast.AST):
    """calls that change the position of an existing key of `self` (an ordered mapping): move_to_end / popitem / pop"""
    return [c_ for c_ in ast.walk(fn) if isinstance(c_, ast.Call) and isinstance(c_.func, ast.Attribute)
            and c_.func.attr in ("move_to_end", "popitem", "pop") and norm(c_.func.value) == "self"]


def r16_1b(ctx: Ctx, rule="R16.1"):
    """Sections keep the order of their first appearance: while the file is read no existing key is moved."""
    init = ctx.func("ItpFile.__init__")
    hits = reorder_sites(init.node)
    for c_ in hits:
        ctx.ob(rule, init, c_, False, "sections are listed (and written) in the order of their first appearance -- `%s` moves a "
               "section that exists already" % norm(c_)[:60], node=c_)
    if not hits:
        ctx.ob(rule, init, "key-moving operations while reading: 0", True, "no existing section is moved while the file is read", node=init.node)
    from ..fixtures import check_fixture
    check_fixture(ctx, rule, "reorder.py", lambda repo: sum(len(reorder_sites(f_.node)) for f_ in repo.funcs.values()), expect_exact=2)


def r16_4(ctx: Ctx, rule="R16.4"):
    """The parser and the writer agree on what a preprocessor line is: the test that files a line as ('', line) when
    it starts with '#' and the test that writes a content-less line back verbatim are the same test on the same text
    (the raw line / the raw stored comment).  If one side strips blanks first and the other does not, an indented
    directive or a comment whose text begins with '#' is classified one way on read and the other way on write."""
    parse = ctx.func("ItpLine.parse_itp_line")
    line = ctx.func("ItpLine.line@get")
    lp = [p_ for p_ in parse.params if p_ not in ("cls", "self")][0]

    def hash_tests(fn):
        out = []
        for c_ in ast.walk(fn):
            if isinstance(c_, ast.Call) and isinstance(c_.func, ast.Attribute) and c_.func.attr == "startswith" and c_.args \
                    and isinstance(c_.args[0], ast.Constant) and c_.args[0].value == "#":
                out.append(c_.func.value)
        return out
    from ..pat import expand_single_defs as _xsd16
    tp = [_xsd16(parse.node, e_, aliases_only=True) for e_ in hash_tests(parse.node)]
    tl = [_xsd16(line.node, e_, aliases_only=True) for e_ in hash_tests(line.node)]
    if not tp or not tl:
        ctx.ob(rule, parse, "preprocessor tests", True, "no `startswith('#')` test on one of the two sides; agreement not decided on this tree",
               undecided=True, node=parse.node)
        return
    # stripped views of the stored fields
    stripped_props = set()
    for nm, g in (line.cls.getters.items() if line.cls else []):
        for n in ast.walk(g.node):
            if isinstance(n, ast.Return) and isinstance(n.value, ast.Call) and call_name(n.value) in ("strip", "lstrip", "rstrip"):
                stripped_props.add("self." + nm)

    def is_raw(e, raw_names):
        if isinstance(e, ast.Call) and call_name(e) in ("strip", "lstrip", "rstrip"):
            return False
        return norm(e) in raw_names and norm(e) not in stripped_props
    raw_p = all(is_raw(e, {lp}) for e in tp)
    raw_l = all(is_raw(e, {norm(e)}) and norm(e).startswith("self._") for e in tl)
    ctx.ob(rule, parse, "read: %s.startswith('#') ; write: %s.startswith('#')" % ([norm(e) for e in tp], [norm(e) for e in tl]),
           raw_p and raw_l,
           "both sides test the raw text" + ("" if raw_p and raw_l else " -- one side strips blanks before the test and the other does not: "
           "an indented directive, or a comment whose text begins with '#', is read as one kind of line and written as the other"),
           node=parse.node)


def r16_2b(ctx: Ctx, rule="R16.2"):
    """Routing of the reader loop: every line that is not a section header is appended, unchanged, to the header list
    (before the first section) or to the current section (afterwards)."""
    from ..pat import find as pfind
    init = ctx.func("ItpFile.__init__")
    loops = [n_ for n_ in walk_no_nested(init.node) if isinstance(n_, ast.For)]
    if not loops:
        ctx.ob(rule, init, "reader loop", True, "reader loop not recognised", undecided=True)
        return
    lp = loops[0]
    lv = norm(lp.target)
    cur = None
    for s_ in walk_no_nested(lp):
        if isinstance(s_, ast.Assign) and isinstance(s_.targets[0], ast.Name) and "findall" in norm(s_.value):
            cur = s_.targets[0].id
    # the current-section variable is the one the ordinary lines are filed under (`self[<cur>].append(line)`); the name read
    # off the header line may reach it through a local of its own
    for c_ in calls_in(lp):
        if call_name(c_) == "append" and c_.args and norm(c_.args[0]) == lv and isinstance(c_.func.value, ast.Subscript) \
                and norm(c_.func.value.value) == "self" and isinstance(c_.func.value.slice, ast.Name):
            cur = c_.func.value.slice.id
    n = 0
    from ..cfg import resolve_flags as _rf16
    # another representation: the container lines are filed into is held in a local (`current.append(line)`)
    direct = [c_ for c_ in calls_in(lp) if call_name(c_) == "append" and c_.args and norm(c_.args[0]) == lv and isinstance(c_.func.value, ast.Name)]
    keyed = [c_ for c_ in calls_in(lp) if call_name(c_) == "append" and c_.args and norm(c_.args[0]) == lv and isinstance(c_.func.value, ast.Subscript)]
    per_line_temp = False
    if direct and not keyed:
        # a temporary chosen anew for every line (`target = self['header'] if sec is None else self[sec]`) is the keyed form
        # written through a local: the path rule below reads it through its aliases
        for p_ in _rf16(enum_paths(lp.body)):
            binds_ = [x_ for x_ in p_.stmts() if isinstance(x_, ast.Assign) and norm(x_.targets[0]) == direct[0].func.value.id]
            apps_ = [x_ for x_ in p_.stmts() if norm(x_) == "%s.append(%s)" % (direct[0].func.value.id, lv)]
            if binds_ and apps_:
                per_line_temp = True
    if direct and not keyed and not per_line_temp:
        # the same discipline for this representation: the local is the header list before the loop, every section-header line
        # rebinds it to self[<name on that line>] (whether or not the section is new), every other line is appended to it once
        cl = direct[0].func.value.id
        name_var = None
        for s_ in walk_no_nested(lp):
            if isinstance(s_, ast.Assign) and isinstance(s_.targets[0], ast.Name) and ("findall" in norm(s_.value) or ".group(" in norm(s_.value)):
                name_var = s_.targets[0].id
        inits = [s_ for s_ in stmts_sorted(init.node) if isinstance(s_, ast.Assign) and any(norm(t_) == cl for t_ in s_.targets) and s_.lineno < lp.lineno]
        ctx.ob(rule, init, inits[-1] if inits else "initial container", bool(inits) and (
            norm(inits[-1].value) == "self['header']" or any(norm(t_) == "self['header']" for t_ in inits[-1].targets)),
               "lines before the first section go to the header list (the container starts as self['header'])", node=inits[-1] if inits else lp)
        npaths = 0
        for p in _rf16(enum_paths(lp.body)):
            hdr = None
            for t, o in p.conds():
                tt, neg = t, False
                while isinstance(tt, ast.UnaryOp) and isinstance(tt.op, ast.Not):
                    tt, neg = tt.operand, not neg
                if isinstance(tt, ast.Call) and "match" in norm(tt.func) and "\\[" in norm(tt):
                    hdr = (o != neg)
                if isinstance(tt, ast.Compare) and len(tt.ops) == 1 and isinstance(tt.ops[0], (ast.Is, ast.IsNot)) and isinstance(tt.left, ast.Call) \
                        and "match" in norm(tt.left.func) and "\\[" in norm(tt.left) and isinstance(tt.comparators[0], ast.Constant) and tt.comparators[0].value is None:
                    hdr = (o != neg) != isinstance(tt.ops[0], ast.Is)
            st = p.stmts()
            apps = [x for x in st if norm(x) == "%s.append(%s)" % (cl, lv)]
            rebinds = [x for x in st if isinstance(x, ast.Assign) and norm(x.targets[0]) == cl]
            npaths += 1
            if hdr is None:
                ctx.ob(rule, init, "loop path: %s" % p.describe()[:160], False, "every line is classified as section header or not", node=lp)
            elif hdr:
                okh = not apps and len(rebinds) == 1 and name_var is not None and norm(rebinds[0].value) == "self[%s]" % name_var
                ctx.ob(rule, init, "header-line path: %s" % p.describe()[:140], okh,
                       "a `[ name ]` line switches the container lines are filed into to self[name] - for a repeated name as well as "
                       "for a new one" + ("" if okh else " -- on this path the container is %s" % (
                           "not switched: the lines that follow go to the section that was open before" if not rebinds else "switched to `%s`" % norm(rebinds[0].value))),
                       node=lp)
            else:
                ctx.ob(rule, init, "ordinary-line path: %s" % p.describe()[:140], len(apps) == 1 and not rebinds,
                       "an ordinary line is appended, unchanged and once, to the container of the current section", node=lp)
        ctx.floor(rule, npaths, 3, "paths of the reader loop")
        return
    switch_paths = []
    for p in _rf16(enum_paths(lp.body)):
        is_header = None
        sec_none = None
        for t, o in p.conds():
            tt, neg = t, False
            while isinstance(tt, ast.UnaryOp) and isinstance(tt.op, ast.Not):
                tt, neg = tt.operand, not neg
            if isinstance(tt, ast.Call) and "match" in norm(tt.func) and "\\[" in norm(tt):
                is_header = (o != neg)
            if isinstance(tt, ast.Compare) and len(tt.ops) == 1 and isinstance(tt.ops[0], (ast.Is, ast.IsNot)) and isinstance(tt.left, ast.Call) \
                    and "match" in norm(tt.left.func) and "\\[" in norm(tt.left) and isinstance(tt.comparators[0], ast.Constant) and tt.comparators[0].value is None:
                is_header = (o != neg) != isinstance(tt.ops[0], ast.Is)
            if cur and norm(tt).replace(" ", "") == "%sisNone" % cur:
                sec_none = (o != neg)
            if cur and norm(tt).replace(" ", "") == "%sisnotNone" % cur:
                sec_none = not (o != neg)
        from ..util import expand_path_aliases
        st = expand_path_aliases(p.stmts())
        h_app = [x for x in st if norm(x) == "self['header'].append(%s)" % lv]
        s_app = [x for x in st if cur and norm(x) == "self[%s].append(%s)" % (cur, lv)]
        n += 1
        for x_ in p.stmts():
            if isinstance(x_, ast.Assign) and cur and any(isinstance(t_, ast.Name) and t_.id == cur for t_ in x_.targets):
                switch_paths.append((x_, is_header))
        if is_header is None:
            ctx.ob(rule, init, "loop path: %s" % p.describe()[:160], False, "every line is classified as section header or not", node=lp)
        elif is_header:
            ok = not h_app and not s_app and any(isinstance(x, ast.Assign) and norm(x.targets[0]) == cur for x in st)
            ctx.ob(rule, init, "header-line path: %s" % p.describe()[:140], ok,
                   "a `[ name ]` line only switches the current section (its text is not stored as a line)", node=lp)
        else:
            want_h = sec_none is True
            ok = (len(h_app) == 1 and not s_app) if want_h else (len(s_app) == 1 and not h_app)
            ok = ok and sec_none is not None
            ctx.ob(rule, init, "ordinary-line path (%s): %s" % ("before the first section" if want_h else "inside a section", p.describe()[:120]),
                   ok, "an ordinary line is appended, unchanged, to the header list before the first section and to the "
                   "current section afterwards", node=lp)
    ctx.floor(rule, n, 3, "paths of the reader loop")
    # the current section changes only at a `[ name ]` line: any other assignment to it inside the loop (a reset at a
    # preprocessor line, say) files the lines that follow under another section
    if cur:
        seen_sw = {}
        for s_, hdr_ in switch_paths:
            seen_sw.setdefault(id(s_), [s_, True])
            if hdr_ is not True:
                seen_sw[id(s_)][1] = False
        for s_, under_header in seen_sw.values():
            if True:
                ctx.ob(rule, init, s_, under_header,
                       "the current section is changed only by a section-header line" + ("" if under_header else
                       " -- `%s` changes it on another kind of line: the lines that follow are filed under the wrong section" % norm(s_)),
                       node=s_)
    # the header list exists from the start and is the first key
    ctx.ob(rule, init, "header list initialised", bool(pfind(init.node, "self['header'] = []")) and bool(pfind(init.node, "%s = None" % cur)) if cur else False,
           "the file object starts with an empty header list and no current section", node=init.node)


def r16_2(ctx: Ctx):
    r16_2b(ctx)
    app = ctx.func("ItpSection.append")
    sstr = ctx.func("ItpSection.__str__")
    wr = ctx.func("ItpFile.write")
    lines_prop = ctx.repo.func("ItpSection.lines@get", required=False)
    pm = parents_map(app.node)
    # the full-line list: attribute that `lines` returns / that __str__ walks
    full = None
    if lines_prop is not None:
        for n in ast.walk(lines_prop.node):
            if isinstance(n, ast.Attribute) and attr_chain(n) and attr_chain(n).startswith("self._"):
                full = attr_chain(n)
    if full is None:
        full = "self._lines"
    recs = [c for c in calls_in(app.node) if call_name(c) in ("append",) and attr_chain(c.func.value) == full]
    ok = False
    if recs:
        g = guards_of(recs[0], pm)
        ok = not g and app.node.body and any(recs[0] in ast.walk(s) for s in app.node.body)
    ctx.ob("R16.2", app, recs[0] if recs else "record in %s" % full, ok,
           "every line (content, comment-only, blank, preprocessor) is recorded in the full-line list, "
           "outside any content test", node=recs[0] if recs else app.node)
    # what is recorded is the parse of the argument
    if recs:
        arg = recs[0].args[0] if recs[0].args else None
        param = [p for p in app.params if p != "self"][0]
        src_ok = False
        if isinstance(arg, ast.Name):
            for st in walk_no_nested(app.node):
                if isinstance(st, ast.Assign) and norm(st.targets[0]) == arg.id and param in norm(st.value):
                    src_ok = True
        elif arg is not None and param in norm(arg):
            src_ok = True
        ctx.ob("R16.2", app, "recorded object derives from the new line", src_ok,
               "the recorded entry is built from the line being appended", node=recs[0])
    # __str__ walks the full list
    uses_full = any(attr_chain(n) == full for n in ast.walk(sstr.node) if isinstance(n, ast.Attribute))
    iter_self = any(isinstance(n, (ast.comprehension,)) and norm(n.iter) == "self" for n in ast.walk(sstr.node)) or \
        any(isinstance(n, ast.For) and norm(n.iter) == "self" for n in ast.walk(sstr.node))
    ctx.ob("R16.2", sstr, "serialises %s" % full, uses_full and not iter_self,
           "the section text is built from the full-line list (not from the content-only view)", node=sstr.node)
    # the section header line is emitted with the section's own name
    hdr = [n for n in ast.walk(sstr.node) if isinstance(n, ast.Constant) and isinstance(n.value, str) and "[" in n.value]
    ctx.ob("R16.2", sstr, hdr[0] if hdr else "section header", bool(hdr) and "section_name" in norm(sstr.node),
           "the section header is re-emitted with the section's name", node=hdr[0] if hdr else sstr.node)
    # write: loop over all items; every path of the body writes
    loops = [n for n in walk_no_nested(wr.node) if isinstance(n, ast.For) and norm(n.iter) in ("self.items()", "self", "self.keys()", "self.values()")]
    if not loops:
        loops = [n for n in walk_no_nested(wr.node) if isinstance(n, ast.For) and "self" in norm(n.iter)][:1]
    okw = False
    detail = ""
    if loops:
        lp = loops[0]
        it = norm(lp.iter)
        full_iter = it in ("self.items()", "self", "self.keys()", "self.values()")
        from ..cfg import resolve_flags as _rf16b
        paths = _rf16b(enum_paths(lp.body))
        all_write = True
        for p in paths:
            w = any(any(call_name(c) in ("write", "writelines") for c in calls_in(s)) or
                    (isinstance(s, (ast.For,)))
                    for s in p.stmts()) or any(e[0] in ("loop1", "loop0") for e in p.events)
            if p.end in ("continue", "break", "return") and not w:
                all_write = False
            if p.end == "fall" and not w:
                all_write = False
        # inner header loop writes each line
        okw = full_iter and all_write
        detail = "iterates %s; %d body path(s)" % (it, len(paths))
    ctx.ob("R16.2", wr, loops[0] if loops else "write loop", okw,
           "the writer visits every key of the file and every path of the loop body writes it out", node=loops[0] if loops else wr.node,
           detail=detail)
    # a section's text is followed by a line break: the last stored line of a section need not end with one (a source
    # file without a final newline), and the section text is the plain concatenation of its lines
    sec_writes = []
    if loops:
        for c in calls_in(loops[0]):
            if call_name(c) == "write" and c.args and not any(isinstance(a_, ast.For) and a_ is not loops[0] and any(c is x for x in ast.walk(a_))
                                                               for a_ in walk_no_nested(loops[0])):
                sec_writes.append(c)
    joined_plain = any(isinstance(c_, ast.Call) and call_name(c_) == "join" and isinstance(c_.func, ast.Attribute)
                       and isinstance(c_.func.value, ast.Constant) and c_.func.value.value == "" for c_ in ast.walk(sstr.node))
    for c in sec_writes:
        a_ = c.args[0]
        txt = norm(a_)
        terminated = None
        if isinstance(a_, ast.Call) and call_name(a_) == "format" and isinstance(a_.func.value, ast.Constant):
            terminated = str(a_.func.value.value).endswith("\n")
        elif isinstance(a_, ast.JoinedStr):
            last = a_.values[-1] if a_.values else None
            terminated = isinstance(last, ast.Constant) and str(last.value).endswith("\n")
        elif isinstance(a_, ast.BinOp) and isinstance(a_.op, ast.Add) and isinstance(a_.right, ast.Constant):
            terminated = str(a_.right.value).endswith("\n")
        elif isinstance(a_, ast.Call) and call_name(a_) in ("str", "__str__") or isinstance(a_, ast.Name):
            terminated = False
        if terminated is None:
            ctx.ob("R16.2", wr, c, True, "text written for a section not in a recognised form; terminator not decided on this tree",
                   undecided=True, node=c)
        elif terminated or not joined_plain:
            ctx.ob("R16.2", wr, c, True, "the text written for a section ends with a line break", node=c)
        else:
            ctx.ob("R16.2", wr, c, False, "the text written for a section ends with a line break -- `%s` writes the section as the plain "
                   "concatenation of its lines: when the last line of a section has no terminator (a file without a final newline) "
                   "the next `[ header ]` is glued onto it" % txt[:60], node=c)
    # header lines are written verbatim
    inner = [n for n in walk_no_nested(wr.node) if isinstance(n, ast.For) and n not in loops]
    okh = any(any(call_name(c) == "write" and c.args and norm(c.args[0]) == norm(n.target) for c in calls_in(n))
              for n in inner) or any(call_name(c) == "writelines" for c in calls_in(wr.node))
    ctx.ob("R16.2", wr, inner[0] if inner else "header lines", okh,
           "text before the first section is written back line by line, unchanged", node=inner[0] if inner else wr.node)


# ---------------------------------------------------------------------------
# R16.3 abstract strings
# ---------------------------------------------------------------------------
class S:
    """Abstract string relative to the input line L (non-blank, newline-terminated).
    end:      'keep' (ends with L's terminator), 'drop' (does not), 'empty' (is ''), '?'
    nonempty: may contain non-whitespace text
    wsonly:   may be non-empty but whitespace only
    """
    def __init__(self, end, nonempty, wsonly, src):
        self.end, self.nonempty, self.wsonly, self.src = end, nonempty, wsonly, src

    def __repr__(self):
        return "%s[%s%s%s]" % (self.src, self.end, ",text" if self.nonempty else "", ",ws" if self.wsonly else "")

    def copy(self, **kw):
        s = S(self.end, self.nonempty, self.wsonly, self.src)
        for k, v in kw.items():
            setattr(s, k, v)
        return s


EMPTY = lambda: S("empty", False, False, "''")


def _abstract_piece(e: ast.AST, param: str, env: Dict[str, S], split_first_safe: bool) -> Optional[S]:
    if isinstance(e, ast.Constant) and e.value == "":
        return EMPTY()
    if isinstance(e, ast.Name) and e.id == param:
        return S("keep", True, False, "line")
    if isinstance(e, ast.Subscript) and isinstance(e.value, ast.Name) and e.value.id == param \
            and isinstance(e.slice, ast.Slice) and e.slice.lower is None and e.slice.upper is None \
            and e.slice.step is None:
        return S("keep", True, False, norm(e))      # a copy of the (non-blank) line
    if isinstance(e, ast.Name) and e.id in env:
        return env[e.id]
    if isinstance(e, ast.Subscript) and isinstance(e.value, ast.Name) and e.value.id == param \
            and isinstance(e.slice, ast.Slice) and e.slice.step is None:
        lo, hi = e.slice.lower, e.slice.upper
        if hi is None:
            # suffix (possibly the whole line): keeps the terminator; may be whitespace only
            return S("keep", True, True, norm(e))
        if isinstance(hi, ast.UnaryOp):
            return S("drop", True, True, norm(e))
        return S("?", True, True, norm(e))
    if isinstance(e, ast.Subscript) and isinstance(e.value, ast.Name) and e.value.id in env \
            and env[e.value.id].src.startswith("split"):
        k = const_int(e.slice)
        if k == 0:
            # first piece of a split: does not reach the end of the line iff a separator occurs
            # before the last character (path condition)
            return S("drop" if split_first_safe else "?", True, True, norm(e))
        if k == -1:
            return S("keep", True, True, norm(e))
        return S("?", True, True, norm(e))
    if isinstance(e, ast.Call) and call_name(e) == "join" and e.args:
        a = e.args[0]
        # sep.join(pieces[1:]) keeps the last piece, hence the terminator
        if isinstance(a, ast.Subscript) and isinstance(a.value, ast.Name) and a.value.id in env \
                and env[a.value.id].src.startswith("split") and isinstance(a.slice, ast.Slice) \
                and a.slice.upper is None:
            return S("keep", True, True, norm(e))
        return None
    if isinstance(e, ast.Call) and call_name(e) in ("strip", "rstrip") and isinstance(e.func, ast.Attribute):
        inner = _abstract_piece(e.func.value, param, env, split_first_safe)
        if inner is None:
            return None
        return S("empty" if inner.end == "empty" else "drop", inner.nonempty, False, norm(e))
    return None


def parse_states(ctx: Ctx, f: Func) -> Optional[List[Tuple[S, S, str]]]:
    param = [p for p in f.params if p not in ("cls", "self")][0]
    out = []
    for p in enum_paths(f.node.body):
        if p.end != "return":
            continue
        # `a, _, b = line.partition(sep)` forks the analysis: separator absent / present
        has_part = any(ev[0] == "s" and isinstance(ev[1], ast.Assign) and isinstance(ev[1].targets[0], ast.Tuple)
                       and isinstance(ev[1].value, ast.Call) and call_name(ev[1].value) == "partition" for ev in p.events)
        for sep_present in ((False, True) if has_part else (None,)):
            r = _eval_path(p, param, sep_present)
            if r == "unknown":
                return None
            if r is not None:
                out.append(r)
    return out


def _eval_path(p, param: str, sep_present):
    env: Dict[str, S] = {}
    blank = False
    split_safe = False
    last_char_not_nl = False
    alias: Dict[str, str] = {}          # locals that name a slice / character of the line
    for ev in p.events:
        if ev[0] == "s" and isinstance(ev[1], ast.Assign) and isinstance(ev[1].targets[0], ast.Name) \
                and isinstance(ev[1].value, ast.Subscript) and norm(ev[1].value.value) == param:
            alias[ev[1].targets[0].id] = norm(ev[1].value)
        if ev[0] == "c":
            t = norm(ev[1])
            if t == "not %s.strip()" % param and ev[2]:
                blank = True
            if t == "%s.strip()" % param and not ev[2]:
                blank = True

            def _n(x):
                return alias.get(x.id, norm(x)) if isinstance(x, ast.Name) else norm(x)
            # `sep in line[:-1]` true: a separator before the last character
            if isinstance(ev[1], ast.Compare) and isinstance(ev[1].ops[0], ast.In) and ev[2] \
                    and _n(ev[1].comparators[0]) == "%s[:-1]" % param:
                split_safe = True
            # `line[-1] == ';'` true: the line does not end with a newline (outside our precondition)
            if isinstance(ev[1], ast.Compare) and _n(ev[1].left) == "%s[-1]" % param and ev[2] \
                    and isinstance(ev[1].ops[0], ast.Eq) and isinstance(ev[1].comparators[0], ast.Constant) \
                    and ev[1].comparators[0].value != "\n":
                last_char_not_nl = True
            # `line.endswith(';')` true: the same fact
            if isinstance(ev[1], ast.Call) and call_name(ev[1]) == "endswith" and isinstance(ev[1].func, ast.Attribute) \
                    and norm(ev[1].func.value) == param and ev[2] and len(ev[1].args) == 1 and isinstance(ev[1].args[0], ast.Constant) \
                    and isinstance(ev[1].args[0].value, str) and ev[1].args[0].value and not ev[1].args[0].value.endswith("\n"):
                last_char_not_nl = True
            # `piece.strip()` as a test refines what the piece may be
            tt, pol = ev[1], ev[2]
            while isinstance(tt, ast.UnaryOp) and isinstance(tt.op, ast.Not):
                tt, pol = tt.operand, not pol
            if isinstance(tt, ast.Call) and call_name(tt) == "strip" and isinstance(tt.func, ast.Attribute) \
                    and isinstance(tt.func.value, ast.Name) and tt.func.value.id in env and not tt.args:
                cur = env[tt.func.value.id]
                if pol:
                    if not cur.nonempty:
                        return None                   # infeasible: the piece cannot hold text
                    env[tt.func.value.id] = cur.copy(nonempty=True, wsonly=False)
                else:
                    if cur.end != "empty" and not cur.wsonly:
                        return None
                    env[tt.func.value.id] = cur.copy(nonempty=False)
        elif ev[0] == "s" and isinstance(ev[1], ast.Assign) and isinstance(ev[1].targets[0], ast.Tuple) \
                and isinstance(ev[1].value, ast.Call) and call_name(ev[1].value) == "partition" \
                and norm(ev[1].value.func.value) == param and len(ev[1].targets[0].elts) == 3 and sep_present is not None:
            names = [e_.id if isinstance(e_, ast.Name) else None for e_ in ev[1].targets[0].elts]
            if sep_present:
                # text before the first separator (no terminator); text after it, up to and including the terminator
                if names[0]:
                    env[names[0]] = S("drop", True, True, "partition[0]")
                if names[2]:
                    env[names[2]] = S("keep", True, True, "partition[2]")
            else:
                if names[0]:
                    env[names[0]] = S("keep", True, False, "partition[0] (whole line)")
                if names[2]:
                    env[names[2]] = EMPTY()
        elif ev[0] == "s" and isinstance(ev[1], ast.Assign) and isinstance(ev[1].targets[0], ast.Name):
            v = ev[1].value
            if isinstance(v, ast.Call) and call_name(v) in ("split", "partition", "rsplit") \
                    and norm(v.func.value) == param:
                env[ev[1].targets[0].id] = S("?", True, True, "split:" + norm(v))
            else:
                a = _abstract_piece(v, param, env, split_safe)
                if a is not None:
                    env[ev[1].targets[0].id] = a
    ret = p.end_node.value
    if last_char_not_nl:
        return None          # infeasible under the precondition 'line ends with a newline'
    if not isinstance(ret, ast.Tuple) or len(ret.elts) != 2:
        return "unknown"
    if blank:
        return (EMPTY(), EMPTY(), "blank line")
    a = _abstract_piece(ret.elts[0], param, env, split_safe)
    b = _abstract_piece(ret.elts[1], param, env, split_safe)
    if a is None or b is None:
        return "unknown"
    label = norm(ret) + ("" if sep_present is None else (" [separator present]" if sep_present else " [no separator]"))
    return (a, b, label)


def r16_3(ctx: Ctx):
    parse = ctx.func("ItpLine.parse_itp_line")
    line = ctx.func("ItpLine.line@get")
    states = parse_states(ctx, parse)
    if not states:
        ctx.ob("R16.3", parse, "split forms", True, "the split is written with forms outside the modelled "
               "fragment (slices of the line, split/join, '' literals); not decided on this tree", undecided=True)
        return
    ctx.extra["split_states"] = [{"returns": src, "content": repr(a), "comment": repr(b)} for a, b, src in states]
    # the split itself loses nothing: the terminator of a (non-blank, newline-terminated) line is in one of the two parts
    for a_, b_, src_ in states:
        if src_ == "blank line":
            continue
        lost = a_.end in ("drop", "empty") and b_.end in ("drop", "empty")
        ctx.ob("R16.3", parse, "split %s" % src_, not lost,
               "the line terminator ends up in the content or in the comment part" + ("" if not lost else
               " -- here neither part has it (content %r, comment %r): the stored line has no line break and the next line of the "
               "section is glued onto it when the file is written" % (a_, b_)), node=parse.node)
    # the split itself drops only the separator: exact forms of the pieces
    from ..pat import find as pfind, has as phas
    lp = [p_ for p_ in parse.params if p_ not in ("cls", "self")][0]
    for marker, what, lower in ((";", "comment-only line", 1), ("#", "preprocessor line", 0)):
        br = pfind(parse.node, "if %s.startswith('%s'): ..." % (lp, marker))
        if not br:
            ctx.ob("R16.3", parse, what, True, "no `startswith('%s')` branch; split form not decided" % marker, undecided=True)
            continue
        rets_ = [r_ for r_ in br[0][0].body if isinstance(r_, ast.Return)]
        r0 = rets_[0].value if rets_ else None
        if isinstance(r0, ast.Tuple) and len(r0.elts) == 2 and norm(r0.elts[0]) == "''" and (
                norm(r0.elts[1]) == lp or (isinstance(r0.elts[1], ast.Subscript) and norm(r0.elts[1].value) == lp
                                           and isinstance(r0.elts[1].slice, ast.Slice))):
            sl = r0.elts[1]
            lo = 0 if not isinstance(sl, ast.Subscript) or sl.slice.lower is None else const_int(sl.slice.lower)
            hi_none = not isinstance(sl, ast.Subscript) or sl.slice.upper is None
            ctx.ob("R16.3", parse, "%s: %s" % (what, norm(rets_[0])), lo == lower and hi_none,
                   "a %s is split into ('', the text after the marker): exactly the %d marker character(s) are dropped"
                   % (what, lower), node=rets_[0])
        else:
            ctx.ob("R16.3", parse, what, True, "split of a %s not in the modelled form; not decided" % what, undecided=True)
    sp = pfind(parse.node, "V_s = %s.split(';')" % lp)
    if sp:
        sv = sp[0][1]["V_s"]
        oks = phas(parse.node, "return (%s[0], ';'.join(%s[1:]))" % (sv, sv))
        ctx.ob("R16.3", parse, "content ; comment line", oks,
               "a line with trailing comment(s) is split at the first ';': content = first piece, comment = all later pieces "
               "re-joined with ';'", node=sp[0][0])
    else:
        ctx.ob("R16.3", parse, "content ; comment line", True, "the line is not split with split(';'); form not decided", undecided=True)
    # field names: parse result is stored as self.<c>, self.<m> = self.parse_itp_line(line)
    init = ctx.func("ItpLine.__init__")
    fields = None
    for st in walk_no_nested(init.node):
        if isinstance(st, ast.Assign) and isinstance(st.targets[0], ast.Tuple) and isinstance(st.value, ast.Call) \
                and call_name(st.value) == parse.name and len(st.targets[0].elts) == 2:
            fields = [attr_chain(e) for e in st.targets[0].elts]
    if not fields or None in fields:
        ctx.ob("R16.3", init, "stored fields", True, "storage of the split not recognised", undecided=True)
        return
    fc, fm = fields
    # stripped views: properties returning self.<field>.strip()
    stripped: Dict[str, str] = {}
    for nm, g in (line.cls.getters.items() if line.cls else []):
        for n in ast.walk(g.node):
            if isinstance(n, ast.Return) and isinstance(n.value, ast.Call) and call_name(n.value) == "strip" \
                    and attr_chain(n.value.func.value) in (fc, fm):
                stripped["self." + nm] = attr_chain(n.value.func.value)
    n_ob = 0
    for a0, b0, src in states:
        for p in enum_paths(line.node.body):
            if p.end != "return":
                continue
            a, b = a0.copy(), b0.copy()
            feasible = True
            for test, outcome in p.conds():
                r = _refine(test, outcome, fc, fm, stripped, a, b)
                if r is False:
                    feasible = False
                    break
            if not feasible:
                continue
            ret = p.end_node.value
            res = _result(ret, fc, fm, a, b)
            n_ob += 1
            if res is None:
                ctx.ob("R16.3", line, "return %s under split %s" % (norm(ret), src), True,
                       "returned expression outside the modelled fragment", undecided=True, node=p.end_node)
                continue
            end, used = res
            probs = []
            need_end = (a.end == "keep" or b.end == "keep")
            if need_end and end == "drop":
                probs.append("the text returned does not end with the line's newline (content %r, comment %r): "
                             "sections are joined with '' so this line fuses with the next one" % (a, b))
            if fc not in used and (a.nonempty and a.end != "empty"):
                probs.append("the content part may be non-empty (%r) but is not part of the result" % a)
            if fm not in used and (b.nonempty and b.end != "empty"):
                probs.append("the comment part may be non-empty (%r) but is not part of the result" % b)
            conds = " and ".join(("" if o else "not ") + "(" + norm(t) + ")" for t, o in p.conds()) or "always"
            ctx.ob("R16.3", line, "split %s -> [%s] return %s" % (src, conds, norm(ret)), not probs,
                   "re-assembly keeps the line terminator and every non-empty part"
                   + ("" if not probs else " -- " + "; ".join(probs)), node=p.end_node,
                   content=repr(a), comment=repr(b))
    ctx.floor("R16.3", n_ob, 5, "(split form, re-assembly path) pairs")


def _refine(test, outcome, fc, fm, stripped, a: S, b: S):
    """Refine abstract parts by a branch test; False if the branch is infeasible."""
    t = test
    neg = False
    if isinstance(t, ast.UnaryOp) and isinstance(t.op, ast.Not):
        t, neg = t.operand, True
    truth = outcome != neg
    ch = attr_chain(t) if isinstance(t, ast.Attribute) else None
    if ch in stripped or ch in (fc, fm):
        raw = ch in (fc, fm)
        target = a if (stripped.get(ch, ch) == fc) else b
        if truth:
            # (stripped) part is truthy: there is text (raw: at least something)
            if target.end == "empty":
                return False
            if not raw:
                if not target.nonempty:
                    return False
                target.wsonly = False
        else:
            if raw:
                if target.end == "keep" and not target.src.startswith("''"):
                    # a raw part that keeps the terminator is never ''
                    return False
                target.end, target.nonempty, target.wsonly = "empty", False, False
            else:
                # stripped part empty: the raw part is '' or whitespace only - it may still hold the newline
                if not (target.wsonly or target.end == "empty"):
                    return False
                target.nonempty = False
        return True
    if isinstance(t, ast.BoolOp):
        # conjunctions: refine by each operand when the whole is true
        if isinstance(t.op, ast.And) and truth:
            for v in t.values:
                if _refine(v, True, fc, fm, stripped, a, b) is False:
                    return False
        return True
    if isinstance(t, ast.Call) and call_name(t) == "startswith" and isinstance(t.func, ast.Attribute):
        ch = attr_chain(t.func.value)
        target = a if stripped.get(ch, ch) == fc else (b if stripped.get(ch, ch) == fm else None)
        if target is not None and truth and target.end == "empty":
            return False
        return True
    return True


def _result(ret: ast.AST, fc, fm, a: S, b: S):
    """(end kind of the returned text, set of fields it is built from)."""
    used = set()
    for n in ast.walk(ret):
        if isinstance(n, ast.Attribute) and attr_chain(n) in (fc, fm):
            used.add(attr_chain(n))

    def end_of(e):
        ch = attr_chain(e) if isinstance(e, ast.Attribute) else None
        if ch == fc:
            return a.end
        if ch == fm:
            return b.end
        if isinstance(e, ast.Constant) and isinstance(e.value, str):
            return "keep" if e.value.endswith("\n") else ("empty" if e.value == "" else "drop")
        if isinstance(e, ast.BinOp) and isinstance(e.op, ast.Add):
            r = end_of(e.right)
            if r == "empty":
                return end_of(e.left)
            return r
        if isinstance(e, ast.Call) and call_name(e) == "join" and e.args and isinstance(e.args[0], (ast.Tuple, ast.List)):
            parts = [end_of(x) for x in e.args[0].elts]
            last = parts[-1] if parts else "empty"
            if last == "empty":
                sep = e.func.value
                if isinstance(sep, ast.Constant) and sep.value == "" and len(parts) > 1:
                    return parts[-2]
                return "drop"
            return last
        if isinstance(e, ast.JoinedStr) and e.values:
            lastv = e.values[-1]
            if isinstance(lastv, ast.FormattedValue):
                return end_of(lastv.value)
            return end_of(lastv)
        if isinstance(e, ast.IfExp):
            x, y = end_of(e.body), end_of(e.orelse)
            return x if x == y else "?"
        return "?"
    e = end_of(ret)
    if e == "?":
        return None
    return e, used
