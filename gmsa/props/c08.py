"""C08 - overlap measure (chi2) equals its reference definition for all restraint sets.

Each of the three evaluation paths is inlined to a closed form (locals and constructor-time attributes
substituted) and decomposed into  (restraint term + nearest-neighbour term) * base ** (N - |U|):
R8.1 evaluation reads mobile coordinates only from the call argument (nothing derived from the construction-time
     mobile array is cached, except its length)
R8.2 closed forms: restraint term = sum((fixed[r1] - mobile[r2])**2); nearest-neighbour term = sum over the
     unrestrained fixed atoms of the row-wise minimum of the squared-distance matrix; penalty base 1.1 on all
     paths; exponent N_mobile - |restrained mobile atoms U nearest mobile atoms of unrestrained fixed atoms|;
     min and argmin over the same matrix and axis
R8.3 dispatch is total and exclusive: no restraints / every fixed atom restrained / otherwise; "every fixed atom restrained" is
     never recognised by comparing the number of atoms with the number of restraint pairs (duplicates)
R8.4 the calculator keeps no module-level / class-level table between calls
"""
from __future__ import annotations

import ast
import copy
from typing import Dict, List, Optional, Tuple

from ..cfg import (call_name, calls_in, walk_no_nested, parents_map, guards_of, attr_chain, enum_paths, const_int, cconds, ctext, cguards_of, branches)
from ..core import AnalysisError, Ctx, Func, norm

SPEC = {
    "explanation": (
        "Chi2Calculator's three evaluation methods are straight-line code; each is inlined into one closed-form "
        "expression by forward substitution of locals and of the attributes the constructor stores (with "
        "`if n: x *= b**n` folded to `x * b**n`, since b**0 = 1).  The closed form is then decomposed and each "
        "component is matched against the reference definition: restraint term, nearest-neighbour term (row-wise "
        "minimum of cdist(fixed_unrestrained, mobile, 'sqeuclidean')), penalty base, and the exponent "
        "N_mobile - |U| with U built from the restrained mobile indices and the argmin of the same distance "
        "matrix along the same axis.  The constructor is checked for the index bookkeeping (column 0 indexes the "
        "fixed array and its mask, column 1 the mobile array) and for not caching anything computed from the "
        "construction-time mobile coordinates.  The three dispatch conditions are read off the constructor's "
        "paths.  This decides equality with the reference definition in exact arithmetic, given numpy/scipy "
        "semantics; a path written in a shape the matcher does not know is reported as not decided.  "
        "Non-negativity and invariance under rigid motion/relabelling follow from the closed form (sums of "
        "squared distances, set cardinalities) and are not checked separately; ties in argmin are not modelled."),
    "exhaustive": True,
    "trusted_base": ["scipy cdist(A, B, 'sqeuclidean')[i, j] = |A[i] - B[j]|^2; ndarray.min/argmin(axis=1) reduce over "
                     "the mobile atoms; set/union cardinality; numpy fancy indexing"],
    "assumptions": ["the array evaluated has as many atoms as the mobile array given at construction",
                    "restraint indices are within range; no ties between nearest mobile atoms (measure-zero)"],
}


def _subst(e: ast.AST, env: Dict[str, ast.AST]) -> ast.AST:
    class T(ast.NodeTransformer):
        def visit_Name(self, node):
            if isinstance(node.ctx, ast.Load) and node.id in env:
                return copy.deepcopy(env[node.id])
            return node

        def visit_Attribute(self, node):
            ch = attr_chain(node)
            if ch in env and isinstance(node.ctx, ast.Load):
                return copy.deepcopy(env[ch])
            self.generic_visit(node)
            return node
    return T().visit(copy.deepcopy(e))


def inline_method(f: Func, env0: Dict[str, ast.AST]) -> Optional[ast.AST]:
    """Closed form of the value returned by a straight-line method."""
    env = dict(env0)
    for st in f.node.body:
        if isinstance(st, ast.Expr) and isinstance(st.value, ast.Constant):
            continue
        if isinstance(st, ast.Assign) and len(st.targets) == 1 and isinstance(st.targets[0], ast.Name):
            env[st.targets[0].id] = _subst(st.value, env)
        elif isinstance(st, ast.AugAssign) and isinstance(st.target, ast.Name) and st.target.id in env:
            env[st.target.id] = ast.BinOp(env[st.target.id], st.op, _subst(st.value, env))
        elif isinstance(st, ast.If) and not st.orelse and len(st.body) == 1 and isinstance(st.body[0], ast.AugAssign) \
                and isinstance(st.body[0].op, (ast.Mult, ast.Div)) and isinstance(st.body[0].target, ast.Name) \
                and isinstance(st.body[0].value, ast.BinOp) and isinstance(st.body[0].value.op, ast.Pow) \
                and st.body[0].target.id in env:
            a = st.body[0]
            n_txt = norm(a.value.right)
            t = st.test
            if norm(t) == n_txt or norm(t) in ("%s != 0" % n_txt, "%s > 0" % n_txt):
                # executed exactly when n != 0; for n == 0 the factor is 1: same as unconditional
                env[a.target.id] = ast.BinOp(env[a.target.id], a.op, _subst(a.value, env))
            elif isinstance(t, ast.UnaryOp) and isinstance(t.op, ast.Not) and norm(t.operand) == n_txt \
                    or norm(t) == "%s == 0" % n_txt:
                # executed only when n == 0, where the factor is 1: the penalty is never applied
                pass
            else:
                return None
        elif isinstance(st, ast.Return):
            return _subst(st.value, env) if st.value is not None else None
        else:
            return None
    return None


def _factors(e: ast.AST) -> List[ast.AST]:
    if isinstance(e, ast.BinOp) and isinstance(e.op, ast.Mult):
        return _factors(e.left) + _factors(e.right)
    return [e]


def _terms(e: ast.AST) -> List[ast.AST]:
    if isinstance(e, ast.BinOp) and isinstance(e.op, ast.Add):
        return _terms(e.left) + _terms(e.right)
    return [e]


def _np_sum_arg(e: ast.AST) -> Optional[ast.AST]:
    if isinstance(e, ast.Call) and call_name(e) == "sum":
        if norm(e.func).startswith(("np.", "numpy.")) and e.args:
            return e.args[0]
        if isinstance(e.func, ast.Attribute) and not e.args:
            return e.func.value
    return None


def _axis_of(c: ast.Call) -> Optional[int]:
    for k in c.keywords:
        if k.arg == "axis":
            return const_int(k.value)
    if c.args and not norm(c.func).startswith(("np.", "numpy.")):
        return const_int(c.args[0])
    if len(c.args) > 1:
        return const_int(c.args[1])
    return None


def run(ctx: Ctx):
    ctx.attempt("R8.3", lambda: paircount_fixture(ctx))
    cls = ctx.repo.cls("Chi2Calculator")
    init = ctx.func("Chi2Calculator.__init__")
    call = ctx.func("Chi2Calculator.__call__")
    p_fixed, p_mobile, p_restr = [p for p in init.params if p != "self"][:3]
    # ------------------------------------------------------------------ constructor state
    stores: Dict[str, List[ast.Assign]] = {}
    for st in walk_no_nested(init.node):
        if isinstance(st, ast.Assign):
            tg = st.targets[0]
            els = tg.elts if isinstance(tg, ast.Tuple) else [tg]
            for i, el in enumerate(els):
                ch = attr_chain(el) if isinstance(el, ast.Attribute) else None
                if ch and ch.startswith("self."):
                    stores.setdefault(ch, []).append((st, i, isinstance(tg, ast.Tuple)))
    # locals of the constructor, resolved
    lenv: Dict[str, ast.AST] = {}
    roles: Dict[str, str] = {}
    for st in sorted([s for s in walk_no_nested(init.node) if isinstance(s, ast.Assign)], key=lambda s: s.lineno):
        tg = st.targets[0]
        if isinstance(tg, ast.Tuple) and isinstance(st.value, ast.Attribute) and st.value.attr == "T":
            # restriction1, self.restriction2 = self.restrictions.T  -> columns
            for i, el in enumerate(tg.elts):
                nm = attr_chain(el) if isinstance(el, ast.Attribute) else (el.id if isinstance(el, ast.Name) else None)
                if nm:
                    roles[nm] = "col%d" % i
        elif isinstance(tg, ast.Name):
            lenv[tg.id] = st.value
    col0 = [k for k, v in roles.items() if v == "col0"]
    col1 = [k for k, v in roles.items() if v == "col1"]
    ctx.extra["restraint_columns"] = roles
    from ..util import persistent_state
    ctx.attempt("R8.4", lambda: persistent_state(ctx, "R8.4", [f_ for f_ in (ctx.repo.func(q_, required=False) for q_ in ('Chi2Calculator.__init__', 'Chi2Calculator.chi2_molecules', 'Chi2Calculator._chi2_molecules_with_restrains', 'Chi2Calculator._chi2_molecules_only_restrains', 'Chi2Calculator._chi2_molecules_restrains_contrib')) if f_ is not None], "the overlap measure"))

    # R8.1: the mobile parameter of the constructor flows only into len()
    uses = [n for n in ast.walk(init.node) if isinstance(n, ast.Name) and n.id == p_mobile and isinstance(n.ctx, ast.Load)]
    pm = parents_map(init.node)
    bad = [n for n in uses if not (isinstance(pm.get(id(n)), ast.Call) and call_name(pm[id(n)]) == "len")]
    ctx.attempt("R8.1", lambda: ctx.ob("R8.1", init, "uses of the construction-time mobile array `%s`: %d, other than len(): %d" % (p_mobile, len(uses), len(bad)),
           not bad, "nothing computed from the construction-time mobile coordinates is stored; only their count is"
           + ("" if not bad else " -- `%s` at line %d" % (norm(pm.get(id(bad[0]), bad[0]))[:60], bad[0].lineno)),
           node=bad[0] if bad else init.node))



    # evaluation methods read the mobile coordinates from their argument
    eval_methods = {}
    for nm, g in cls.methods.items():
        if nm in ("__init__", "__call__"):
            continue
        ps = [p for p in g.params if p != "self"]
        if len(ps) == 1:
            eval_methods[nm] = g
            ctx.seen(g)
    rets = [n for n in walk_no_nested(call.node) if isinstance(n, ast.Return)]
    def _same_array(a: ast.AST, p: str) -> bool:
        """the parameter itself, or a value-preserving conversion of it (asarray & co., float64 at most; the
        dtype itself is judged by RP.1)"""
        if isinstance(a, ast.Name):
            if a.id == p:
                return True
            defs = [s_ for s_ in call.node.body if isinstance(s_, ast.Assign) and isinstance(s_.targets[0], ast.Name) and s_.targets[0].id == a.id]
            return len(defs) == 1 and _same_array(defs[0].value, p)
        if isinstance(a, ast.Call) and call_name(a) in ("asarray", "ascontiguousarray", "asanyarray", "array", "asfarray") and a.args:
            return _same_array(a.args[0], p)
        return False
    cparams = [p for p in call.params if p != "self"]
    # the selector attribute is whatever __call__ calls (`return self.<selector>(array)`), not a fixed name
    sel_attr = attr_chain(rets[0].value.func) if len(rets) == 1 and isinstance(rets[0].value, ast.Call) else None
    if not (sel_attr and sel_attr.startswith("self.") and sel_attr.count(".") == 1 and sel_attr.split(".")[1] not in cls.methods):
        sel_attr = "self._meth_to_call"
    okc = len(rets) == 1 and isinstance(rets[0].value, ast.Call) and attr_chain(rets[0].value.func) == sel_attr \
        and len(rets[0].value.args) == 1 and len(cparams) == 1 and _same_array(rets[0].value.args[0], cparams[0])
    # dispatch written out in __call__ (tests on stored flags, one `return self.<method>(array)` per case)
    flag_dispatch = len(rets) >= 2 and all(isinstance(r_.value, ast.Call) and isinstance(r_.value.func, ast.Attribute)
                                           and norm(r_.value.func.value) == "self" and r_.value.func.attr in cls.methods
                                           and len(r_.value.args) == 1 and len(cparams) == 1 and _same_array(r_.value.args[0], cparams[0]) for r_ in rets)
    if flag_dispatch:
        okc = True
    ctx.attempt("R8.1", lambda: ctx.ob("R8.1", call, rets[0] if rets else "__call__", okc,
           "a call evaluates the selected method on the array it is given", node=rets[0] if rets else call.node))


    for k in col0:
        lenv[k] = ast.Name("R1", ast.Load())
    # mask: ones(len(fixed)) with mask[R1] = False
    mask_ok = False
    mask_name = None
    for st in walk_no_nested(init.node):
        if isinstance(st, ast.Assign) and isinstance(st.targets[0], ast.Subscript) and isinstance(st.value, ast.Constant) \
                and st.value.value is False and isinstance(st.targets[0].value, ast.Name):
            mask_name = st.targets[0].value.id
            idx = norm(_subst(st.targets[0].slice, lenv))
            d = lenv.get(mask_name)
            mask_ok = idx == "R1" and d is not None and isinstance(d, ast.Call) and call_name(d) == "ones" \
                and norm(d.args[0]) == "len(%s)" % p_fixed
    if mask_name is None:
        ctx.ob("R8.2", init, "unrestrained-fixed mask", True, "the mask of unrestrained fixed atoms is not built as ones(...) with "
               "the restrained indices cleared; the closed forms are not decided on this tree", undecided=True, node=init.node)
    else:
        ctx.ob("R8.2", init, "unrestrained-fixed mask `%s`" % mask_name, mask_ok,
               "the mask is True for every fixed atom and cleared exactly at the fixed-side restraint indices (column 0)",
               node=init.node)
    FIX, MOB0 = ast.Name("FIXED", ast.Load()), ast.Name("MOBILE0", ast.Load())
    if mask_name:
        lenv[mask_name] = ast.Name("MASK", ast.Load())
    lenv[p_fixed], lenv[p_mobile] = FIX, MOB0
    # evaluation is a pure function of its argument: no method called by __call__ writes the calculator's state
    from ..effects import Effects
    Ef = Effects(ctx.repo)
    for nm_, g_ in list(eval_methods.items()) + [("__call__", call)]:
        eff = [e_ for e_ in Ef.summary(g_) if e_.root[0] in ("self", "param", "global")]
        ctx.ob("R8.1", g_, "write effects of %s: %d" % (nm_, len(eff)), not eff,
               "evaluating the measure modifies neither the calculator (cached index sets, arrays) nor its argument, so the "
               "value does not depend on earlier evaluations" + ("" if not eff else " -- " + eff[0].describe()), node=g_.node)
    # ------------------------------------------------------------------ attribute environment for inlining
    aenv: Dict[str, ast.AST] = {}
    for ch, lst in stores.items():
        if len(lst) == 1 and not lst[0][2]:
            aenv[ch] = _subst(lst[0][0].value, {k: v for k, v in lenv.items()})
    for k in col0:
        aenv[k] = ast.Name("R1", ast.Load())
        lenv[k] = ast.Name("R1", ast.Load())
    for k in col1:
        aenv[k] = ast.Name("R2", ast.Load())
    # re-substitute now that the columns have symbols
    for ch, lst in stores.items():
        if len(lst) == 1 and not lst[0][2]:
            aenv[ch] = _subst(_subst(lst[0][0].value, lenv), aenv)
    aenv = {k: _subst(v, aenv) for k, v in aenv.items()}
    if mask_name is None:
        ctx.attempt("R8.3", lambda: count_dispatch(ctx, init, p_fixed, p_restr, sel_attr))
        return
    # the two cached slices of the fixed array, whatever the attributes are called
    vals_ = {k_: norm(v_) for k_, v_ in aenv.items() if k_.startswith("self.")}
    fx_r = next((v_ for v_ in vals_.values() if v_ == "FIXED[R1]"), None)
    fx_u = next((v_ for v_ in vals_.values() if v_ == "FIXED[MASK]"), None)
    other_fx = sorted(v_ for v_ in vals_.values() if v_.startswith("FIXED[") and v_ not in ("FIXED[R1]", "FIXED[MASK]"))
    ctx.attempt("R8.2", lambda: ctx.ob("R8.2", init, "fixed restrained = %s ; fixed unrestrained = %s%s" % (fx_r, fx_u, (" ; other: %s" % other_fx) if other_fx else ""),
           fx_r == "FIXED[R1]" and fx_u == "FIXED[MASK]" and not other_fx,
           "restrained fixed atoms are the fixed array indexed by column 0; unrestrained ones by the mask", node=init.node))


    ctx.attempt("R8.2", lambda: ctx.ob("R8.2", init, "set of restrained mobile atoms = %s" % norm(aenv.get("self.set_restriction2", ast.Constant(None))),
           norm(aenv.get("self.set_restriction2", ast.Constant(None))) == "set(R2)",
           "the restrained mobile set is built from column 1", node=init.node))



    # ------------------------------------------------------------------ closed forms
    forms: Dict[str, ast.AST] = {}
    helper_forms: Dict[str, ast.AST] = {}
    # helpers first (methods called by other evaluation methods)
    for nm, g in eval_methods.items():
        e = inline_method(g, {})
        if e is not None:
            helper_forms[nm] = e

    def expand_calls(e: ast.AST, arg_name: str, depth=3) -> ast.AST:
        class T(ast.NodeTransformer):
            def visit_Call(self, node):
                self.generic_visit(node)
                if isinstance(node.func, ast.Attribute) and norm(node.func.value) == "self" and node.func.attr in helper_forms \
                        and len(node.args) == 1 and depth > 0:
                    callee = eval_methods[node.func.attr]
                    cp = [p for p in callee.params if p != "self"][0]
                    return _subst(helper_forms[node.func.attr], {cp: node.args[0]})
                return node
        return T().visit(copy.deepcopy(e))
    for nm, g in eval_methods.items():
        p = [x for x in g.params if x != "self"][0]
        e = helper_forms.get(nm)
        if e is None:
            continue
        e = expand_calls(e, p)
        e = _subst(e, aenv)
        e = _subst(e, {p: ast.Name("MOBILE", ast.Load())})
        forms[nm] = e
    ctx.extra["closed_forms"] = {k: norm(v) for k, v in forms.items()}

    # dispatch: which method under which condition (constructor paths)
    disp: Dict[str, List[str]] = {}
    cdisp: List[Tuple[Optional[str], List[Tuple[str, bool]]]] = []
    for p in enum_paths(init.node.body):
        sel = None
        for st in p.stmts():
            if isinstance(st, ast.Assign) and attr_chain(st.targets[0]) == sel_attr:
                sel = norm(st.value).replace("self.", "")
        conds = []
        for t, o in p.conds():
            conds.append(("" if o else "not ") + "(" + norm(t) + ")")
        disp.setdefault(sel, []).append(" and ".join(conds))
        cdisp.append((sel, cconds(p)))
    ctx.extra["dispatch"] = disp
    # R8.3
    paths_ok = None not in disp and len(disp) == 3
    if flag_dispatch and set(disp) == {None}:
        ctx.ob("R8.3", init, "method selection", True, "the evaluation method is chosen in __call__ from flags stored by the constructor, "
               "not stored as a bound method; which case runs which method is not decided on this tree", undecided=True, node=call.node)
        sel_flags = True
    else:
        sel_flags = False
    if not sel_flags:
      ctx.attempt("R8.3", lambda: ctx.ob("R8.3", init, "constructor paths -> method: %s" % {k: len(v) for k, v in disp.items()}, paths_ok,
           "every constructor path selects exactly one evaluation method, and three methods are in use", node=init.node))

    sel_none = sel_only = sel_with = None
    empty_forms = {ctext(x % {"r": p_restr}) for x in ("%(r)s is None or len(%(r)s) == 0", "not %(r)s", "%(r)s is None or not %(r)s",
                                                        "%(r)s is None or len(%(r)s) < 1", "len(%(r)s) == 0 or %(r)s is None")}
    anyt = ctext("np.any(%s)" % mask_name)[0]       # canonical spelling of `mask.any()`
    for m, cs in cdisp:
        if not cs:
            continue
        first = cs[0]
        if first in empty_forms:
            sel_none = m
        elif (first[0], not first[1]) in empty_forms:
            if (anyt, False) in cs:
                sel_only = m
            elif (anyt, True) in cs:
                sel_with = m
    if not sel_flags:
      ctx.attempt("R8.3", lambda: ctx.ob("R8.3", init, "no restraints -> %s ; all fixed restrained -> %s ; otherwise -> %s" % (sel_none, sel_only, sel_with),
           None not in (sel_none, sel_only, sel_with) and len({sel_none, sel_only, sel_with}) == 3,
           "the three cases (no restraints / every fixed atom restrained / some unrestrained fixed atom) are mutually "
           "exclusive, cover everything and use different methods", node=init.node))




    # ------------------------------------------------------------------ R8.2 matching
    def analyse(name: str, want_restr: bool, want_nn: bool, nn_fixed: str, uset: str):
        g = eval_methods.get(name)
        e = forms.get(name)
        if g is None or e is None:
            ctx.ob("R8.2", init, "closed form of %s" % name, True, "method not straight-line; not decided on this tree",
                   undecided=True)
            return
        fs = _factors(e)
        pows = [x for x in fs if isinstance(x, ast.BinOp) and isinstance(x.op, ast.Pow)]
        rest = [x for x in fs if x not in pows]
        if isinstance(e, ast.BinOp) and isinstance(e.op, ast.Div) and isinstance(e.right, ast.BinOp) and isinstance(e.right.op, ast.Pow):
            ctx.ob("R8.2", g, "%s: closed form %s" % (name, norm(e)[:140]), False,
                   "the sum is MULTIPLIED by base ** k -- here it is divided by it", node=g.node)
            return
        if not pows and len(rest) >= 1 and not any("self." in norm(x) for x in rest[1:]):
            ctx.ob("R8.2", g, "%s: closed form %s" % (name, norm(e)[:140]), False,
                   "the sum is multiplied by 1.1 ** k (k = mobile atoms that are neither restrained nor nearest to a "
                   "fixed atom) -- the closed form has no such factor", node=g.node)
            return
        unset = [norm(x) for x in fs if isinstance(x, ast.Attribute) and attr_chain(x) and attr_chain(x).startswith("self.")
                 and attr_chain(x) not in stores]
        if unset:
            ctx.ob("R8.2", g, "%s: closed form %s" % (name, norm(e)[:140]), False,
                   "every factor of the closed form is defined -- %s is never set by the constructor" % unset, node=g.node)
            return
        ok_shape = len(pows) == 1 and len(rest) == 1
        if not ok_shape:
            ctx.ob("R8.2", g, "closed form %s" % norm(e)[:160], True,
                   "closed form is not (sum) * base ** exponent; not decided on this tree", undecided=True, node=g.node)
            return
        base, expo = pows[0].left, pows[0].right
        ctx.ob("R8.2", g, "%s: penalty base %s" % (name, norm(base)), isinstance(base, ast.Constant) and base.value == 1.1,
               "the penalty base is 1.1", node=g.node)
        terms = _terms(rest[0])
        restr_t = [t for t in terms if _np_sum_arg(t) is not None and "**" in norm(_np_sum_arg(t)) or
                   (_np_sum_arg(t) is not None and isinstance(_np_sum_arg(t), ast.BinOp))]
        nn_t = [t for t in terms if t not in restr_t]
        # restraint term
        if want_restr:
            ok = len(restr_t) == 1
            txt = ""
            if ok:
                a = _np_sum_arg(restr_t[0])
                txt = norm(a)
                ok = isinstance(a, ast.BinOp) and isinstance(a.op, ast.Pow) and const_int(a.right) == 2 \
                    and isinstance(a.left, ast.BinOp) and isinstance(a.left.op, ast.Sub) \
                    and {norm(a.left.left), norm(a.left.right)} == {"FIXED[R1]", "MOBILE[R2]"}
            ctx.ob("R8.2", g, "%s: restraint term %s" % (name, txt), ok,
                   "restraint term is the sum of squared differences between fixed[column 0] and mobile[column 1] of the "
                   "array being evaluated", node=g.node)
        else:
            ctx.ob("R8.2", g, "%s: no restraint term" % name, not restr_t, "without restraints there is no restraint term", node=g.node)
        # nearest-neighbour term
        dist_txt = None
        if want_nn:
            ok = len(nn_t) == 1
            if ok:
                a = _np_sum_arg(nn_t[0])
                ok = isinstance(a, ast.Call) and call_name(a) == "min" and _axis_of(a) == 1 and isinstance(a.func, ast.Attribute)
                if ok:
                    d = a.func.value
                    dist_txt = norm(d)
                    ok = isinstance(d, ast.Call) and call_name(d) == "cdist" and len(d.args) >= 3 \
                        and norm(d.args[0]) == nn_fixed and norm(d.args[1]) == "MOBILE" \
                        and isinstance(d.args[2], ast.Constant) and d.args[2].value == "sqeuclidean"
            ctx.ob("R8.2", g, "%s: nearest-neighbour term %s" % (name, norm(nn_t[0]) if nn_t else None), ok,
                   "for each %s fixed atom the squared distance to its nearest atom of the evaluated array: "
                   "sum(cdist(%s, mobile, 'sqeuclidean').min(axis=1))" % ("unrestrained" if want_restr else "", nn_fixed),
                   node=g.node)
        else:
            ctx.ob("R8.2", g, "%s: no nearest-neighbour term" % name, not nn_t,
                   "when every fixed atom is restrained there is no nearest-neighbour term", node=g.node)
        # exponent N - |U|
        ok = isinstance(expo, ast.BinOp) and isinstance(expo.op, ast.Sub)
        ntxt = utxt = None
        if ok:
            ntxt, u = norm(expo.left), expo.right
            okn = ntxt in ("len(MOBILE)", "len(MOBILE0)")
            oku = isinstance(u, ast.Call) and call_name(u) == "len" and len(u.args) == 1
            utxt = norm(u.args[0]) if oku else norm(u)
            want_u = uset.replace("DIST", dist_txt or "?")
            ok = okn and oku and utxt.replace(" ", "") in [w.replace(" ", "") for w in want_u.split(" || ")]
        ctx.ob("R8.2", g, "%s: exponent %s" % (name, norm(expo)), ok,
               "k = number of mobile atoms minus |%s|" % uset.split(" || ")[0].replace("DIST", "D"), node=g.node,
               n=ntxt, used=utxt)

    ctx.attempt("R8.2", lambda: analyse(sel_none or "chi2_molecules", False, True, "FIXED", "set(DIST.argmin(axis=1))"))
    ctx.attempt("R8.2", lambda: analyse(sel_with or "_chi2_molecules_with_restrains", True, True, "FIXED[MASK]",
            "set(R2).union(DIST.argmin(axis=1)) || set(R2) | set(DIST.argmin(axis=1))"))

    ctx.attempt("R8.2", lambda: analyse(sel_only or "_chi2_molecules_only_restrains", True, False, "", "set(R2)"))
    ctx.floor("R8.2", sum(1 for o in ctx.obligations if o.rule == "R8.2"), 8, "closed-form components matched")



def pair_count_tests(init_node: ast.AST, p_fixed: str, p_restr: str):
    """Tests in the constructor that recognise "every fixed atom is restrained" by comparing the number of fixed atoms with
    the number of restraint *pairs* (len of the restraint list or of one of its columns, not of a set / np.unique of it):
    a list that names one fixed atom twice has as many pairs as atoms while another atom is left unrestrained."""
    env: Dict[str, ast.AST] = {}
    count: Dict[str, int] = {}
    for st in walk_no_nested(init_node):
        if isinstance(st, ast.Assign):
            for t in st.targets:
                for n in ast.walk(t):
                    if isinstance(n, ast.Name) and isinstance(n.ctx, ast.Store):
                        count[n.id] = count.get(n.id, 0) + 1
            if len(st.targets) == 1 and isinstance(st.targets[0], ast.Name):
                env[st.targets[0].id] = st.value
            elif len(st.targets) == 1 and isinstance(st.targets[0], ast.Attribute) and attr_chain(st.targets[0]):
                ch_ = attr_chain(st.targets[0])
                count[ch_] = count.get(ch_, 0) + 1
                env[ch_] = st.value
            elif len(st.targets) == 1 and isinstance(st.targets[0], ast.Tuple):
                for i_, e_ in enumerate(st.targets[0].elts):
                    if isinstance(e_, ast.Name):
                        env[e_.id] = ast.Subscript(value=st.value, slice=ast.Constant(i_), ctx=ast.Load())
    env = {k: v for k, v in env.items() if count.get(k) == 1 and k not in (p_fixed, p_restr)}

    def expand(e, depth=5):
        for _ in range(depth):
            e2 = _subst(e, env)
            if norm(e2) == norm(e):
                break
            e = e2
        return e
    DEDUP = {"set", "unique", "setdiff1d", "union1d", "intersect1d", "frozenset", "fromkeys", "count_nonzero", "sum", "any", "all"}
    hits = []
    for st in walk_no_nested(init_node):
        if not isinstance(st, (ast.If, ast.IfExp)):
            continue
        t = expand(st.test)
        lens = [c for c in ast.walk(t) if isinstance(c, ast.Call) and isinstance(c.func, ast.Name) and c.func.id == "len" and len(c.args) == 1]
        fixed_len = [c for c in lens if norm(c.args[0]) == p_fixed]
        pair_len = []
        for c in lens:
            a = c.args[0]
            if not any(isinstance(n, ast.Name) and n.id == p_restr for n in ast.walk(a)):
                continue
            if any(isinstance(x, ast.Call) and call_name(x) in DEDUP for x in ast.walk(a)):
                continue
            pair_len.append(c)
        if not (fixed_len and pair_len):
            continue
        # the two lengths meet in one comparison (directly or through a difference)
        for cmp_ in ast.walk(t):
            if isinstance(cmp_, ast.Compare):
                inside = {id(x) for x in ast.walk(cmp_)}
                if any(id(c) in inside for c in fixed_len) and any(id(c) in inside for c in pair_len):
                    hits.append((st, cmp_))
                    break
    return hits


def paircount_fixture(ctx: Ctx):
    from ..fixtures import check_fixture
    check_fixture(ctx, "R8.3", "paircount.py",
                  lambda repo: sum(len(pair_count_tests(f_.node, "mol1", "restrictions")) for f_ in repo.funcs.values() if f_.name == "__init__"),
                  expect_exact=2)


def count_dispatch(ctx: Ctx, init: Func, p_fixed: str, p_restr: str, sel_attr):
    hits = pair_count_tests(init.node, p_fixed, p_restr)
    if hits:
        st, c = hits[0]
        ctx.ob("R8.3", init, st, False,
               "the case 'every fixed atom is restrained' is recognised from the set of restrained atoms -- here `%s` compares the number "
               "of fixed atoms with the number of restraint pairs: a restraint list naming one fixed atom twice has as many pairs as "
               "atoms while another atom is unrestrained, and its nearest-neighbour term is then dropped" % norm(c)[:100], node=st)
    else:
        ctx.ob("R8.3", init, "case selection", True, "the constructor's case selection is not written over the mask of unrestrained atoms; "
               "no test compares atom and pair counts; the cases are otherwise not decided on this tree", undecided=True, node=init.node)
