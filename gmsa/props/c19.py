"""C19 - periodic distance is the minimum-image distance.

R19.1 matrix-power typing of Residue.distance_to on every path, for both values
of the ``inv`` flag: the transform applied before the wrap must be B^-1 (as a
right factor of the row vector), the wrap must be round-to-nearest on fractional
coordinates, the transform after the wrap must be B^+1, and the norm is taken
of a wrapped Cartesian vector.
R19.2 the periodic distance keeps no table between calls (no remembered inverse box)
"""
from __future__ import annotations

import ast
from typing import Dict, List, Optional, Tuple

from ..cfg import enum_paths, call_name, attr_chain, names_loaded
from ..core import AnalysisError, Ctx, norm

SPEC = {
    "explanation": (
        "Abstract interpretation of Residue.distance_to over every structural path and both "
        "values of the inverse flag.  Domain: matrices carry a power relative to the physical box "
        "(B^+1, B^-1, unknown); np.linalg.inv negates the power; vectors are Cartesian or "
        "fractional; v.dot(M) / np.dot(v, M) / v @ M with M = B^-1 maps Cartesian->fractional and "
        "with M = B^+1 fractional->Cartesian, every other combination is a typing error; the wrap "
        "must subtract a round-to-nearest of a fractional vector; the returned norm must be of a "
        "Cartesian vector that has been wrapped whenever a box was given.  This decides that the "
        "code computes |frac^-1(frac(d) - round(frac(d)))| with the same box in both directions "
        "and that inv=True/False agree; the minimum-image theorem for orthorhombic cells is "
        "mathematics (trusted)."),
    "exhaustive": True,
    "trusted_base": ["numpy: ndarray.dot/np.dot/@ is the matrix product; np.linalg.inv is the inverse; "
                     "np.round/np.rint/np.around round to nearest",
                     "minimum-image theorem: for an orthorhombic cell rounding the fractional "
                     "separation to the nearest integer gives the shortest image"],
    "assumptions": ["exact arithmetic; the box matrix is non-singular; rows of the box are lattice vectors"],
}

ROUND_OK = {"round", "rint", "around", "round_"}
ROUND_BAD = {"floor", "ceil", "trunc", "fix"}


class V:
    def __init__(self, kind, info=None, wrapped=False, why=""):
        self.kind = kind      # 'mat' 'vec' 'round' 'other'
        self.info = info      # mat: power (+1,-1,None) ; vec: 'cart'|'frac'|'bad' ; round: V of operand
        self.wrapped = wrapped
        self.why = why
        self.T = False

    def __repr__(self):
        if self.kind == "mat":
            return "B^%s%s" % ({1: "+1", -1: "-1"}.get(self.info, "?"), ".T" if self.T else "")
        if self.kind == "vec":
            return "%s%s%s" % (self.info, "/wrapped" if self.wrapped else "", (" (%s)" % self.why) if self.why else "")
        return self.kind


def run(ctx: Ctx):
    f = ctx.func("Residue.distance_to")
    fn = f.node
    params = f.params
    # locate the box parameter (tested against None) and the inverse flag
    box = flag = None
    for n in ast.walk(fn):
        if isinstance(n, ast.Compare) and len(n.ops) == 1 and isinstance(n.ops[0], (ast.IsNot, ast.Is)) \
                and isinstance(n.left, ast.Name) and n.left.id in params \
                and isinstance(n.comparators[0], ast.Constant) and n.comparators[0].value is None:
            box = n.left.id
    if box is None:
        for cand in ("box_vects", "box", "box_matrix"):
            if cand in params:
                box = cand
    if box is None:
        raise AnalysisError("R19.1: cannot identify the box parameter of distance_to")
    for cand in params:
        if cand not in (f.self_name, box) and cand.lower().startswith("inv"):
            flag = cand
    ctx.extra["box_parameter"] = box
    ctx.extra["inverse_flag"] = flag
    from ..util import persistent_state
    ctx.attempt("R19.2", lambda: persistent_state(ctx, "R19.2", [f_ for f_ in (ctx.repo.func(q_, required=False) for q_ in ('Residue.distance_to',)) if f_ is not None], "the periodic distance"))

    # the vector that is wrapped is the separation between the other point and this residue's centre
    other = [p_ for p_ in params if p_ not in (f.self_name, box, flag)][0]
    seps = [s_ for s_ in ast.walk(fn) if isinstance(s_, ast.Assign) and isinstance(s_.value, ast.BinOp)
            and "geometric_center" in norm(s_.value) and isinstance(s_.targets[0], ast.Name)]
    # names the other point goes by: the parameter, or a local every binding of which is the parameter / such a name /
    # the geometric centre of such a name
    others = {other}
    for _ in range(3):
        for nm_ in {s_.targets[0].id for s_ in ast.walk(fn) if isinstance(s_, ast.Assign) and len(s_.targets) == 1 and isinstance(s_.targets[0], ast.Name)}:
            defs_ = [s_.value for s_ in ast.walk(fn) if isinstance(s_, ast.Assign) and len(s_.targets) == 1 and norm(s_.targets[0]) == nm_]
            if nm_ not in params and defs_ and all(norm(d_) in others or (isinstance(d_, ast.Attribute) and d_.attr == "geometric_center" and norm(d_.value) in others | {nm_})
                                                    for d_ in defs_):
                others.add(nm_)
    ok_sep = False
    if seps:
        v_ = seps[0].value
        sides = {norm(v_.left), norm(v_.right)}
        ok_sep = isinstance(v_.op, ast.Sub) and "self.geometric_center" in sides and \
            any(o_ in sides or "%s.geometric_center" % o_ in sides for o_ in others)
    ctx.attempt("R19.1", lambda: ctx.ob("R19.1", f, seps[0] if seps else "separation", ok_sep,
           "the vector that is wrapped and measured is the difference between the other point (or residue centre) and "
           "this residue's geometric centre", node=seps[0] if seps else fn))


    conv = [s_ for s_ in ast.walk(fn) if isinstance(s_, ast.If) and any("isinstance(%s, Residue)" % o_ in norm(s_.test) for o_ in others)]
    ok_conv = bool(conv) and not isinstance(conv[0].test, ast.UnaryOp) and any(
        isinstance(x, ast.Assign) and norm(x.targets[0]) in others and isinstance(x.value, ast.Attribute) and x.value.attr == "geometric_center"
        and norm(x.value.value) in others and "isinstance(%s, Residue)" % norm(x.value.value) in norm(conv[0].test) for x in conv[0].body)
    ctx.attempt("R19.1", lambda: ctx.ob("R19.1", f, conv[0] if conv else "residue argument", ok_conv,
           "a residue argument is replaced by its geometric centre (a point argument is used as is)", node=conv[0] if conv else fn))

    paths = enum_paths(fn.body)
    n_box_paths = 0
    evaluated = []
    for p in paths:
        if p.end != "return":
            continue
        # which assumptions about the flag are consistent with this path?
        flag_vals = [False, True] if flag else [False]
        box_given = None
        for test, outcome in p.conds():
            t = _flag_test(test, flag)
            if t is not None:
                need = t if outcome else (not t)
                flag_vals = [v for v in flag_vals if v == need]
            b = _box_test(test, box)
            if b is not None:
                box_given = b if outcome else (not b)
        if box_given is False:
            # no box: plain distance; the returned norm must not have been wrapped/transformed
            env, errs, wraps = _interp(p, box, None)
            ret = _ret_value(p, env)
            ctx.ob("R19.1", f, "path[no box]: " + _short(p), ret is None or ret.kind != "vec" or ret.info == "cart",
                   "without a box the plain Euclidean norm of the Cartesian separation is returned",
                   node=p.end_node, returned=repr(ret))
            continue
        for fv in flag_vals:
            n_box_paths += 1
            env, errs, wraps = _interp(p, box, -1 if fv else +1)
            ret = _ret_value(p, env)
            label = "path[box given, %s=%s]" % (flag or "inv", fv)
            evaluated.append({"path": label, "trace": p.describe()[:300], "returned": repr(ret),
                              "wraps": [repr(w) for w in wraps], "errors": errs})
            unk_ = env.get("<unknown>") or []
            if not errs and (unk_ or (ret is not None and ret.kind == "vec" and ret.info == "unknown")):
                ctx.ob("R19.1", f, "%s: %s" % (label, _ops_text(p)), True,
                       "a product on this path involves a value this rule has no model for (%s); the minimum-image arithmetic is "
                       "not decided on this tree" % (unk_[0] if unk_ else "?")[:80], undecided=True, node=p.end_node or fn)
                continue
            ok = (not errs) and ret is not None and ret.kind == "vec" and ret.info == "cart" \
                and ret.wrapped and len(wraps) >= 1
            why = "; ".join(errs) if errs else (
                "returned norm is of %r (expected a wrapped Cartesian vector)" % (ret,))
            ctx.ob("R19.1", f, "%s: %s" % (label, _ops_text(p)), ok,
                   "frac = d.B^-1, wrap = frac - round(frac), cart = wrap.B^+1, return |cart|"
                   + ("" if ok else " -- FAILS: " + why),
                   node=p.end_node or fn, returned=repr(ret), errors=errs, flag_value=fv,
                   wraps=[repr(w) for w in wraps])
    ctx.extra["paths_enumerated"] = len(paths)
    ctx.extra["box_paths_evaluated"] = evaluated
    ctx.floor("R19.1", n_box_paths, 2, "path x inverse-flag combinations with a box")


def _short(p):
    return p.describe()[:160]


def _ops_text(p) -> str:
    """The matrix/wrap operations of a path (the construct the finding is keyed by)."""
    bits = []
    for st in p.stmts():
        if isinstance(st, (ast.Assign, ast.AugAssign)):
            txt = norm(st)
            if any(k in txt for k in ("dot", "@", "inv(", "round", "rint", "floor", "around", "matmul")):
                bits.append(txt)
    return " ; ".join(bits)


def _flag_test(test, flag) -> Optional[bool]:
    """Value of the flag that makes ``test`` true, if test is (not) flag."""
    if flag is None:
        return None
    if isinstance(test, ast.Name) and test.id == flag:
        return True
    if isinstance(test, ast.UnaryOp) and isinstance(test.op, ast.Not) \
            and isinstance(test.operand, ast.Name) and test.operand.id == flag:
        return False
    if isinstance(test, ast.Compare) and isinstance(test.left, ast.Name) and test.left.id == flag \
            and len(test.ops) == 1 and isinstance(test.comparators[0], ast.Constant) \
            and isinstance(test.comparators[0].value, bool):
        c = test.comparators[0].value
        if isinstance(test.ops[0], (ast.Is, ast.Eq)):
            return c
        if isinstance(test.ops[0], (ast.IsNot, ast.NotEq)):
            return not c
    return None


def _box_test(test, box) -> Optional[bool]:
    """True if test == 'box is not None', False if 'box is None'."""
    if isinstance(test, ast.Compare) and isinstance(test.left, ast.Name) and test.left.id == box \
            and len(test.ops) == 1 and isinstance(test.comparators[0], ast.Constant) \
            and test.comparators[0].value is None:
        if isinstance(test.ops[0], (ast.IsNot, ast.NotEq)):
            return True
        if isinstance(test.ops[0], (ast.Is, ast.Eq)):
            return False
    return None


def _interp(p, box, power):
    env: Dict[str, V] = {}
    if power is not None:
        env[box] = V("mat", power)
    errs: List[str] = []
    wraps: List[V] = []
    unknown: List[str] = []

    def ev(e) -> V:
        if isinstance(e, ast.Name):
            return env.get(e.id, V("other"))
        if isinstance(e, (ast.List, ast.Tuple)):
            r = V("seq", [ev(x) for x in e.elts])
            return r
        if isinstance(e, ast.Subscript) and isinstance(e.slice, ast.Constant) and isinstance(e.slice.value, int):
            v = ev(e.value)
            if v.kind == "seq" and -len(v.info) <= e.slice.value < len(v.info):
                return v.info[e.slice.value]
        if isinstance(e, ast.Attribute) and e.attr == "T":
            v = ev(e.value)
            if v.kind == "mat":
                r = V("mat", v.info)
                r.T = not v.T
                return r
            return v
        if isinstance(e, ast.Call):
            name = call_name(e)
            full = norm(e.func)
            if name in ("inv", "pinv") and e.args:
                v = ev(e.args[0])
                if v.kind == "mat":
                    r = V("mat", -v.info if v.info is not None else None)
                    r.T = v.T
                    return r
                return V("mat", None)
            if name in ("diag", "diagflat", "diagonal") and e.args:
                # the diagonal of a matrix, or a diagonal matrix built from it: neither the box nor its inverse unless the
                # box is rectangular (the property covers triclinic boxes)
                r = V("mat", None)
                r.why = "%s keeps only the diagonal of the box matrix" % norm(e)[:50]
                return r
            if name == "transpose" and e.args:
                v = ev(e.args[0])
                if v.kind == "mat":
                    r = V("mat", v.info)
                    r.T = not v.T
                    return r
                return v
            if name in ("dot", "matmul"):
                if isinstance(e.func, ast.Attribute) and not full.startswith(("np.", "numpy.")):
                    a, b = ev(e.func.value), (ev(e.args[0]) if e.args else V("other"))
                elif len(e.args) >= 2:
                    a, b = ev(e.args[0]), ev(e.args[1])
                else:
                    return V("other")
                return mul(a, b, norm(e))
            if name in ROUND_OK and e.args:
                return V("round", ev(e.args[0]))
            if name in ROUND_BAD and e.args:
                arg = e.args[0]
                # floor(x + 0.5) is round-to-nearest as well
                if name == "floor" and isinstance(arg, ast.BinOp) and isinstance(arg.op, ast.Add):
                    for x, y in ((arg.left, arg.right), (arg.right, arg.left)):
                        if isinstance(y, ast.Constant) and y.value == 0.5:
                            return V("round", ev(x))
                r = V("round", ev(arg))
                r.why = "np.%s is not round-to-nearest" % name
                return r
            if name in ("norm", "sqrt", "array", "asarray", "copy", "float", "abs"):
                if e.args:
                    return ev(e.args[0])
            if name == "sum" and e.args:
                return ev(e.args[0])
            return V("other")
        if isinstance(e, ast.BinOp):
            if isinstance(e.op, ast.MatMult):
                return mul(ev(e.left), ev(e.right), norm(e))
            a, b = ev(e.left), ev(e.right)
            if isinstance(e.op, ast.Sub):
                return sub(a, b, norm(e))
            if isinstance(e.op, ast.Pow):
                return a
            if a.kind == "vec":
                return a
            if b.kind == "vec":
                return b
            return V("other")
        return V("other")

    def as_vec(v: V) -> V:
        if v.kind == "vec":
            return v
        if v.kind == "other":
            return V("vec", "cart")
        return v

    def mul(a: V, b: V, txt: str) -> V:
        if a.kind == "mat" and b.kind != "mat":
            # left multiplication M.v : only the transposed matrix is the same linear map
            if a.T:
                a2 = V("mat", a.info)
                return mul(b, a2, txt)
            errs.append("%s multiplies the matrix from the left (row-vector convention needs v.M)" % txt)
            return V("vec", "bad", why="left multiplication")
        if b.kind == "mat":
            v = as_vec(a)
            if b.T:
                errs.append("%s uses the transposed box" % txt)
                return V("vec", "bad", why="transposed box")
            if v.kind != "vec":
                return V("other")
            if v.info == "cart" and b.info == -1:
                return V("vec", "frac", v.wrapped)
            if v.info == "frac" and b.info == 1:
                return V("vec", "cart", v.wrapped)
            errs.append("%s applies %r to a %s vector" % (txt, b, v.info))
            return V("vec", "bad", v.wrapped, why="%r applied to %s" % (b, v.info))
        if a.kind in ("vec", "other") and b.kind == "other" and ("dot" in txt or "@" in txt or "matmul" in txt):
            # a product with something this interpretation has no value for (a matrix reached through a container, a
            # helper ...): the frame of the result is unknown, which is not the same as wrong
            unknown.append(txt)
            return V("vec", "unknown", as_vec(a).wrapped)
        return V("other")

    def sub(a: V, b: V, txt: str) -> V:
        if b.kind == "round":
            v = as_vec(a)
            inner = as_vec(b.info) if isinstance(b.info, V) else V("vec", "cart")
            if b.why:
                errs.append("%s: %s" % (txt, b.why))
            if v.kind == "vec" and "unknown" in (v.info, inner.info):
                r = V("vec", "unknown", True)
                wraps.append(r)
                return r
            if v.kind == "vec":
                if v.info != "frac" or inner.info != "frac":
                    errs.append("%s wraps a %s vector (the wrap must act on fractional coordinates)"
                                % (txt, v.info))
                r = V("vec", v.info, True)
                wraps.append(r)
                return r
        if a.kind == "vec":
            return a
        return V("other") if a.kind == "other" and b.kind in ("other", "vec") else a

    for st in p.stmts():
        if isinstance(st, ast.Assign) and len(st.targets) == 1:
            t = st.targets[0]
            if isinstance(t, ast.Name):
                env[t.id] = ev(st.value)
            elif isinstance(t, (ast.Tuple, ast.List)) and isinstance(st.value, (ast.Tuple, ast.List)) \
                    and len(t.elts) == len(st.value.elts):
                vals = [ev(x) for x in st.value.elts]
                for tt, vv in zip(t.elts, vals):
                    if isinstance(tt, ast.Name):
                        env[tt.id] = vv
        elif isinstance(st, ast.AugAssign) and isinstance(st.target, ast.Name):
            cur = env.get(st.target.id, V("other"))
            rhs = ev(st.value)
            if isinstance(st.op, ast.Sub):
                env[st.target.id] = sub(cur, rhs, norm(st))
            elif isinstance(st.op, ast.MatMult):
                env[st.target.id] = mul(cur, rhs, norm(st))
        elif isinstance(st, ast.Return) and st.value is not None:
            env["<return>"] = ev(st.value)
            if env["<return>"].kind == "other":
                env["<return>"] = V("vec", "cart")
    env["<unknown>"] = unknown
    return env, errs, wraps


def _ret_value(p, env) -> Optional[V]:
    return env.get("<return>")
