"""C20 - command-line mapping equals the library workflow; discovery is deterministic.

R20.1 no iteration over a hash-ordered set of non-integers on the discovery path (unless through sorted())
R20.2 optional keys of the per-species record are read only under a presence test
R20.3 explicit species are removed before scanning; the exclusion test precedes the append
R20.4 the explicit pipeline is load -> attach -> align -> maps -> extrapolate, with scale, output path,
      reference path and each element of the species triple forwarded to the matching library parameter
R20.6 every species is offered the same candidate files: no one-shot iterator (filter/map/zip/generator) created once and consumed per species
R20.5 a command-line run keeps no table between calls; candidate names are stored as given (or the explicit species is still refused by the System); the exclusion container is a collection, not a string
"""
from __future__ import annotations

import ast
from typing import Dict, List, Optional, Set, Tuple

from ..cfg import (CFG, call_name, calls_in, walk_no_nested, parents_map, guards_of, attr_chain,
                   enum_paths, const_int, enclosing_stmt, ancestors, branches, ctext, cconds, cguards_of)
from ..core import AnalysisError, Ctx, Func, norm
from ..resolve import Resolver
from ..util import stmts_sorted, reachable
from ..pat import find as pfind, has as phas

SPEC = {
    "explanation": (
        "R20.1 types every iterated expression on the discovery path (functions of gaddlemaps._cli reachable "
        "from main; the whole package in the thorough tier) with the annotation-driven resolver and reports "
        "each for-loop/comprehension whose iterable is a set whose elements are not integers, unless wrapped in "
        "sorted(): such an iteration order depends on PYTHONHASHSEED, and here it decides which candidate file "
        "is bound to a species and the order in which species are aligned (hence the random stream).  R20.2 is "
        "a dictionary-key typestate: keys stored into the per-species record only conditionally must be read "
        "under a presence test (`key in record`, or `len(record) == number of keys`).  R20.3/R20.4 are "
        "ordering, dominance and argument-binding rules: calls are bound to the callee's parameters through the "
        "resolved signature, and the scale is followed to ExchangeMap.scale_factor.  Bit-identity of the "
        "output with the library run is not decided (it follows from the one-seedable-stream rule C06/R6.5 "
        "once the species order is well defined)."),
    "exhaustive": True,
    "trusted_base": ["sets of str iterate in hash order (PYTHONHASHSEED dependent); sets of small ints and dicts do not",
                     "argparse stores each option under its dest"],
    "assumptions": [],
}

ORDER_FREE = {"sorted", "len", "sum", "min", "max", "any", "all", "set", "frozenset"}


def run(ctx: Ctx):
    R = Resolver(ctx.repo)
    ctx.attempt("R20.1", lambda: r20_1(ctx, R))
    ctx.attempt("R20.2", lambda: r20_2(ctx, R))
    ctx.attempt("R20.3", lambda: r20_3(ctx, R))
    ctx.attempt("R20.4", lambda: r20_4(ctx, R))
    from ..util import persistent_state, reused_iterators
    ctx.attempt("R20.6", lambda: reused_iterators(ctx, "R20.6", [f_ for f_ in ctx.repo.funcs.values() if f_.qual.startswith("gaddlemaps._cli.")],
                                                  "the discovery"))
    ctx.attempt("R20.5", lambda: persistent_state(ctx, "R20.5", [f_ for f_ in (ctx.repo.func(q_, required=False) for q_ in ('auto_map', 'sort_molecules', 'classify_files', '_cli.main')) if f_ is not None], "a command-line run"))


def _is_set_type(t) -> Optional[bool]:
    """True: hash-ordered set of non-ints; False: not a set or a set of ints; None: unknown."""
    if t is None:
        return None
    if t[0] == "set":
        return not (t[1] == ("ext", "int") or t[1] == ("ext", "bool"))
    return False


ORDER_KEEPING = {"list", "tuple", "iter", "reversed", "enumerate", "zip", "chain", "deque", "map", "filter", "islice"}


def _keyed_sort(e: ast.AST) -> bool:
    """sorted/min/max with a key that is not known to be injective (identity, or a tuple ending in the element)."""
    if not (isinstance(e, ast.Call) and isinstance(e.func, ast.Name) and e.func.id in ("sorted", "min", "max") and e.args):
        return False
    ks = [k.value for k in e.keywords if k.arg == "key"]
    if not ks or (isinstance(ks[0], ast.Constant) and ks[0].value is None):
        return False
    k = ks[0]
    if isinstance(k, ast.Lambda) and len(k.args.args) == 1:
        p = k.args.args[0].arg
        b = k.body
        if isinstance(b, ast.Name) and b.id == p:
            return False
        if isinstance(b, ast.Tuple) and any(isinstance(x, ast.Name) and x.id == p for x in b.elts):
            return False
    return True


def hash_ordered(e: ast.AST, R: Resolver, f: Func, env, depth: int = 0):
    """Element type if iterating ``e`` visits elements in hash order (a set of non-ints, possibly passed through
    an order-keeping wrapper or a local assigned from one); None otherwise."""
    if depth > 4:
        return None
    t = R.expr_type(e, f, env)
    if _is_set_type(t):
        return t
    if isinstance(e, ast.Call) and isinstance(e.func, ast.Name) and e.func.id in ORDER_KEEPING and e.args:
        for a in e.args:
            r = hash_ordered(a, R, f, env, depth + 1)
            if r:
                return r
    if _keyed_sort(e):
        # sorted(S, key=k) is stable: elements with equal keys stay in the order S yields them
        return hash_ordered(e.args[0], R, f, env, depth + 1)
    if isinstance(e, (ast.ListComp, ast.GeneratorExp)) and e.generators:
        return hash_ordered(e.generators[0].iter, R, f, env, depth + 1)
    if isinstance(e, ast.Call) and isinstance(e.func, ast.Attribute) and e.func.attr in ("copy", "union", "intersection", "difference"):
        return hash_ordered(e.func.value, R, f, env, depth + 1)
    if isinstance(e, ast.BinOp) and isinstance(e.op, (ast.BitOr, ast.BitAnd, ast.Sub, ast.BitXor)):
        return hash_ordered(e.left, R, f, env, depth + 1) or hash_ordered(e.right, R, f, env, depth + 1)
    if isinstance(e, ast.Name):
        defs = [s_ for s_ in walk_no_nested(f.node) if isinstance(s_, ast.Assign) and len(s_.targets) == 1
                and isinstance(s_.targets[0], ast.Name) and s_.targets[0].id == e.id]
        for d in defs:
            if isinstance(d.value, ast.Call) and isinstance(d.value.func, ast.Name) and d.value.func.id in ORDER_KEEPING \
                    or isinstance(d.value, (ast.ListComp, ast.GeneratorExp)) or _keyed_sort(d.value):
                r = hash_ordered(d.value, R, f, env, depth + 1)
                if r:
                    return r
    return None


def set_iterations(ctx: Ctx, R: Resolver, funcs: List[Func]):
    """Yield (func, loop_or_comprehension, iter_expr, elem_type) for hash-ordered iterations."""
    out = []
    n_iter = 0
    for f in funcs:
        env = R.env(f)
        pm = parents_map(f.node)
        for n in walk_no_nested(f.node):
            it = None
            if isinstance(n, (ast.For, ast.AsyncFor)):
                it = n.iter
            elif isinstance(n, ast.comprehension):
                it = n.iter
            if it is None:
                continue
            n_iter += 1
            t = hash_ordered(it, R, f, env)
            if t:
                # a comprehension directly consumed by an order-free reduction is harmless
                host = n
                if isinstance(n, ast.comprehension):
                    comp = pm.get(id(n))
                    user = pm.get(id(comp))
                    if isinstance(user, ast.Call) and call_name(user) in ORDER_FREE and isinstance(comp, (ast.GeneratorExp, ast.SetComp, ast.ListComp)) \
                            and not _keyed_sort(user):
                        continue
                    if isinstance(comp, ast.SetComp):
                        continue
                    host = comp
                out.append((f, host, it, t))
        # a keyed min/max over a hash-ordered collection picks, among equal keys, the first one in hash order
        for c in calls_in(f.node):
            if _keyed_sort(c) and c.func.id in ("min", "max"):
                t = hash_ordered(c.args[0], R, f, env)
                if t:
                    out.append((f, c, c.args[0], t))
    return out, n_iter


def r20_1(ctx: Ctx, R: Resolver):
    main = ctx.func("_cli.main")
    g = R.callgraph(include_props=False)
    reach = reachable(g, [main.qual])
    if ctx.tier == "thorough":
        funcs = [f for f in ctx.repo.funcs.values()]
        scope = "every function of the package"
    else:
        funcs = [f for q, f in ctx.repo.funcs.items() if q in reach and f.module.name.endswith("_cli")]
        scope = "functions of gaddlemaps._cli reachable from main"
    for f in funcs:
        ctx.seen(f)
    hits, n_iter = set_iterations(ctx, R, funcs)
    ctx.extra["R20.1_scope"] = scope
    ctx.extra["R20.1_iterations_typed"] = n_iter
    ctx.floor("R20.1", n_iter, 8, "iteration sites typed on the discovery path")
    for f, host, it, t in hits:
        ctx.ob("R20.1", f, host, False,
               "iteration over `%s` (a set of %s) visits the elements in hash order, which changes with "
               "PYTHONHASHSEED; wrap the iterable in sorted()" % (norm(it), (t[1] or ("?", "?"))[1] if t[1] else "unknown"),
               node=host, iterable=norm(it))
    if not hits:
        ctx.ob("R20.1", main, "%d iteration sites in %s" % (n_iter, scope), True,
               "no for-loop or comprehension iterates a hash-ordered set of non-integers", node=main.node)
    # positive fixture: the rule must still recognise the pattern it is looking for
    from ..fixtures import check_fixture
    check_fixture(ctx, "R20.1", "set_iteration.py", lambda repo: len(set_iterations(ctx, Resolver(repo), list(repo.funcs.values()))[0]), expect_exact=3)


def r20_2(ctx: Ctx, R: Resolver):
    sm = ctx.func("_cli.sort_molecules")
    main = ctx.func("_cli.main")
    # creation literals and later stores
    created: Set[str] = set()
    stored: Dict[str, List[ast.AST]] = {}
    pm = parents_map(sm.node)
    for st in walk_no_nested(sm.node):
        if isinstance(st, ast.Assign) and isinstance(st.targets[0], ast.Subscript):
            tgt = st.targets[0]
            if isinstance(st.value, ast.Dict) and all(isinstance(k, ast.Constant) for k in st.value.keys) \
                    and not isinstance(tgt.slice, ast.Constant):
                created |= {k.value for k in st.value.keys}
            elif isinstance(tgt.slice, ast.Constant) and isinstance(tgt.slice.value, str):
                stored.setdefault(tgt.slice.value, []).append(st)
    optional = {k for k in stored if k not in created}
    allkeys = created | set(stored)
    ctx.extra["record_keys"] = {"always": sorted(created), "optional": sorted(optional)}
    if not created:
        ctx.ob("R20.2", sm, "per-species record", True, "record creation literal not recognised", undecided=True)
        return
    n = 0
    for f in (sm, main):
        pmf = parents_map(f.node)
        for sub in walk_no_nested(f.node):
            if isinstance(sub, ast.Subscript) and isinstance(sub.ctx, ast.Load) and isinstance(sub.slice, ast.Constant) \
                    and sub.slice.value in optional:
                key = sub.slice.value
                rec = norm(sub.value)
                n += 1
                ok, how = False, ""
                from ..pat import expand_single_defs as _xsd202
                for t, pol in guards_of(sub, pmf):
                    t = _xsd202(f.node, t)          # `n = len(rec)` ... `if n == 3:` reads as `if len(rec) == 3:`
                    for cmp_ in [x for x in ast.walk(t) if isinstance(x, ast.Compare)]:
                        # key in rec
                        if isinstance(cmp_.ops[0], ast.In) and isinstance(cmp_.left, ast.Constant) and cmp_.left.value == key \
                                and pol and _conj(t, cmp_):
                            ok, how = True, "guarded by `%s`" % norm(cmp_)
                        if isinstance(cmp_.ops[0], ast.NotIn) and isinstance(cmp_.left, ast.Constant) and cmp_.left.value == key \
                                and not pol and isinstance(t, ast.Compare):
                            ok, how = True, "in the else-branch of `%s`" % norm(cmp_)
                        # len(rec) == total number of keys
                        if isinstance(cmp_.ops[0], ast.Eq) and isinstance(cmp_.left, ast.Call) and call_name(cmp_.left) == "len" \
                                and const_int(cmp_.comparators[0]) == len(allkeys) and pol and _conj(t, cmp_):
                            ok, how = True, "guarded by `%s` (all %d keys present)" % (norm(cmp_), len(allkeys))
                # the presence test in any spelling: among the literals that hold on the way to the read (conjunctions,
                # negated disjunctions, else-branches are all taken apart)
                from ..cfg import cguards_of as _cgo, ctext as _ctx
                if not ok and _ctx("%r in %s" % (key, rec)) in _cgo(sub, pmf, split=True):
                    ok, how = True, "`%r in %s` holds on the way to the read" % (key, rec)
                # the record comes from a list filtered by the presence test: `for rec in [r for r in ... if 'key' in r]`
                if not ok and isinstance(sub.value, ast.Name):
                    from ..pat import single_defs as _sd20
                    for a in ancestors(sub, pmf):
                        if isinstance(a, ast.For) and isinstance(a.target, ast.Name) and a.target.id == sub.value.id:
                            src_ = a.iter
                            if isinstance(src_, ast.Name):
                                # the list may be rebuilt on every pass of an outer loop: take its (unique) assignment
                                defs_ = [s_ for s_ in ast.walk(f.node) if isinstance(s_, ast.Assign) and norm(s_.targets[0]) == src_.id]
                                src_ = defs_[0].value if len(defs_) == 1 else src_
                            if isinstance(src_, (ast.ListComp, ast.GeneratorExp)) and len(src_.generators) == 1 \
                                    and isinstance(src_.elt, ast.Name) and norm(src_.generators[0].target) == src_.elt.id:
                                lits = [x_ for i_ in src_.generators[0].ifs for x_ in __import__("gmsa.cfg", fromlist=["conjuncts"]).conjuncts(i_, True)]
                                if _ctx("%r in %s" % (key, src_.elt.id)) in lits:
                                    ok, how = True, "the record is drawn from a list filtered by `%r in ...`" % key
                # the record is an entry of a dict built by a comprehension that keeps only complete records:
                # D = {k: v for k, v in src.items() if len(v) == <all keys> [or 'key' in v]} ... D[k]['key']
                if not ok and isinstance(sub.value, ast.Subscript) and isinstance(sub.value.value, ast.Name):
                    dn_ = sub.value.value.id
                    defs_ = [s_ for s_ in ast.walk(f.node) if isinstance(s_, ast.Assign) and norm(s_.targets[0]) == dn_]
                    if len(defs_) == 1 and isinstance(defs_[0].value, ast.DictComp) and len(defs_[0].value.generators) == 1:
                        dc_ = defs_[0].value
                        vname = norm(dc_.value)
                        for i_ in dc_.generators[0].ifs:
                            for t_, p_ in __import__("gmsa.cfg", fromlist=["conjuncts"]).conjuncts(i_, True):
                                if p_ and t_ in (_ctx("len(%s) == %d" % (vname, len(allkeys)))[0], _ctx("%r in %s" % (key, vname))[0]):
                                    ok, how = True, "the record is an entry of a dict that keeps complete records only (`%s`)" % norm(i_)
                # try/except KeyError
                for a in ancestors(sub, pmf):
                    if isinstance(a, ast.Try) and any(h.type is not None and "KeyError" in norm(h.type) for h in a.handlers) \
                            and any(sub in ast.walk(s) for s in a.body):
                        ok, how = True, "inside try/except KeyError"
                st = enclosing_stmt(sub, pmf)
                ctx.ob("R20.2", f, "read of optional key %r: %s" % (key, norm(st)[:120]), ok,
                       "key %r is stored only conditionally (a species may have no such file), so it must be read "
                       "under a presence test" % key + ("" if ok else " -- unguarded: KeyError when a discovered "
                                                       "species lacks it"), node=sub, guard=how, record=rec)
    ctx.floor("R20.2", n, 3, "reads of optional record keys")


def _conj(test: ast.AST, part: ast.AST) -> bool:
    """``part`` is the test itself or a conjunct of it (so the test being true implies part)."""
    if test is part:
        return True
    if isinstance(test, ast.BoolOp) and isinstance(test.op, ast.And):
        return any(_conj(v, part) for v in test.values)
    return False


def r20_3(ctx: Ctx, R: Resolver):
    sm = ctx.func("_cli.sort_molecules")
    main = ctx.func("_cli.main")
    known = [p for p in sm.params][-1]
    cfg = CFG(sm.node)
    dom = cfg.dominators()
    # removal loop over the known triples
    rem_loops = [n for n in walk_no_nested(sm.node) if isinstance(n, ast.For) and norm(n.iter) == known
                 and any(call_name(c) in ("remove", "discard") for c in calls_in(n))]
    scans = [n for n in walk_no_nested(sm.node)
             if (isinstance(n, ast.For) and n not in rem_loops and any(call_name(c) in ("add_molecule_top", "from_files", "MoleculeTop") for c in calls_in(n)))
             or (isinstance(n, ast.Assign) and any(call_name(c) == "MoleculeTop" for c in calls_in(n)))]
    ok = bool(rem_loops) and bool(scans)
    if ok:
        rid = cfg.node_of(rem_loops[0]).id
        for s in scans:
            if rid not in dom[cfg.node_of(s).id]:
                ok = False
    removed = set()
    for l in rem_loops:
        for c in calls_in(l):
            if call_name(c) in ("remove", "discard") and c.args and isinstance(c.args[0], ast.Subscript):
                removed.add(const_int(c.args[0].slice))
    if not rem_loops:
        # the same removal as set differences: the known files are collected (loop over the triples, all three positions)
        # and subtracted from the candidate sets before the scans
        col_loops = [n for n in walk_no_nested(sm.node) if isinstance(n, ast.For) and norm(n.iter) == known
                     and any(call_name(c) in ("add", "update", "append") for c in calls_in(n))]
        diffs = [s_ for s_ in walk_no_nested(sm.node) if (isinstance(s_, ast.AugAssign) and isinstance(s_.op, ast.Sub))
                 or (isinstance(s_, ast.Expr) and isinstance(s_.value, ast.Call) and call_name(s_.value) == "difference_update")]
        collected = set()
        for l in col_loops:
            for c in calls_in(l):
                if call_name(c) in ("add", "append") and c.args and isinstance(c.args[0], ast.Subscript):
                    collected.add(const_int(c.args[0].slice))
        if col_loops and diffs and collected == {0, 1, 2} and scans and all(
                cfg.node_of(d_).id in dom[cfg.node_of(s_).id] for d_ in diffs for s_ in scans):
            ctx.ob("R20.3", sm, diffs[0], True, "all three files of every explicit species are taken out of the candidate sets before any "
                   "candidate is scanned (collected and subtracted)", node=diffs[0], removed_triple_positions=[0, 1, 2])
        else:
            ctx.ob("R20.3", sm, "removal of explicit files", bool(col_loops or diffs), "the removal of the explicit files is not written "
                   "in a recognised form; not decided on this tree" if (col_loops or diffs) else
                   "all three files of every explicit species are taken out of the candidate sets before any candidate is scanned",
                   undecided=bool(col_loops or diffs), node=sm.node)
    else:
        ctx.ob("R20.3", sm, rem_loops[0] if rem_loops else "removal of explicit files", ok and removed == {0, 1, 2},
               "all three files of every explicit species are taken out of the candidate sets before any candidate is "
               "scanned", node=rem_loops[0] if rem_loops else sm.node, removed_triple_positions=sorted(x for x in removed if x is not None))
    # the system is created with the explicit CG topologies, before scanning
    sysc = [c for c in calls_in(sm.node) if call_name(c) == "System"]
    oks = False
    if sysc:
        c = sysc[0]
        star = [a for a in c.args if isinstance(a, ast.Starred)]
        oks = bool(star) and "[0]" in norm(star[0]) and known in norm(star[0]) and norm(c.args[0]) == sm.params[0]
        nid = cfg.node_containing(c)
        oks = oks and all(nid.id in dom[cfg.node_of(s).id] for s in scans)
    ctx.ob("R20.3", sm, sysc[0] if sysc else "System(...)", oks,
           "the reference system is loaded with the explicit species' starting topologies first, so their "
           "molecules are already claimed when candidates are tried", node=sysc[0] if sysc else sm.node)
    # each removal is guarded by membership of the same file in the same set
    n_rm = 0
    pms = parents_map(sm.node)
    for l in rem_loops:
        for c in calls_in(l):
            if call_name(c) in ("remove", "discard") and c.args:
                n_rm += 1
                st_ = norm(c.func.value)
                x_ = norm(c.args[0])
                g_ = cguards_of(c, pms)
                okg = call_name(c) == "discard" or g_ == [ctext("%s in %s" % (x_, st_))]
                ctx.ob("R20.3", sm, c, okg, "a known file is removed from the candidate set it belongs to, when it is in it "
                       "(guards: %s)" % g_, node=c)
    # classification by extension
    cf = ctx.func("_cli.classify_files")
    pmc = parents_map(cf.node)
    # the candidate sets hold the names exactly as they were given: the explicit files are taken out of them by comparing
    # names, so a name rewritten on its way into the set (normpath, abspath, lower ...) is no longer found unless the
    # removal rewrites the explicit names the same way
    files_p = cf.params[0] if cf.params else "files"
    for lp_ in [n for n in walk_no_nested(cf.node) if isinstance(n, ast.For) and isinstance(n.target, ast.Name)]:
        adds_ = [c for c in calls_in(lp_) if call_name(c) == "add" and c.args]
        if not adds_:
            continue
        v_ = lp_.target.id
        rebinds = [s_ for s_ in walk_no_nested(lp_) if isinstance(s_, ast.Assign) and any(isinstance(t_, ast.Name) and t_.id == v_ for t_ in s_.targets)]
        for c in adds_:
            a_ = c.args[0]
            if isinstance(a_, ast.Name) and a_.id == v_ and not rebinds:
                ctx.ob("R20.3", cf, "%s (candidate stored as given)" % norm(c), True,
                       "a candidate file enters the set under the name it was given on the command line", node=c)
                continue
            how = norm(rebinds[0].value) if rebinds else norm(a_)
            fn_ = None
            src_ = rebinds[0].value if rebinds else a_
            if isinstance(src_, ast.Call) and len(src_.args) == 1 and isinstance(src_.args[0], ast.Name) and src_.args[0].id == v_:
                fn_ = norm(src_.func)
            same = fn_ is not None and rem_loops and all(
                isinstance(r_.args[0], ast.Call) and norm(r_.args[0].func) == fn_
                for l_ in rem_loops for r_ in calls_in(l_) if call_name(r_) in ("remove", "discard") and r_.args)
            second_defence = None
            if fn_ is not None and not same:
                # the other defence: a species whose molecules are already claimed is refused by System.add_molecule_top
                # (the run search raises), which the scan catches and skips.  It stands iff every normal exit of
                # add_molecule_top has gone through the run search.
                amt = ctx.repo.func("System.add_molecule_top", required=False)
                if amt is not None:
                    second_defence = True
                    for p_ in enum_paths(amt.node.body):
                        if p_.end in ("return", "fall") and not any(
                                isinstance(x_, ast.Call) and call_name(x_) == "_check_index_in_available_mgro" for s_ in p_.stmts() for x_ in ast.walk(s_)):
                            second_defence = False
            if fn_ is not None and not same and second_defence:
                ctx.ob("R20.3", cf, c, True, "candidates are stored as `%s` while explicit names are removed as typed; the explicit species "
                       "is still refused when scanned again because its molecules are already claimed (System.add_molecule_top raises on "
                       "every such path)" % how, node=c)
            elif fn_ is not None and not same:
                ctx.ob("R20.3", cf, c, False,
                       "candidate names and explicit names are compared as typed -- the candidate is stored as `%s` but the explicit "
                       "files are removed under the names the user typed: `./x.itp` given explicitly is not found in the set, is "
                       "scanned again and - since System.add_molecule_top has a normal exit that skips the run search - the species is "
                       "added a second time" % how, node=c)
            elif fn_ is not None:
                ctx.ob("R20.3", cf, c, True, "candidates and explicit names are rewritten by the same function (`%s`)" % fn_, node=c)
            else:
                ctx.ob("R20.3", cf, c, True, "what is stored in the candidate set is not the name as given nor a recognised rewriting of "
                       "it; not decided on this tree", undecided=True, node=c)
    for c in calls_in(cf.node):
        if call_name(c) == "add" and c.args:
            which = norm(c.func.value)
            g_ = cguards_of(c, pmc)
            reg = "ParserManager.parsers" if "coord" in which else "TopologyParserManager.parsers"
            # the extension variable: last dot-separated piece of the base name
            exts = [b_["V_e"] for _, b_ in pfind(cf.node, "V_e = E_n.split('.')[-1]")] + \
                [b_["V_e"] for _, b_ in pfind(cf.node, "V_e = E_n.rsplit('.', 1)[-1]")]
            ext = exts[0] if exts else None
            if ext is None:
                # how the tested value is computed decides: another split of the name on '.' is a different piece of it
                from ..pat import single_defs as _sd20
                sd_ = _sd20(cf.node)
                tested = [t_.split(" in ")[0].strip() for t_, p_ in g_ if " in " in t_ and reg.replace(" ", "") in t_.replace(" ", "")]
                dv = sd_.get(tested[0]) if tested else None
                dtxt = norm(dv) if dv is not None else ""
                other_split = dv is not None and (".split('.'" in dtxt or ".rsplit('.'" in dtxt or ".partition('.')" in dtxt or ".rpartition('.')" in dtxt)
                if other_split and ".rpartition('.')[2]" not in dtxt and ".rpartition('.')[-1]" not in dtxt:
                    ctx.ob("R20.3", cf, c, False, "a file is classified by its extension: the text after the LAST dot of the base name -- "
                           "`%s` is another piece of the name (wrong for names with more than one dot)" % dtxt, node=dv)
                else:
                    ctx.ob("R20.3", cf, c, True, "the extension is not computed as name.split('.')[-1]; classification not decided on this tree",
                           undecided=True, node=c)
                continue
            ctx.ob("R20.3", cf, c, g_ == [ctext("%s in %s" % (ext, reg))],
                   "a file is a %s candidate exactly when its extension has a registered %s parser" % (
                       "coordinate" if "coord" in which else "topology", "coordinate" if "coord" in which else "topology"), node=c)
    # the end topology of a species: another candidate with the same molecule name, stored once
    for st in walk_no_nested(sm.node):
        if isinstance(st, ast.Assign) and isinstance(st.targets[0], ast.Subscript) and isinstance(st.targets[0].slice, ast.Constant) \
                and st.targets[0].slice.value in ("top_AA", "coor_AA"):
            key_ = st.targets[0].slice.value
            from ..pat import expand_single_defs as _xsd20
            from ..cfg import canon_test as _ct20
            # guards with locals that are bound once written out (an alias of the species' record reads as the record)
            g_ = sorted(_ct20(_xsd20(sm.node, t_, aliases_only=True), p_) for t_, p_ in guards_of(st, pms))
            if isinstance(st.targets[0].value, ast.Name):
                st = ast.copy_location(ast.Assign([_xsd20(sm.node, st.targets[0], aliases_only=True)], st.value), st)
            if key_ == "top_AA":
                # names are read off the code (renaming locals must not matter)
                rets_ = [r_ for r_ in walk_no_nested(sm.node) if isinstance(r_, ast.Return) and isinstance(r_.value, ast.Name)]
                recv = rets_[0].value.id if rets_ else "added_molecues"
                lp_ = [a_ for a_ in ancestors(st, pms) if isinstance(a_, ast.For) and isinstance(a_.target, ast.Tuple)]
                fn_, mol_ = ([norm(e_) for e_ in lp_[0].target.elts] + ["filename", "molecule"])[:2] if lp_ else ("filename", "molecule")
                used_ = [norm(c_.func.value) for c_ in calls_in(sm.node) if call_name(c_) == "add" and c_.args and norm(c_.args[0]) == fn_]
                used_ = used_[0] if used_ else "used_files"
                t1_, p1_ = ctext("'top_AA' in %s[%s.name]" % (recv, mol_))
                want = sorted([(t1_, not p1_), ctext("%s not in %s" % (fn_, used_)), ctext("%s.name in %s" % (mol_, recv))])
                from ..cfg import conjuncts as _cj20
                g_ = sorted(x_ for t_, p_ in guards_of(st, pms) for x_ in _cj20(_xsd20(sm.node, t_, aliases_only=True), p_))
                has_used = any(call_name(c_) == "add" and c_.args and norm(c_.args[0]) == fn_ for c_ in calls_in(sm.node))
                if g_ == want or (has_used and lp_):
                    ctx.ob("R20.3", sm, st, g_ == want,
                           "the end topology of a species is a candidate that was not used as start topology, has the species' "
                           "molecule name, and is taken only if none was stored yet (guards: %s)" % g_, node=st)
                else:
                    ctx.ob("R20.3", sm, st, True, "the bookkeeping of used start topologies is not a set filled with the accepted file "
                           "names; the choice of the end topology is not decided on this tree", undecided=True, node=st)
            else:
                okc_ = any(t.startswith("'coor_AA' in ") and not pol for t, pol in cguards_of(st, pms, split=True)) \
                    and not any(isinstance(a_, ast.Try) and st in a_.body for a_ in ancestors(st, pms))
                direct_trial = any(isinstance(a_, ast.Try) for a_ in ancestors(st, pms))
                # the same thing without an else-branch: every handler of the trial leaves the iteration, the store follows
                par_ = pms.get(id(st))
                for fld_ in ("body", "orelse"):
                    blk_ = getattr(par_, fld_, None)
                    if isinstance(blk_, list) and any(x_ is st for x_ in blk_):
                        i_ = [j_ for j_, x_ in enumerate(blk_) if x_ is st][0]
                        if i_ > 0 and isinstance(blk_[i_ - 1], ast.Try) and not blk_[i_ - 1].orelse and not blk_[i_ - 1].finalbody \
                                and any("from_files" in norm(x_) for x_ in blk_[i_ - 1].body) \
                                and all(h_.body and isinstance(h_.body[-1], (ast.Continue, ast.Raise)) for h_ in blk_[i_ - 1].handlers):
                            direct_trial = True
                if okc_ or direct_trial:
                    ctx.ob("R20.3", sm, st, okc_,
                           "the end coordinates of a species are the first candidate that loads with its end topology (stored in the "
                           "else-branch of the trial load, only while none is stored)", node=st)
                else:
                    ctx.ob("R20.3", sm, st, True, "the trial load is not a try/except/else around this store; first-candidate choice not "
                           "decided on this tree", undecided=True, node=st)
    # exclusion precedes append
    loops = [n for n in walk_no_nested(main.node) if isinstance(n, ast.For)
             and any(call_name(c) == "append" for c in calls_in(n))]
    okx, npaths = False, 0
    if loops:
        okx = True
        for p in enum_paths(loops[0].body):
            has_app = any(isinstance(s, ast.Expr) and isinstance(s.value, ast.Call) and call_name(s.value) == "append"
                          for s in p.stmts())
            if not has_app:
                continue
            npaths += 1
            seen_excl = False
            for ev in p.events:
                if ev[0] == "c":
                    from ..cfg import conjuncts as _cj
                    # some literal that holds on this path says "the name is not in <something called exclude...>"
                    if any("exclude" in t_ and " in " in t_ and pol_ is False for t_, pol_ in _cj(ev[1], ev[2])):
                        seen_excl = True
                    tt_, oo_ = ev[1], ev[2]
                    while isinstance(tt_, ast.UnaryOp) and isinstance(tt_.op, ast.Not):
                        tt_, oo_ = tt_.operand, not oo_
                    if "exclude" in norm(tt_) and " in " in norm(tt_) and " not in " not in norm(tt_) and oo_ is False:
                        seen_excl = True        # `<exclusion list given> and name in <list>` evaluated false
                if ev[0] == "s" and isinstance(ev[1], ast.Expr) and isinstance(ev[1].value, ast.Call) \
                        and call_name(ev[1].value) == "append" and not seen_excl:
                    okx = False
    argsv = ([b_["V_a"] for _, b_ in pfind(main.node, "V_a = V_p.parse_args()")] + ["args"])[0]
    loopv = norm(loops[0].target) if loops else "molecule_name"
    excl = [n_ for n_ in (walk_no_nested(loops[0]) if loops else []) if isinstance(n_, ast.If) and "exclude" in norm(n_.test)]
    from ..cfg import canon_test as _ct3
    want_x = _ct3(ast.parse("%s.exclude is not None and %s in %s.exclude" % (argsv, loopv, argsv), mode="eval").body, False)
    apps_ = [s_ for s_ in (walk_no_nested(loops[0]) if loops else []) if isinstance(s_, ast.Expr) and isinstance(s_.value, ast.Call)
             and call_name(s_.value) == "append"]
    pml_ = parents_map(loops[0]) if loops else {}
    # the append sits where "an exclusion list was given and the name is in it" is false (guard clause or nesting alike)
    exact = bool(excl) and bool(apps_) and all(want_x in cguards_of(a_, pml_) for a_ in apps_)
    okx_path = okx
    okx = okx and exact
    # explicit species: the list starts from --mol when given
    amc = [c for c in calls_in(main.node) if call_name(c) == "auto_map"]
    molv = norm(amc[0].args[1]) if amc and len(amc[0].args) > 1 else "molecules"
    mols = [n_ for n_ in walk_no_nested(main.node) if isinstance(n_, ast.If) and norm(n_.test).replace(" ", "") in
            (("%s.mol is None" % argsv).replace(" ", ""), ("%s.mol is not None" % argsv).replace(" ", ""))]
    okm = False
    if mols:
        isnone = "isnot" not in norm(mols[0].test).replace(" ", "")
        b_none, b_given = (mols[0].body, mols[0].orelse) if isnone else (mols[0].orelse, mols[0].body)
        okm = any(isinstance(x, ast.Assign) and norm(x.targets[0]) == molv and norm(x.value) == "[]" for x in b_none) and \
            any(isinstance(x, ast.Assign) and norm(x.targets[0]) == molv and norm(x.value) == "%s.mol" % argsv for x in b_given)
    ctx.ob("R20.3", main, mols[0] if mols else "explicit species", okm,
           "the species list starts from the explicit --mol triples when given (empty otherwise)", node=mols[0] if mols else main.node)
    if (okx and npaths >= 1) or not okx_path or not loops or npaths < 1:
        ctx.ob("R20.3", main, loops[0] if loops else "discovery loop", okx and npaths >= 1,
               "a discovered species reaches the mapping list only on paths where the exclusion test was evaluated "
               "and false", node=loops[0] if loops else main.node, appending_paths=npaths)
    else:
        # every appending path evaluated an exclusion test, but the test is not spelled `args.exclude is not None and name in
        # args.exclude`: its exact meaning is not decided here - except when the container the name is looked up in is
        # a STRING on every definition (then `in` is a substring test: excluding WF also drops W)
        str_in = None
        for t_ in [n_ for n_ in ast.walk(loops[0]) if isinstance(n_, ast.Compare) and len(n_.ops) == 1 and isinstance(n_.ops[0], (ast.In, ast.NotIn))
                   and norm(n_.left) == loopv and isinstance(n_.comparators[0], ast.Name)]:
            cont = t_.comparators[0].id
            defs_ = [s_.value for s_ in walk_no_nested(main.node) if isinstance(s_, ast.Assign) and any(norm(x_) == cont for x_ in s_.targets)]

            def _is_str(e_):
                return (isinstance(e_, ast.Constant) and isinstance(e_.value, str)) or isinstance(e_, ast.JoinedStr) or \
                    (isinstance(e_, ast.Call) and isinstance(e_.func, ast.Attribute) and e_.func.attr in ("join", "format", "strip", "lower", "upper", "replace")
                     and (e_.func.attr != "join" or (isinstance(e_.func.value, ast.Constant) and isinstance(e_.func.value.value, str)))) or \
                    (isinstance(e_, ast.Call) and isinstance(e_.func, ast.Name) and e_.func.id == "str")
            if defs_ and all(_is_str(d_) for d_ in defs_):
                str_in = (t_, cont, defs_)
        if str_in is not None:
            ctx.ob("R20.3", main, str_in[0], False,
                   "exactly the excluded species are left out -- `%s` looks the name up in `%s`, which is a string on every path "
                   "(%s): that is a substring test, so excluding a species also drops every species whose name is contained in it"
                   % (norm(str_in[0]), str_in[1], "; ".join(norm(d_)[:40] for d_ in str_in[2])), node=str_in[0])
            return
        ctx.ob("R20.3", main, loops[0], True, "the exclusion test is evaluated on every path that lists a discovered species, but it is "
               "not in the recognised spelling; not decided on this tree", undecided=True, node=loops[0])


def bind_args(call: ast.Call, callee: Func) -> Dict[str, ast.AST]:
    """Parameter name -> argument expression for a call to ``callee`` (self/cls skipped)."""
    params = callee.params
    if callee.kind in ("method", "classmeth", "getter", "setter") and params:
        params = params[1:]
    out: Dict[str, ast.AST] = {}
    i = 0
    for a in call.args:
        if isinstance(a, ast.Starred):
            if i < len(params):
                out[params[i]] = a
            break
        if i < len(params):
            out[params[i]] = a
        i += 1
    for k in call.keywords:
        if k.arg:
            out[k.arg] = k.value
    return out


def r20_4(ctx: Ctx, R: Resolver):
    am = ctx.func("_cli.auto_map")
    main = ctx.func("_cli.main")
    sm = ctx.func("_cli.sort_molecules")
    p_ref, p_species, p_scale, p_out = am.params[:4]
    want = ["from_files", "align_molecules", "calculate_exchange_maps", "extrapolate_system"]
    paths = [p for p in enum_paths(am.node.body)]
    n = 0
    for p in paths:
        seq = []
        for ev in p.events:
            if ev[0] == "s":
                for c in calls_in(ev[1]):
                    if call_name(c) in want and (call_name(c) != "from_files" or "Manager" in norm(c.func)):
                        seq.append(call_name(c))
                if isinstance(ev[1], ast.Assign) and any(isinstance(t, ast.Attribute) and t.attr == "end" for t in ev[1].targets):
                    seq.append("attach")
            if ev[0] in ("loop1",):
                pass
        # loops were unrolled once: the attach store lives in a loop body
        order = [s for s in seq if s in want or s == "attach"]
        exp = ["from_files", "attach", "align_molecules", "calculate_exchange_maps", "extrapolate_system"]
        compact = [x for i, x in enumerate(order) if i == 0 or order[i - 1] != x]
        has_loop_skip = any(ev[0] == "loop0" for ev in p.events)
        if has_loop_skip:
            continue
        n += 1
        ctx.ob("R20.4", am, "pipeline on path [%s]: %s" % ("; ".join(norm(t) + "=" + str(o) for t, o in p.conds()), " -> ".join(compact)),
               compact == exp and p.end in ("return", "fall"),
               "load the system, attach the end molecules, align, build the maps, extrapolate - in that order", node=am.node)
    ctx.floor("R20.4", n, 1, "pipeline paths")
    mgr = ctx.repo.cls("Manager")
    # scale -> ExchangeMap.scale_factor
    chain = []
    ok = True
    c1 = [c for c in calls_in(am.node) if call_name(c) == "calculate_exchange_maps"]
    cem = ctx.func("Manager.calculate_exchange_maps")
    iem = ctx.func("Alignment.init_exchange_map")
    emi = ctx.func("ExchangeMap.__init__")
    def forwarded(call, callee, pname, expect):
        b = bind_args(call, callee)
        got = norm(b[pname]) if pname in b else None
        return got == expect, got
    if c1:
        o, got = forwarded(c1[0], cem, [p for p in cem.params if p != "self"][0], p_scale)
        chain.append(("auto_map -> calculate_exchange_maps", got))
        ok &= o
    else:
        ok = False
    c2 = [c for c in calls_in(cem.node) if call_name(c) == "init_exchange_map"]
    if c2:
        o, got = forwarded(c2[0], iem, [p for p in iem.params if p != "self"][0], [p for p in cem.params if p != "self"][0])
        chain.append(("calculate_exchange_maps -> init_exchange_map", got))
        ok &= o
    else:
        ok = False
    c3 = [c for c in calls_in(iem.node) if call_name(c) == "ExchangeMap"]
    sf_param = [p for p in emi.params if "scale" in p]
    if c3 and sf_param:
        o, got = forwarded(c3[0], emi, sf_param[0], [p for p in iem.params if p != "self"][0])
        chain.append(("init_exchange_map -> ExchangeMap", got))
        ok &= o
        b = bind_args(c3[0], emi)
        ps = [p for p in emi.params if p != "self"]
        ok &= norm(b.get(ps[0])).replace("self._start", "self.start") == "self.start" and norm(b.get(ps[1])).replace("self._end", "self.end") == "self.end"
        chain.append(("ExchangeMap(reference, target)", (norm(b.get(ps[0])), norm(b.get(ps[1])))))
    else:
        ok = False
    st = [s for s in walk_no_nested(emi.node) if isinstance(s, ast.Assign) and attr_chain(s.targets[0]) == "self.scale_factor"]
    ok &= bool(st) and bool(sf_param) and norm(st[0].value) == sf_param[0]
    # every map in complete_correspondence gets it (loop over all names)
    ctx.ob("R20.4", am, "scale forwarding chain %s" % chain, bool(ok),
           "the --scale value reaches ExchangeMap.scale_factor unchanged, with start as reference and end as target",
           node=c1[0] if c1 else am.node)
    # output path
    ex = [c for c in calls_in(am.node) if call_name(c) == "extrapolate_system"]
    okp = False
    detail = {}
    if ex and ex[0].args:
        var = norm(ex[0].args[0])
        defs = [s for s in walk_no_nested(am.node) if isinstance(s, ast.Assign) and norm(s.targets[0]) == var]
        pmam = parents_map(am.node)
        split = [s for s in walk_no_nested(am.node) if isinstance(s, ast.Assign) and isinstance(s.value, ast.Call)
                 and norm(s.value.func) == "os.path.split" and isinstance(s.targets[0], ast.Tuple)]
        okp = len(defs) == 2 and bool(split) and norm(split[0].value.args[0]) == p_ref
        if okp:
            folder, base = [norm(e) for e in split[0].targets[0].elts]
            for d in defs:
                g = guards_of(d, pmam)
                is_none_branch = any((norm(t) == "%s is None" % p_out and pol) or (norm(t) == "%s is not None" % p_out and not pol)
                                     for t, pol in g)
                if is_none_branch:
                    from ..pat import expand_single_defs as _xsd204
                    v = _xsd204(am.node, d.value, skip=(folder, base))
                    okd = any(isinstance(v, ast.Call) and norm(v.func) == "os.path.join" and len(v.args) == 2
                              and norm(v.args[0]) == norm(sp_.targets[0].elts[0]) and isinstance(v.args[1], ast.JoinedStr)
                              and _fstring_shape(v.args[1]) == ["mapped_", "{" + norm(sp_.targets[0].elts[1]) + "}"]
                              for sp_ in split if norm(sp_.value.args[0]) == p_ref)
                    okp &= okd
                    detail["default"] = norm(v)
                else:
                    okp &= norm(d.value) == p_out
                    detail["explicit"] = norm(d.value)
    ctx.ob("R20.4", am, ex[0] if ex else "output path", okp,
           "the output goes to the requested path, or to mapped_<input name> beside the input", node=ex[0] if ex else am.node,
           **detail)
    # species triple consumption in auto_map
    loops = [n for n in walk_no_nested(am.node) if isinstance(n, ast.For) and norm(n.iter) == p_species]
    okt = False
    roles = {}
    if loops:
        sp = norm(loops[0].target)
        for c in calls_in(loops[0]):
            if call_name(c) == "read_topology" and c.args:
                roles["name_from"] = norm(c.args[0])
            if call_name(c) == "from_files" and len(c.args) == 2:
                mff = ctx.func("Molecule.from_files")
                b = bind_args(c, mff)
                roles["end_coordinates"] = norm(b.get(mff.params[1]))
                roles["end_topology"] = norm(b.get(mff.params[2]))
            if call_name(c) == "append" and c.args:
                roles["start_topologies"] = norm(c.args[0])
        # locals that merely name an element of the triple are read as that element
        al_ = {norm(s_.targets[0]): norm(s_.value) for s_ in loops[0].body if isinstance(s_, ast.Assign) and isinstance(s_.targets[0], ast.Name)
               and isinstance(s_.value, ast.Subscript) and norm(s_.value.value) == sp}
        roles = {k_: al_.get(v_, v_) for k_, v_ in roles.items()}
        okt = roles == {"name_from": sp + "[0]", "end_coordinates": sp + "[1]", "end_topology": sp + "[2]",
                        "start_topologies": sp + "[0]"}
    ctx.ob("R20.4", am, loops[0] if loops else "species loop", okt,
           "triple = (start topology, end coordinates, end topology): the species name and the system topologies "
           "come from element 0, the end molecule is loaded from elements (1, 2)", node=loops[0] if loops else am.node, roles=roles)
    # Manager.from_files(reference, *start topologies); end attached under the name read from the start topology
    mf = [c for c in calls_in(am.node) if call_name(c) == "from_files" and "Manager" in norm(c.func)]
    okm = bool(mf) and norm(mf[0].args[0]) == p_ref and len(mf[0].args) == 2 and isinstance(mf[0].args[1], ast.Starred)
    if okm:
        lst_ = norm(mf[0].args[1].value)
        okm = bool(loops) and any(call_name(c_) == "append" and norm(c_.func.value) == lst_ for c_ in calls_in(loops[0]))
    att = [s for s in walk_no_nested(am.node) if isinstance(s, ast.Assign) and isinstance(s.targets[0], ast.Attribute)
           and s.targets[0].attr == "end"]
    oka = False
    if att:
        t = att[0].targets[0]
        lp = [a for a in ancestors(att[0], parents_map(am.node)) if isinstance(a, ast.For)]
        if lp and isinstance(lp[0].target, ast.Tuple) and norm(lp[0].iter).endswith(".items()"):
            k, v = [norm(e) for e in lp[0].target.elts]
            oka = norm(t.value).endswith("molecule_correspondence[%s]" % k) and norm(att[0].value) == v
        elif lp and isinstance(lp[0].target, ast.Name):
            # canonical form of the same loop: `for k in D: ... D[k]`
            k = lp[0].target.id
            oka = norm(t.value).endswith("molecule_correspondence[%s]" % k) and norm(att[0].value) == "%s[%s]" % (norm(lp[0].iter), k)
    ctx.ob("R20.4", am, mf[0] if mf else "Manager.from_files", okm and oka,
           "the manager is built from the reference coordinates and the start topologies; each end molecule is "
           "attached to the alignment of the species whose name was read from its start topology",
           node=mf[0] if mf else am.node)
    # main -> auto_map binding
    cm = [c for c in calls_in(main.node) if call_name(c) == "auto_map"]
    okb = False
    got = {}
    if cm:
        b = bind_args(cm[0], am)
        got = {k: norm(v) for k, v in b.items()}
        mols = got.get(p_species)
        argsv = ([b_["V_a"] for _, b_ in pfind(main.node, "V_a = V_p.parse_args()")] + ["args"])[0]
        okb = got.get(p_ref) == "%s.init_coor" % argsv and got.get(p_scale) == "%s.scale" % argsv \
            and got.get(p_out) == "%s.outfile" % argsv and mols is not None
    ctx.ob("R20.4", main, cm[0] if cm else "auto_map call", okb,
           "main passes the reference file, the species list, --scale and --outfile to the matching parameters",
           node=cm[0] if cm else main.node, binding=got)
    # argparse dests
    dests = {}
    for c in calls_in(main.node):
        if call_name(c) == "add_argument":
            d = {k.arg: k.value for k in c.keywords}
            name = norm(d["dest"]).strip("'\"") if "dest" in d else (c.args[0].value if c.args and isinstance(c.args[0], ast.Constant) else "?")
            dests[name] = {"nargs": norm(d.get("nargs")) if "nargs" in d else None,
                           "type": norm(d.get("type")) if "type" in d else None,
                           "default": norm(d.get("default")) if "default" in d else None,
                           "action": norm(d.get("action")) if "action" in d else None}
    okd = dests.get("mol", {}).get("nargs") == "3" and dests.get("mol", {}).get("action") == "'append'" \
        and dests.get("scale", {}).get("type") == "float" and dests.get("scale", {}).get("default") == "0.5" \
        and "outfile" in dests and "init_coor" in dests and "auto" in dests and "exclude" in dests
    ctx.ob("R20.4", main, "argparse options %s" % sorted(dests), okd,
           "--mol takes three files per species (appended), --scale is a float defaulting to the library's 0.5",
           node=main.node, options=dests)
    # discovered triple layout
    lst = [s for s in walk_no_nested(main.node) if isinstance(s, ast.List)
           and len(s.elts) == 3 and all(isinstance(e, ast.Subscript) and isinstance(e.slice, ast.Constant) for e in s.elts)]
    okl = bool(lst) and [e.slice.value for e in lst[0].elts] == ["top_CG", "coor_AA", "top_AA"]
    if not lst:
        ctx.ob("R20.4", main, "discovered triple", True, "a discovered species is not listed through a literal [rec['top_CG'], rec['coor_AA'], "
               "rec['top_AA']]; the order of the triple is not decided on this tree", undecided=True, node=main.node)
    else:
        ctx.ob("R20.4", main, lst[0] if lst else "discovered triple", okl,
               "a discovered species is listed as (start topology, end coordinates, end topology), the order auto_map consumes",
               node=lst[0] if lst else main.node)
    # roles of the record keys in sort_molecules
    okr = True
    facts = {}
    for s in walk_no_nested(sm.node):
        if isinstance(s, ast.Assign) and isinstance(s.value, ast.Dict) and s.value.keys and isinstance(s.value.keys[0], ast.Constant) \
                and s.value.keys[0].value == "top_CG":
            # in the else branch of the try around add_molecule_top
            facts["top_CG"] = norm(s.value.values[0])
    unread_trial = False
    for c in calls_in(sm.node):
        if call_name(c) == "from_files" and len(c.args) == 2:
            facts["coor_AA_tested_with"] = (norm(c.args[0]), norm(c.args[1]))
            keyed = isinstance(c.args[1], ast.Subscript) and isinstance(c.args[1].slice, ast.Constant)
            okr &= keyed and c.args[1].slice.value == "top_AA"
            unread_trial = unread_trial or not keyed        # the topology of the trial is not read off the record by a literal key
    okr &= "top_CG" in facts and "coor_AA_tested_with" in facts
    nested_trial = any(call_name(c) == "from_files" for n_ in ast.walk(sm.node) if isinstance(n_, ast.FunctionDef) and n_ is not sm.node
                       for c in ast.walk(n_) if isinstance(c, ast.Call)) or \
        any(call_name(c) == "from_files" for h_ in ctx.with_helpers(sm)[1:] for c in ast.walk(h_.node) if isinstance(c, ast.Call))
    rec_dict = [s for s in walk_no_nested(sm.node) if isinstance(s, ast.Assign) and isinstance(s.value, ast.Dict) and s.value.keys
                and isinstance(s.value.keys[0], ast.Constant) and s.value.keys[0].value == "top_CG"]
    if not okr and (not rec_dict or unread_trial):
        # the per-species record is not a dict literal {"top_CG": ...} (per-role tables, a small class ...)
        ctx.ob("R20.4", sm, "record roles", True, "the per-species record is not built as a dict literal keyed 'top_CG'; which file plays "
               "which role is not decided on this tree", undecided=True, node=sm.node)
    elif not okr and nested_trial:
        ctx.ob("R20.4", sm, "record roles", True, "the trial load is done by a local helper; which files it is given is not decided on this tree",
               undecided=True, node=sm.node)
    else:
        _record_roles_ob(ctx, sm, facts, okr)


def _record_roles_ob(ctx, sm, facts, okr):
    ctx.ob("R20.4", sm, "record roles %s" % facts, okr,
           "top_CG is the topology the reference system accepted; coor_AA is a coordinate file that loads with top_AA",
           node=sm.node)


def _fstring_shape(js: ast.JoinedStr) -> List[str]:
    out = []
    for v in js.values:
        if isinstance(v, ast.Constant):
            out.append(v.value)
        elif isinstance(v, ast.FormattedValue):
            out.append("{" + norm(v.value) + "}")
    return out
