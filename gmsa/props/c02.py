"""C02 - exchange map commutes with rigid motion of the reference.

  R2.1 frames are recomputed from the argument on every successful call, before restoring
  R2.2 on the non-degenerate path the frame is built from point differences, norms and cross products only
       (rotation-equivariant); lab-frame completions are confined to the collinear path
  R2.3 degenerate references keep what the property says they keep: orthonormal frame with the first vector
       along the axis on the collinear path (R1.1), the bond in the axis slot for a two-atom reference,
       the atom as origin for a one-atom reference
  plus R1.1/R1.2/R1.3 (orthonormal frame, transpose pair, single scale) which make the stored projections
  rotation-invariant scalars.
"""
from ..core import Ctx
from . import frames, exmap

SPEC = {
    "explanation": (
        "map(R ref + t) = R map(ref) + t in exact arithmetic because (R2.1) __call__ recomputes every frame "
        "from its argument - dominance of the recomputation over restoration and return, unconditional, fed with "
        "the parameter - and (R2.2) each frame vector on the generic path is typed rotation-equivariant "
        "(differences of points, normalisation, cross products), the origin is a point of the argument, and the "
        "stored projections are scalars computed once (R1.2/R1.3).  Degenerate cases are typed separately "
        "(R2.3): the collinear path still yields an orthonormal frame whose first vector is the axis (so "
        "distance, axial coordinate and distance from the axis are kept); for references of one or two atoms the "
        "sequence of points handed to the frame builder is evaluated abstractly (molecule point / random point "
        "per slot) and the slot that defines the first frame vector - read off the frame builder itself - must "
        "hold the second atom.  The 1e-8 tolerance and coincident atoms are not decided."),
    "exhaustive": True,
    "trusted_base": ["np.insert/np.append/np.concatenate sequence semantics as modelled",
                     "cross products and norms commute with proper rotations"],
    "assumptions": ["exact arithmetic", "proper rotations (det +1)"],
}


def run(ctx: Ctx):
    ctx.attempt("R2.1", lambda: exmap.r2_1(ctx))
    ctx.attempt("R2.2", lambda: frames.equivariant_on_generic_path(ctx, "R2.2"))
    ctx.attempt("R2.3", lambda: exmap.r2_3(ctx))
    ctx.attempt("R1.1", lambda: frames.orthonormal(ctx, "R1.1"))
    ctx.attempt("R1.1h", lambda: frames.right_handed_and_anchored(ctx, "R1.1h", "R1.1a"))
    ctx.attempt("R1.2", lambda: exmap.r1_2(ctx))
    ctx.attempt("R1.3", lambda: exmap.r1_3(ctx))
    ctx.attempt("R1.4", lambda: exmap.r1_4(ctx))
