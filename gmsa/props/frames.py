"""Rules on the local-frame builder (calcule_base), shared by C01, C02, C03 and C17."""
from __future__ import annotations

import ast
from typing import List, Optional

from ..cfg import walk_no_nested, call_name
from ..core import AnalysisError, Ctx, Func, norm
from ..vec import analyse_frame_function, FrameResult, Vc, Pt


def frame_func(ctx: Ctx) -> Func:
    f = ctx.repo.func("calcule_base", required=False)
    if f is None:
        # semantic signature: function returning ((a, b, c), origin)
        for g in ctx.repo.funcs.values():
            for n in ast.walk(g.node):
                if isinstance(n, ast.Return) and isinstance(n.value, ast.Tuple) and len(n.value.elts) == 2 \
                        and isinstance(n.value.elts[0], ast.Tuple) and len(n.value.elts[0].elts) == 3 \
                        and g.module.name.endswith("_auxilliary"):
                    f = g
    if f is None:
        raise AnalysisError("frame builder (calcule_base) not found")
    ctx.seen(f)
    return f


_cache = {}


def results(ctx: Ctx) -> List[FrameResult]:
    f = frame_func(ctx)
    key = (ctx.repo.root, f.qual)
    if key not in _cache:
        _cache[key] = analyse_frame_function(f)
    return _cache[key]


def _plabel(r: FrameResult) -> str:
    return "collinear path [%s]" % "; ".join(r.degenerate_tests) if r.degenerate else "generic path"


def orthonormal(ctx: Ctx, rule: str):
    """Every returned frame vector is unit and the three are pairwise perpendicular, on every path."""
    f = frame_func(ctx)
    rs = results(ctx)
    n_paths = 0
    for r in rs:
        if r.frame is None:
            ctx.ob(rule, f, "return on %s" % _plabel(r), False,
                   "the function returns ((e1, e2, e3), origin) with three vectors -- shape not recognised on this path",
                   node=r.ret_node or f.node)
            continue
        n_paths += 1
        names = ["e1", "e2", "e3"]
        for nm, v in zip(names, r.frame):
            st, why = r.unit_status(v)
            ctx.ob(rule, f, "%s: %s = %s" % (_plabel(r), nm, v.origin), st is True,
                   "frame vector is a unit vector by construction"
                   + ("" if st else (" -- REFUTED: " if st is False else " -- not established: ") + why),
                   node=r.ret_node, status=why)
        for (i, j) in ((0, 1), (0, 2), (1, 2)):
            st, why = r.perp_status(r.frame[i], r.frame[j])
            ctx.ob(rule, f, "%s: %s . %s" % (_plabel(r), names[i], names[j]), st is True,
                   "frame vectors are perpendicular by construction"
                   + ("" if st else (" -- REFUTED: " if st is False else " -- not established: ") + why),
                   node=r.ret_node, status=why)
    ctx.floor(rule, n_paths, 2, "paths of the frame builder with a recognised frame")
    lab_axis_choice(ctx, rule)


def lab_axis_choice(ctx: Ctx, rule: str):
    """On the collinear path a lab axis may complete the frame only if it cannot be parallel to the first
    vector: accepted idiom = the axis of the smallest *absolute* component."""
    f = frame_func(ctx)
    for r in results(ctx):
        if not r.degenerate or r.frame is None:
            continue
        for v in r.frame:
            lp = getattr(v, "lab_partner", None)
            if lp is None or lp.lab_index is None:
                continue
            idx = lp.lab_index
            from ..pat import single_defs as _sdf
            sdf = _sdf(f.node)
            if isinstance(idx, ast.Name) and idx.id in sdf:
                idx = sdf[idx.id]
            txt = norm(idx).replace(" ", "")
            # which vector is measured, which vector is crossed with the lab axis
            measured = None
            for c_ in ast.walk(idx):
                if isinstance(c_, ast.Call) and call_name(c_) in ("abs", "fabs", "absolute") and c_.args:
                    measured = c_.args[0]
            # the vector crossed with the lab axis and the vector whose components chose the axis, both by identity in the
            # interpretation (names may be reused): they must be the same vector (or differences of the same two points)
            crossed = None
            for vid in (v.cross or ()):
                w_ = r.vecs.get(vid)
                if w_ is not None and w_ is not lp:
                    crossed = w_
            meas = getattr(lp, "lab_measured", None)
            if meas is not None and crossed is not None and meas is not crossed and not (meas.dir is not None and meas.dir == crossed.dir):
                ctx.ob(rule, f, "collinear path: lab axis index %s" % norm(idx), False,
                       "the completing lab axis must not be parallel to the vector it is crossed with (%s) -- the axis is chosen "
                       "from the components of another vector (%s): on this path that vector is parallel to the first one "
                       "or ZERO (two coincident points), and for a zero vector the index is 0 whatever the first vector is; the "
                       "cross product can then vanish and its normalisation is NaN" % (crossed.origin, meas.origin),
                       node=idx)
                continue
            ok_forms = ("np.argmin(np.abs(", "np.abs(", "np.argmin(abs(", "np.argmin(np.fabs(", "np.argsort(np.abs(")
            good = txt.startswith(ok_forms) and ("argmin" in txt or txt.endswith("[0]"))
            bad = txt.startswith(("np.argmin(", "np.argmax(")) and "abs" not in txt or "argmax" in txt
            if good:
                ctx.ob(rule, f, "collinear path: lab axis index %s" % norm(idx), True,
                       "the completing lab axis is the one along which the first vector has its smallest absolute "
                       "component (|component| <= 1/sqrt(3) < 1, so it is never parallel to it)", node=idx)
            elif bad:
                ctx.ob(rule, f, "collinear path: lab axis index %s" % norm(idx), False,
                       "the completing lab axis must not be parallel to the first vector -- `%s` can select the axis the "
                       "first vector lies on (signed minimum / maximum), the cross product is then zero and its "
                       "normalisation NaN" % norm(idx), node=idx)
            else:
                ctx.ob(rule, f, "collinear path: lab axis index %s" % norm(idx), True,
                       "choice of the completing lab axis not in a recognised form; non-parallelism not decided",
                       undecided=True, node=idx)


def right_handed_and_anchored(ctx: Ctx, rule_h: str, rule_a: str):
    f = frame_func(ctx)
    for r in results(ctx):
        if r.frame is None:
            continue
        e = r.frame
        ids = [v.id for v in e]
        ok = False
        for k in range(3):
            a, b, c = e[k], e[(k + 1) % 3], e[(k + 2) % 3]
            # c = a x b  (cyclic order) makes (e1, e2, e3) right-handed
            if c.cross == (a.id, b.id):
                ok = True
        ctx.ob(rule_h, f, "%s: (%s)" % (_plabel(r), ", ".join(v.origin for v in e)), ok,
               "one frame vector is the cross product of the other two in cyclic order (right-handed triple)",
               node=r.ret_node)
        # first vector along last point - first point; origin = first point
        first, last = None, None
        d = e[0].dir
        okd = bool(d) and d[0] == "diff"
        if okd:
            okd = d[1].endswith("[2]") and d[2].endswith("[0]") and e[0].unit
        ctx.ob(rule_a, f, "%s: e1 = %s" % (_plabel(r), e[0].origin), bool(okd),
               "the first frame vector is the normalised difference (third point - first point)", node=r.ret_node,
               direction=d)
        oko = isinstance(r.origin, Pt) and r.origin.index == 0
        ctx.ob(rule_a, f, "%s: origin = %s" % (_plabel(r), r.origin), oko,
               "the frame's origin is the first point", node=r.ret_node)
        # third vector normal to the plane of the points: cross of e1 with (second point - first point)
        if not r.degenerate:
            v3 = e[2]
            okn = False
            if v3.cross:
                ops = [r.vecs.get(i) for i in v3.cross]
                okn = any(o is not None and o.id == e[0].id for o in ops) and \
                    any(o is not None and o.dir and o.dir[0] == "diff" and o.dir[1].endswith("[1]") and o.dir[2].endswith("[0]")
                        for o in ops)
                # handedness of the plane normal: e1 x (p1 - p0)
                okn = okn and r.vecs.get(v3.cross[0]) is not None and r.vecs[v3.cross[0]].id == e[0].id
            ctx.ob(rule_a, f, "generic path: e3 = %s" % v3.origin, okn,
                   "the third vector is the normalised cross product e1 x (second point - first point)", node=r.ret_node)


def inputs_untouched(ctx: Ctx, rule: str):
    f = frame_func(ctx)
    bad = []
    for r in results(ctx):
        bad += r.inplace_bad
    seen = set()
    n = 0
    for st, why in bad:
        if id(st) in seen:
            continue
        seen.add(id(st))
        ctx.ob(rule, f, st, False, "in-place operators may only act on freshly allocated arrays -- " + why, node=st)
    # enumerate the in-place statements that are fine, for the record
    for st in ast.walk(f.node):
        if isinstance(st, ast.AugAssign) and id(st) not in seen:
            n += 1
            ctx.ob(rule, f, st, True, "in-place operator on a freshly allocated array", node=st)
    if not n and not bad:
        ctx.ob(rule, f, "no in-place operator", True, "the function does not modify arrays in place", node=f.node)


def equivariant_on_generic_path(ctx: Ctx, rule: str):
    f = frame_func(ctx)
    n = 0
    for r in results(ctx):
        if r.frame is None:
            continue
        if r.degenerate:
            lab = [v for v in r.frame if not v.eq]
            if lab and not r.degenerate_exact:
                ctx.ob(rule, f, "collinear path [%s]" % "; ".join(r.degenerate_tests), False,
                       "a lab-frame completion is used only where the geometry leaves the frame undetermined, i.e. for an "
                       "EXACTLY vanishing cross product -- this test is a tolerance: nearly collinear anchors, whose frame is "
                       "fully determined, would get an orientation-dependent frame", node=r.ret_node)
                continue
            ctx.ob(rule, f, "collinear path [%s]" % "; ".join(r.degenerate_tests), True,
                   "lab-frame / literal completions are confined to the path guarded by the vanishing cross product",
                   node=r.ret_node, vectors=[repr(v) for v in r.frame])
            continue
        n += 1
        bad = [v for v in r.frame if not v.eq]
        ctx.ob(rule, f, "generic path: (%s)" % ", ".join(v.origin for v in r.frame), not bad,
               "on the non-degenerate path every frame vector is built from point differences, norms and cross "
               "products only (rotation-equivariant)"
               + ("" if not bad else " -- lab-frame dependent: %s" % [v.origin for v in bad]), node=r.ret_node)
    ctx.floor(rule, n, 1, "non-degenerate paths")


def exact_degeneracy_test(ctx: Ctx, rule: str):
    """The completion branch (a lab axis instead of the plane normal) is entered only when the cross product vanishes
    EXACTLY: under a tolerance, triples that are not collinear take that branch and their third vector is not normal
    to the plane of the points."""
    f = frame_func(ctx)
    for r in results(ctx):
        if r.frame is None or not r.degenerate:
            continue
        lab = [v for v in r.frame if not v.eq]
        if lab and not r.degenerate_exact:
            ctx.ob(rule, f, "collinear path [%s]" % "; ".join(r.degenerate_tests), False,
                   "the third vector is normal to the plane of the points whenever they span a plane: the completion by a lab "
                   "axis is reserved for an exactly vanishing cross product -- this test is a tolerance, so some non-collinear "
                   "triples (short edges, small angles) get a third vector that is not the plane normal", node=r.ret_node)
        else:
            ctx.ob(rule, f, "collinear path [%s]" % "; ".join(r.degenerate_tests), True,
                   "the completion branch is guarded by the exactly vanishing cross product", node=r.ret_node)
