"""C05 - system extrapolation conserves molecules, order, numbering, box and title.

R5.1 no file before the maps exist: both SystemError sites and the exchange-map test dominate the opening of the output
R5.2 single pass in file order: the loop iterates the system directly; species filtering is a `continue` guarded by
     membership in the complete-correspondence mapping; the map applied is looked up under the same key that was tested
R5.7 the table of complete species is recomputed on every access (no stored copy that goes stale)
R5.3 every atom exactly once: all paths through the inner body write exactly one line built from that atom
R5.4 running counter: starts at 1 outside both loops, stored into the atom-number slot before being incremented,
     incremented exactly once per written line, never reset
R5.5 title and box forwarded before the first write (the header is emitted by the first write)
R5.6 residue numbers (C04/R4.5) and frames for small references (C02/R2.3)
R5.5 also: box line written completely (C13/R13.4); title stored, written and read unchanged (C13/R13.6)
R11.1/R11.3/R11.8 (shared with C11): the system that is iterated lists every instance, in file order; overlapping candidates are
     resolved greedily, not by a mask over the gaps between neighbouring candidates
R5.8 no table kept between calls by extrapolate_system / complete_correspondence unless keyed by everything its entries are computed from
"""
from __future__ import annotations

import ast
from typing import Dict, List, Optional

from ..cfg import (CFG, call_name, calls_in, walk_no_nested, parents_map, guards_of, attr_chain, enum_paths,
                   const_int, ancestors)
from ..core import AnalysisError, Ctx, Func, norm
from ..util import branch_raises
from . import exmap

SPEC = {
    "explanation": (
        "CFG / dataflow rules on Manager.extrapolate_system.  Dominance: the two raising pre-flight checks (empty "
        "correspondence, a species without exchange map) dominate the call that opens the output file, so a "
        "refused request creates no file.  The molecule loop iterates the System itself (file order by C11) and "
        "skips a species by `continue` under a membership test on the same mapping and key that the map lookup "
        "uses.  The inner loop body is enumerated path by path: exactly one writeline of the line built from the "
        "current atom, the running counter stored into slot 3 (atom number) before its single increment; the "
        "counter is initialised to 1 outside both loops and never reassigned.  Title and box are assigned from "
        "the input system before the first write.  Which atoms a written molecule has, and in which order, is the "
        "exchange map's result (C04/R4.5); that the system yields each instance once in file order is C11.  "
        "Numeric agreement to the precision of the coordinate format is not decided."),
    "exhaustive": True,
    "trusted_base": ["GroFile emits title, count and box from its comment/box_matrix/_current_atom fields (C13, C14)",
                     "AtomGro.gro_line() lists (resid, resname, name, atomid, x, y, z[, v])"],
    "assumptions": [],
}


def run(ctx: Ctx):
    f = ctx.func("Manager.extrapolate_system")
    cfg = CFG(f.node)
    dom = cfg.dominators()
    pm = parents_map(f.node)
    out_param = [p for p in f.params if p != "self"][0]
    # ------------------------------------------------------------------ R5.1
    opens = [c for c in calls_in(f.node) if call_name(c) in ("open_coordinate_file", "open", "GroFile")]
    if not opens:
        raise AnalysisError("R5.1: the call that opens the output file was not found in extrapolate_system")
    op = opens[0]
    op_node = cfg.node_containing(op)
    okm = any(norm(a) == out_param for a in op.args) and any(isinstance(a, ast.Constant) and a.value == "w" for a in op.args) \
        or any(k.arg == "mode" and isinstance(k.value, ast.Constant) and k.value.value == "w" for k in op.keywords)
    ctx.attempt("R5.1", lambda: ctx.ob("R5.1", f, op, bool(okm), "the output is opened for writing at the requested path", node=op))
    raises = [n for n in walk_no_nested(f.node) if isinstance(n, ast.Raise) and "SystemError" in norm(n)]
    n_r = 0
    for r in raises:
        # the test guarding the raise dominates the open
        gs = [a for a in ancestors(r, pm) if isinstance(a, ast.If)]
        # a check inside a loop is reached whenever the loop is: the outermost enclosing loop (or the test itself)
        # must dominate the opening
        outer = [a for a in ancestors(r, pm) if isinstance(a, (ast.For, ast.While))]
        anchor = outer[-1] if outer else (gs[0] if gs else None)
        ok = bool(gs) and anchor is not None and cfg.node_of(anchor).id in dom[op_node.id] and r.lineno < op.lineno
        n_r += 1
        ctx.ob("R5.1", f, "raise guarded by `%s`" % (norm(gs[0].test) if gs else "?"), ok,
               "this pre-flight check is evaluated on every path that reaches the opening of the output file", node=r)
    ctx.floor("R5.1", n_r, 2, "pre-flight raises")
    # the two checks: nothing to map / a map missing for some complete species
    cc = None
    for s in f.node.body:
        if isinstance(s, ast.Assign) and norm(s.value) == "self.complete_correspondence":
            cc = norm(s.targets[0])
    cc = cc or "self.complete_correspondence"
    t_empty = any(isinstance(n, ast.If) and norm(n.test) == "not %s" % cc and branch_raises(n.body) for n in walk_no_nested(f.node))
    chk_loops = [n for n in walk_no_nested(f.node) if isinstance(n, ast.For) and norm(n.iter) in ("%s.values()" % cc, "%s.items()" % cc, cc)
                 and any(isinstance(x, ast.Raise) for x in ast.walk(n))]
    t_maps = False
    if chk_loops:
        ifs = [n for n in walk_no_nested(chk_loops[0]) if isinstance(n, ast.If) and branch_raises(n.body)
               and isinstance(n.test, ast.Compare) and isinstance(n.test.ops[0], ast.Is) and norm(n.test.left).endswith(".exchange_map")
               and norm(n.test.comparators[0]) == "None"]
        t_maps = bool(ifs) and cfg.node_of(chk_loops[0]).id in dom[op_node.id]
    if not chk_loops:
        # the same check as one expression: `if any(a.exchange_map is None for a in cc.values()): raise`
        for n in walk_no_nested(f.node):
            if isinstance(n, ast.If) and branch_raises(n.body) and isinstance(n.test, ast.Call) and call_name(n.test) == "any" \
                    and len(n.test.args) == 1 and isinstance(n.test.args[0], (ast.GeneratorExp, ast.ListComp)):
                g_ = n.test.args[0]
                e_ = g_.elt
                if len(g_.generators) == 1 and not g_.generators[0].ifs and norm(g_.generators[0].iter) in ("%s.values()" % cc,) \
                        and isinstance(e_, ast.Compare) and isinstance(e_.ops[0], ast.Is) and norm(e_.comparators[0]) == "None" \
                        and norm(e_.left) == "%s.exchange_map" % norm(g_.generators[0].target):
                    t_maps = cfg.node_of(n).id in dom[op_node.id]
                    chk_loops = [n]
    ctx.attempt("R5.1", lambda: ctx.ob("R5.1", f, "pre-flight: `not %s` and `exchange_map is None` for every complete species" % cc, t_empty and t_maps,
           "extrapolating with nothing to map, or before every species' exchange map exists, raises before any file is created",
           node=chk_loops[0] if chk_loops else f.node))


    from ..util import persistent_state
    ctx.attempt("R5.8", lambda: persistent_state(ctx, "R5.8", [f_ for f_ in (ctx.repo.func(q_, required=False) for q_ in ('Manager.extrapolate_system', 'Manager.complete_correspondence@get', 'Manager.calculate_exchange_maps')) if f_ is not None], "extrapolating a system"))

    ctx.attempt("_r5_7", lambda: _r5_7(ctx))
    res_ = _r5_2_to_4(ctx, f, cfg, dom, pm, op, cc)
    # ------------------------------------------------------------------ R5.5
    withs = [n for n in walk_no_nested(f.node) if isinstance(n, ast.With) and any(op is x for i in n.items for x in ast.walk(i.context_expr))]
    scope = withs[0] if withs else f.node
    handle = norm(withs[0].items[0].optional_vars) if withs and withs[0].items[0].optional_vars is not None else None
    ml = res_
    if ml is None:
        # the first write: the first statement of the block that uses the handle other than storing an attribute of it
        uses = [s for s in (scope.body if withs else []) if not (isinstance(s, ast.Assign) and isinstance(s.targets[0], ast.Attribute)
                                                                  and norm(s.targets[0].value) == handle)
                and any(isinstance(x, ast.Name) and x.id == handle for x in ast.walk(s))]
        ml = uses[0] if uses else scope
    first_write = cfg.node_of(ml)
    for attr, src in (("comment", "self.system.system_gro.comment_line"), ("box_matrix", "self.system.system_gro.box_matrix")):
        st = [s for s in walk_no_nested(scope) if isinstance(s, ast.Assign) and norm(s.targets[0]) == "%s.%s" % (handle, attr)]
        from ..pat import expand_single_defs as _xsd5
        ok = len(st) == 1 and norm(_xsd5(f.node, st[0].value)) == src and cfg.node_of(st[0]).id in dom[first_write.id] \
            and not guards_of(st[0], pm)
        ctx.ob("R5.5", f, st[0] if st else "%s forwarding" % attr, ok,
               "the output's %s is taken from the input system before the first line is written" % ("title" if attr == "comment" else "box"),
               node=st[0] if st else scope)
    # the handle is closed by the with-statement (count back-fill and box line are written on close)
    ctx.attempt("R5.5", lambda: ctx.ob("R5.5", f, "with-statement around the writer", bool(withs),
           "the writer is closed on leaving the block, which writes the atom count and the box line", node=scope))

    # ------------------------------------------------------------------ R5.6
    ctx.attempt("R5.6", lambda: exmap.r2_3(ctx, rule="R5.6"))
    # residue numbers of each written molecule are those of its input molecule (C04/R4.5)
    em = exmap.EM(ctx)
    fcall = em.call
    cfgc = CFG(fcall.node)
    domc = cfgc.dominators()
    argp = [p_ for p_ in fcall.params if p_ != "self"][0]
    rs = [s_ for s_ in walk_no_nested(fcall.node) if isinstance(s_, ast.Assign) and isinstance(s_.targets[0], ast.Attribute)
          and s_.targets[0].attr == "resids"]
    frets = [n_ for n_ in walk_no_nested(fcall.node) if isinstance(n_, ast.Return)]
    okr = bool(rs) and bool(frets) and norm(rs[0].value) == "%s.resids" % argp and all(
        cfgc.node_of(rs[0]).id in domc[cfgc.node_of(r_).id] and norm(r_.value) == norm(rs[0].targets[0].value) for r_ in frets)
    ctx.attempt("R5.6", lambda: ctx.ob("R5.6", fcall, rs[0] if rs else "residue numbers", okr,
           "every mapped molecule carries exactly the residue numbers of its input molecule (copied, not renumbered)",
           node=rs[0] if rs else fcall.node))


    # the box line is written completely (C13/R13.4)
    from . import c13
    ctx.attempt("R5.5", lambda: c13.r13_4(ctx, rule="R5.5"))
    # the title travels unchanged through the writer's setter and header (C13/R13.6)
    ctx.attempt("R5.5", lambda: c13.r13_6(ctx, rule="R5.5"))
    # the molecules iterated are the file's instances, all of them, in file order (C11/R11.1, R11.3)
    from . import c11
    ctx.attempt("R11.1", lambda: c11.r11_1_2(ctx))
    ctx.attempt("R11.3", lambda: c11.r11_3(ctx))
    ctx.attempt("R11.8", lambda: c11.r11_8(ctx))



def _r5_7(ctx: Ctx, rule: str = "R5.7"):
    """The table of species with both resolutions attached is a *view* of the current state: the property that hands it
    out recomputes it on every access.  A stored copy goes stale as soon as an end molecule is attached by any route
    that does not clear it (the setter of Alignment.end is public), and the next extrapolation silently leaves that
    species out."""
    g = ctx.func("Manager.complete_correspondence@get")
    stores = [s_ for s_ in ast.walk(g.node) if isinstance(s_, (ast.Assign, ast.AugAssign, ast.AnnAssign))
              for t_ in (s_.targets if isinstance(s_, ast.Assign) else [s_.target])
              if isinstance(t_, ast.Attribute) and norm(t_.value) == "self"]
    rets = [r_ for r_ in walk_no_nested(g.node) if isinstance(r_, ast.Return) and r_.value is not None]
    cached_ret = [r_ for r_ in rets if isinstance(r_.value, ast.Attribute) and norm(r_.value.value) == "self"
                  and r_.value.attr != "molecule_correspondence"]
    deco = [norm(d_) for d_ in g.node.decorator_list]
    memo = [d_ for d_ in deco if any(k_ in d_ for k_ in ("cache", "lru", "memo"))]
    bad = stores or cached_ret or memo
    ctx.ob(rule, g, (stores or cached_ret or [g.node])[0] if not memo else "decorator %s" % memo[0], not bad,
           "the species with both resolutions attached are recomputed from the alignments on every access"
           + ("" if not bad else " -- the table is kept in `%s`: an end molecule attached afterwards (Alignment.end is assignable) "
              "is not seen by the next extrapolation" % (norm(stores[0].targets[0] if stores and isinstance(stores[0], ast.Assign) else
                                                              (cached_ret[0].value if cached_ret else memo[0])))),
           node=(stores or cached_ret or [g.node])[0])
    src_ok = any(isinstance(x_, ast.Attribute) and x_.attr == "molecule_correspondence" for x_ in ast.walk(g.node))
    ctx.ob(rule, g, "source of the table", src_ok, "the table is derived from molecule_correspondence (start and end both set)", node=g.node)


def _r5_2_to_4(ctx: Ctx, f, cfg, dom, pm, op, cc):
    # ------------------------------------------------------------------ R5.2
    withs = [n for n in walk_no_nested(f.node) if isinstance(n, ast.With) and any(op is x for i in n.items for x in ast.walk(i.context_expr))]
    scope = withs[0] if withs else f.node
    handle = norm(withs[0].items[0].optional_vars) if withs and withs[0].items[0].optional_vars is not None else None
    mol_loops = [n for n in walk_no_nested(scope) if isinstance(n, ast.For) and norm(n.iter) in ("self.system", "self.system[:]")]
    if not mol_loops:
        other = [n for n in walk_no_nested(scope) if isinstance(n, (ast.For, ast.While))]
        in_helper = [h_ for h_ in ctx.with_helpers(f)[1:] if any(isinstance(n_, ast.For) and norm(n_.iter) in ("self.system", "self.system[:]")
                                                                 for n_ in walk_no_nested(h_.node))]
        if in_helper:
            ctx.ob("R5.2", f, "molecule loop", True, "the loop over the system lives in a helper that could not be spliced in (`%s`, a "
                   "generator consumed through an adaptor); order, counter and per-atom writes are not decided on this tree" % in_helper[0].name,
                   undecided=True, node=scope)
        elif other:
            ctx.ob("R5.2", f, "molecule loop", False, "the molecules are visited by iterating the system itself (file order) "
                   "-- loop `for mol in self.system` not found", node=scope)
        else:
            ctx.ob("R5.2", f, "molecule loop", True, "the writing pass is not a loop in this function (it was moved elsewhere); "
                   "order, counter and per-atom writes are not decided on this tree", undecided=True, node=scope)
        return
    ml = mol_loops[0]
    mol = norm(ml.target)
    ctx.ob("R5.2", f, ml, True, "one pass over the system's molecules in file order (no sorting, grouping or per-species loop)", node=ml)
    # skip test and lookup key
    maps = [c for c in calls_in(ml) if isinstance(c.func, ast.Attribute) and c.func.attr == "exchange_map"]
    if not maps:
        ctx.ob("R5.2", f, "map application", False, "each mapped molecule is produced by the species' exchange map -- call not found", node=ml)
        return
    mc = maps[0]
    key = norm(mc.func.value.slice) if isinstance(mc.func.value, ast.Subscript) else None
    table = norm(mc.func.value.value) if isinstance(mc.func.value, ast.Subscript) else None
    arg_ok = len(mc.args) == 1 and norm(mc.args[0]) == mol
    from ..pat import single_defs
    from ..cfg import cguards_of, canon_test
    sd = single_defs(f.node)
    keyv = norm(sd[key]) if key in sd else None
    key_is_name = (keyv == "%s.name" % mol) or key == "%s.name" % mol
    pm_ = parents_map(ml)
    want = canon_test(ast.parse("%s in %s" % (key, table), mode="eval").body, True) if key and table else None
    gs = cguards_of(mc, pm_)
    ok = arg_ok and key_is_name and table == cc and want is not None and gs == [want]
    if not ok and isinstance(mc.func.value, ast.Name) and mc.func.value.id in sd:
        # the same lookup with dict.get: `a = table.get(mol.name)` ... `if a is None: continue` ... `a.exchange_map(mol)`
        g_ = sd[mc.func.value.id]
        if isinstance(g_, ast.Call) and call_name(g_) == "get" and isinstance(g_.func, ast.Attribute) and len(g_.args) == 1:
            table = norm(g_.func.value)
            key = norm(g_.args[0])
            keyv = norm(sd[key]) if key in sd else None
            key_is_name = (keyv == "%s.name" % mol) or key == "%s.name" % mol
            want = canon_test(ast.parse("%s is None" % mc.func.value.id, mode="eval").body, False)
            ok = arg_ok and key_is_name and table == cc and gs == [want]
    ctx.ob("R5.2", f, mc, ok,
           "a molecule is skipped exactly when its species name is not in the complete correspondence, and otherwise "
           "mapped with the exchange map stored under that same name, applied to that molecule", node=mc,
           key=key, key_value=keyv, table=table, guards=[list(g) for g in gs])
    # no other way out of the molecule loop body (the species filter is the only thing that skips a molecule)
    esc = [n for n in walk_no_nested(ml) if isinstance(n, (ast.Break, ast.Return, ast.Continue))]
    ctx.ob("R5.2", f, "other exits of the molecule loop: %d" % len(esc), not esc,
           "no molecule of a mapped species is dropped (the species filter is the only skip)", node=esc[0] if esc else ml)

    # ------------------------------------------------------------------ R5.3 / R5.4
    new_mol = None
    for s in walk_no_nested(ml):
        if isinstance(s, ast.Assign) and s.value is mc:
            new_mol = norm(s.targets[0])
    if new_mol is None:
        new_mol = norm(mc)            # the map's result is iterated directly
    atom_loops = [n for n in walk_no_nested(ml) if isinstance(n, ast.For) and n is not ml and norm(n.iter) == new_mol]
    if not atom_loops:
        ctx.ob("R5.3", f, "atom loop", False, "every atom of the mapped molecule is written -- loop over the map's result not found", node=ml)
        return
    al = atom_loops[0]
    atom = norm(al.target)
    counter = None
    counter_iter = None
    paths = enum_paths(al.body)
    for i, p in enumerate(paths):
        st = p.stmts()
        writes = [s for s in st if isinstance(s, ast.Expr) and isinstance(s.value, ast.Call) and call_name(s.value) == "writeline"
                  and norm(s.value.func.value) == handle]
        ok3 = len(writes) == 1 and p.end == "fall"
        line_ok = False
        slot_store = None
        if ok3:
            lv = norm(writes[0].value.args[0])
            ldef = [s for s in st if isinstance(s, ast.Assign) and norm(s.targets[0]) == lv]
            line_ok = bool(ldef) and norm(ldef[0].value) == "%s.gro_line()" % atom
            slots = [s for s in st if isinstance(s, ast.Assign) and isinstance(s.targets[0], ast.Subscript) and norm(s.targets[0].value) == lv]
            if len(slots) == 1 and const_int(slots[0].targets[0].slice) == 3:
                slot_store = slots[0]
                counter = norm(slot_store.value)
                if isinstance(slot_store.value, ast.Call) and call_name(slot_store.value) == "next" and len(slot_store.value.args) == 1 \
                        and isinstance(slot_store.value.args[0], ast.Name):
                    counter_iter = slot_store.value.args[0].id
        ctx.ob("R5.3", f, "atom-loop path %d: %s" % (i, p.describe()[:160]), ok3 and line_ok,
               "each atom of the mapped molecule produces exactly one written line, built from that atom", node=al)
        incs = [s for s in st if isinstance(s, ast.AugAssign) and norm(s.target) == counter and isinstance(s.op, ast.Add) and const_int(s.value) == 1] \
            if counter else []
        incs2 = [s for s in st if isinstance(s, ast.Assign) and counter and norm(s.targets[0]) == counter and norm(s.value) in ("%s + 1" % counter, "1 + %s" % counter)]
        allinc = incs + incs2
        ok4 = slot_store is not None and len(allinc) == 1 and st.index(slot_store) < st.index(allinc[0]) and ok3 \
            and st.index(slot_store) < st.index(writes[0])
        if counter_iter and slot_store is not None and not allinc:
            # a counting iterator: next(counter) is taken exactly once per written line
            nexts = [c_ for s_ in st for c_ in ast.walk(s_) if isinstance(c_, ast.Call) and call_name(c_) == "next" and c_.args
                     and norm(c_.args[0]) == counter_iter]
            ok4 = len(nexts) == 1 and ok3 and st.index(slot_store) < st.index(writes[0])
        ctx.ob("R5.4", f, "atom-loop path %d: slot 3 := %s; increments: %d" % (i, counter, len(allinc)), ok4,
               "the running counter is stored as the atom number before the line is written and before its single increment",
               node=slot_store or al)
    ctx.floor("R5.3", len(paths), 1, "paths of the atom loop body")
    if counter_iter:
        defs = [s for s in walk_no_nested(f.node) if isinstance(s, ast.Assign) and norm(s.targets[0]) == counter_iter]
        okci = len(defs) == 1 and isinstance(defs[0].value, ast.Call) and call_name(defs[0].value) == "count" and (
            (len(defs[0].value.args) >= 1 and const_int(defs[0].value.args[0]) == 1 and (len(defs[0].value.args) == 1 or const_int(defs[0].value.args[1]) == 1))
            or any(k_.arg == "start" and const_int(k_.value) == 1 for k_ in defs[0].value.keywords)) \
            and not any(defs[0] is x for x in ast.walk(ml)) and cfg.node_of(defs[0]).id in dom[cfg.node_of(ml).id]
        others = [c_ for c_ in calls_in(f.node) if call_name(c_) == "next" and c_.args and norm(c_.args[0]) == counter_iter
                  and not any(c_ is x for x in ast.walk(al))]
        ctx.ob("R5.4", f, defs[0] if defs else "counter initialisation", okci and not others,
               "the counter starts at 1 before the molecule loop and is never reset or changed elsewhere (atom numbers run "
               "consecutively from 1 over the whole file)", node=defs[0] if defs else f.node)
    elif counter:
        defs = [s for s in walk_no_nested(f.node) if (isinstance(s, ast.Assign) and norm(s.targets[0]) == counter)
                or (isinstance(s, ast.AugAssign) and norm(s.target) == counter)]
        inits = [s for s in defs if isinstance(s, ast.Assign) and const_int(s.value) is not None]
        inside = [s for s in inits if any(s is x for x in ast.walk(ml))]
        other = [s for s in defs if s not in inits and not any(s is x for x in ast.walk(al))]
        ok = len(inits) == 1 and const_int(inits[0].value) == 1 and not inside and not other \
            and cfg.node_of(inits[0]).id in dom[cfg.node_of(ml).id]
        ctx.ob("R5.4", f, inits[0] if inits else "counter initialisation", ok,
               "the counter starts at 1 before the molecule loop and is never reset or changed elsewhere (atom numbers run "
               "consecutively from 1 over the whole file)", node=inits[0] if inits else f.node)
    return ml
