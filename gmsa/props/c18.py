"""C18 - copies are isolated, views write through, rigid operations preserve shape.

R18.1 freshness chain: every copy API returns storage whose coordinate/velocity arrays and containers are
      freshly allocated (provenance FRESH), and each copy reads every attribute its class's __init__ sets
R18.2 coordinate arrays are never mutated in place anywhere in the package (so sharing row views is safe)
R18.3 view APIs hand out the stored objects: Molecule.__getitem__/__iter__ wrap the residue's own AtomGro;
      Atom.__setattr__ routes coordinate attributes to the wrapped coordinate atom
R18.4 one body: move/move_to/rotate are defined once, on top of the virtual accessors, which range over all residues
R18.5 the centre is the pivot (rotate) / the target (move_to)
R18.6 every value deep_copy returns is built on a clone of the topology
R18.7 a copy that clones the instance dictionary reassigns every attribute that is rebound or mutated after construction
"""
from __future__ import annotations

import ast
from typing import Dict, List, Optional, Set, Tuple

from ..cfg import (CFG, call_name, calls_in, walk_no_nested, parents_map, guards_of, attr_chain, enum_paths, const_int)
from ..core import AnalysisError, Ctx, Func, norm
from ..effects import Effects
from ..resolve import Resolver
from ..fixtures import check_fixture

SPEC = {
    "explanation": (
        "Ownership analysis.  Provenance (FRESH / receiver / parameter) is computed for every returned value "
        "through reaching definitions and return summaries; containers are as fresh as their elements; a "
        "constructor result inherits the provenance of the coordinate-typed arguments its __init__ keeps by "
        "reference (derived from the __init__ bodies: Residue keeps its atom list, Atom is a live view of its "
        "AtomGro, AtomGro and Molecule allocate anew).  R18.1 requires FRESH-only provenance for the nine copy "
        "APIs and for the molecules a System hands out and an Alignment stores; R18.2 scans every function of "
        "the package for in-place array operators (x op= v on arrays/array attributes, item stores, out=) on "
        "storage that is not FRESH in that function - with none of those, the positions setter may store row "
        "views safely and no copy can be disturbed through a shared array.  R18.3 requires the opposite "
        "(receiver provenance) for the view APIs and follows Atom.__setattr__'s ladder.  R18.4/R18.5 are "
        "structural: single definitions of move/move_to/rotate on top of atoms_positions/geometric_center, the "
        "same centre subtracted and added back around the matrix product, displacement = target - centre.  "
        "Distance preservation under a user-supplied matrix is numeric and not decided."),
    "exhaustive": True,
    "trusted_base": ["numpy allocation summary: np.array/np.copy/np.concatenate/np.dot/np.mean and arithmetic on "
                     "arrays allocate; basic indexing returns views",
                     "a copy of the topology is shared by Molecule.copy (documented); only deep_copy clones it"],
    "assumptions": ["callers do not mutate arrays obtained from the API in place (the package itself never does, R18.2)"],
}

# one named symbol per line, with the reason it is not a coordinate array
R18_2_EXEMPT = {
    ("gaddlemaps.components._system.System._find_all_molecules_and_replace", "av_gro"):
        "integer array of residue-kind indices (System._available_mgro_ordered): private bookkeeping of which runs "
        "are already claimed, never handed out and never holding coordinates",
}

COPY_APIS = ["AtomGro.copy", "Atom.copy", "Residue.atoms@get", "Residue.copy", "Molecule.copy",
             "Molecule.deep_copy", "Molecule.atoms@get", "MoleculeTop.copy", "AtomTop.copy"]
HANDOUT_APIS = ["System.__iter__", "System.__getitem__", "SystemGro.__iter__", "SystemGro.__getitem__"]


def run(ctx: Ctx):
    E = Effects(ctx.repo)
    ctx.attempt("R18.1", lambda: r18_1(ctx, E))
    ctx.attempt("R18.2", lambda: r18_2(ctx, E))
    ctx.attempt("R18.3", lambda: r18_3(ctx, E))
    ctx.attempt("R18.4", lambda: r18_4(ctx, E))
    ctx.attempt("R18.5", lambda: r18_5(ctx, E))
    ctx.attempt("R18.6", lambda: r18_6(ctx))
    ctx.attempt("R18.7", lambda: r18_7(ctx, E))


def dict_clone_sites(fn: ast.AST) -> List[ast.AST]:
    """statements / calls that copy a whole instance dictionary of `self` into another object"""
    import re as _re
    out: List[ast.AST] = []
    for c in calls_in(fn):
        t = norm(c).replace(" ", "")
        if _re.search(r"\.__dict__\.update\(self\.__dict__\)", t) or t in ("copy.copy(self)",):
            out.append(c)
    for st in walk_no_nested(fn):
        if isinstance(st, ast.Assign) and isinstance(st.targets[0], ast.Attribute) and st.targets[0].attr == "__dict__" \
                and "self.__dict__" in norm(st.value):
            out.append(st)
    return out


def r18_7(ctx: Ctx, E: Effects, rule="R18.7"):
    """A copy built by cloning the instance dictionary wholesale (`new.__dict__.update(self.__dict__)`, copy.copy(self))
    shares every attribute it does not reassign.  That is harmless for attributes nothing ever changes after
    construction; an attribute that some method other than __init__ rebinds or mutates (a cache of views, a list that
    grows) is then one object seen by original and copy."""
    import re as _re
    n = 0
    for api in COPY_APIS:
        f = ctx.repo.func(api, required=False)
        if f is None or f.cls is None:
            continue
        clones = dict_clone_sites(f.node)
        if not clones:
            continue
        n += 1
        first = min(getattr(c, "lineno", 0) for c in clones)
        reassigned = {st.targets[0].attr for st in walk_no_nested(f.node) if isinstance(st, ast.Assign) and isinstance(st.targets[0], ast.Attribute)
                      and norm(st.targets[0].value) != "self" and st.lineno >= first}
        # attributes changed after construction by some method of the class (or of a base class)
        changed: Dict[str, str] = {}
        classes = [f.cls] + [ctx.repo.classes[b] for b in getattr(f.cls, "bases_resolved", []) if b in ctx.repo.classes]
        for cl in classes:
            for m in cl.methods.values():
                if m.name in ("__init__", "__new__") or m is f:
                    continue
                for e in E.direct(m):
                    if e.root[0] != "self":
                        continue
                    mm = _re.search(r"(?:self|\?)\.(_?[A-Za-z]\w*)", e.target)
                    if mm and mm.group(1) != "__dict__":
                        changed.setdefault(mm.group(1), "%s (%s)" % (m.name, e.describe()[:90]))
                for c in calls_in(m.node):
                    t = norm(c).replace(" ", "")
                    mm = _re.match(r"self\.__dict__\.setdefault\('(\w+)',(.*)\)$", t)
                    if mm and not _re.match(r"^(None|\d+|'[^']*'|True|False)$", mm.group(2)):
                        changed.setdefault(mm.group(1), "%s (`%s`)" % (m.name, norm(c)[:70]))
                for st in walk_no_nested(m.node):
                    if isinstance(st, ast.Assign) and isinstance(st.targets[0], ast.Subscript) and norm(st.targets[0].value) == "self.__dict__" \
                            and isinstance(st.targets[0].slice, ast.Constant):
                        changed.setdefault(str(st.targets[0].slice.value), "%s (`%s`)" % (m.name, norm(st)[:70]))
        shared = sorted(a for a in changed if a not in reassigned)
        ctx.ob(rule, f, clones[0], not shared,
               "a copy made by cloning the instance dictionary reassigns every attribute that is rebound or mutated after "
               "construction (attributes reassigned on the copy: %s)" % sorted(reassigned)
               + ("" if not shared else " -- `%s` is shared by original and copy and is changed by %s" % (shared[0], changed[shared[0]])),
               node=clones[0], shared=shared)
    ctx.extra["copy_apis_cloning_the_instance_dict"] = n
    check_fixture(ctx, rule, "dictclone.py", lambda repo: sum(len(dict_clone_sites(f_.node)) for f_ in repo.funcs.values()), expect_exact=2)


def r18_6(ctx: Ctx, rule="R18.6"):
    """A deep copy isolates names and residue labels: they live on the topology, so every value deep_copy returns is a
    molecule built on a clone of the receiver's topology (never on the topology itself, never through the shallow copy)."""
    f = ctx.func("Molecule.deep_copy")
    from ..pat import expand_single_defs as _x
    rets = [r for r in walk_no_nested(f.node) if isinstance(r, ast.Return) and r.value is not None]
    for r in rets:
        v = _x(f.node, r.value)
        ok = und = False
        why = ""
        if isinstance(v, ast.Call) and call_name(v) == "Molecule" and v.args:
            top = v.args[0]
            ttxt = norm(top).replace(" ", "")
            if ttxt in ("self._molecule_top.copy()", "self.molecule_top.copy()", "copy.deepcopy(self._molecule_top)", "deepcopy(self._molecule_top)",
                        "copy.deepcopy(self.molecule_top)", "deepcopy(self.molecule_top)"):
                ok = True
            elif ttxt in ("self._molecule_top", "self.molecule_top"):
                why = "the new molecule is built on the receiver's own topology object"
            else:
                und = True
        elif isinstance(v, ast.Call) and isinstance(v.func, ast.Attribute) and norm(v.func.value) == "self" and v.func.attr == "copy":
            why = "`%s` is the shallow copy, which shares the topology (names, residue labels) with the receiver" % norm(v)
        else:
            und = True
        if und:
            ctx.ob(rule, f, r, True, "the value returned by deep_copy is not built by Molecule(<topology>, ...); not decided on this tree",
                   undecided=True, node=r)
        else:
            ctx.ob(rule, f, r, ok, "every molecule returned by deep_copy is built on a clone of the topology (names and residue labels "
                   "of the copy are its own)" + ("" if ok else " -- " + why), node=r)
    ctx.floor(rule, len(rets), 1, "return statements of Molecule.deep_copy")
    # the clone itself: MoleculeTop.copy builds new AtomTop objects (checked as a copy API by R18.1)


def r18_1(ctx: Ctx, E: Effects, rule="R18.1"):
    n = 0
    for api in COPY_APIS + HANDOUT_APIS:
        f = ctx.repo.func(api, required=False)
        if f is None:
            raise AnalysisError("%s: copy API %s not found" % (rule, api))
        ctx.seen(f)
        roots = E.returns(f)
        bad = sorted(r for r in roots if r[0] != "fresh")
        n += 1
        ctx.ob(rule, f, "%s returns %s" % (api, sorted(set("%s" % (r[0]) for r in roots))), not bad,
               "the object returned (and every coordinate-bearing object reachable from it) is freshly allocated"
               + ("" if not bad else " -- it shares storage with %s" % [("the receiver" if r[0] == "self" else "%s %s" % r[:2]) for r in bad]),
               node=f.node, provenance=[list(map(str, r)) for r in sorted(roots)])
        # stores into the fresh result must not bring in the receiver's mutable storage
        for e in E.direct(f):
            if e.root[0] == "fresh" and e.kind in ("ATTR_STORE", "MUT_CALL", "ITEM_STORE") and e.value:
                vt = e.value_type
                scalar = vt is not None and vt[0] == "ext" and vt[1] in ("int", "str", "float", "bool", "None", "NoneType")
                alias = [v for v in e.value if v[0] != "fresh"]
                if alias and not scalar:
                    ctx.ob(rule, f, e.text, False,
                           "a mutable object of the original is stored into the copy: %s -- original and copy now "
                           "share it" % e.describe(), node=None, line=e.line)
    ctx.floor(rule, n, 9, "copy / hand-out APIs")
    # constructors: which coordinate-typed parameters are kept by reference
    keep = {}
    for cn in ("AtomGro", "Residue", "Molecule", "Atom"):
        c = ctx.repo.cls(cn)
        keep[cn] = sorted(E.ctor_alias_params(c))
    ctx.extra["constructor_keeps_by_reference"] = keep
    ctx.ob(rule, ctx.func("AtomGro.__init__"), "AtomGro.__init__ keeps %s" % keep["AtomGro"], keep["AtomGro"] == [],
           "a coordinate atom allocates its own position/velocity arrays from the parsed record", node=None)
    ctx.ob(rule, ctx.func("Molecule.__init__"), "Molecule.__init__ keeps %s" % keep["Molecule"], keep["Molecule"] == [],
           "a molecule stores copies of the residues it is given", node=None)
    # each copy reads every attribute its class's __init__ sets
    for cn, copy_name in (("AtomGro", "AtomGro.copy"), ("AtomTop", "AtomTop.copy")):
        c = ctx.repo.cls(cn)
        init = c.methods["__init__"]
        cp = ctx.func(copy_name)
        attrs = set()
        for n_ in walk_no_nested(init.node):
            if isinstance(n_, ast.Attribute) and isinstance(n_.ctx, ast.Store) and norm(n_.value) == "self":
                attrs.add(n_.attr)
        read = {n_.attr for n_ in ast.walk(cp.node) if isinstance(n_, ast.Attribute) and norm(n_.value) == "self"}
        # attributes read through methods / properties of the same object that the copy calls (two levels)
        todo, seen_m = [cp], {cp.qual}
        for _lvl in range(2):
            nxt = []
            for g_ in todo:
                for n_ in ast.walk(g_.node):
                    if isinstance(n_, ast.Attribute) and norm(n_.value) == "self":
                        for k_ in ctx.repo.mro(c):
                            m_ = k_.methods.get(n_.attr) or k_.getters.get(n_.attr)
                            if m_ is not None and m_.qual not in seen_m:
                                seen_m.add(m_.qual)
                                nxt.append(m_)
                                read |= {x_.attr for x_ in ast.walk(m_.node) if isinstance(x_, ast.Attribute) and norm(x_.value) == "self"}
                                break
            todo = nxt
        miss = sorted(attrs - read)
        ctx.ob(rule, cp, "%s reads %s of %s" % (copy_name, sorted(read & attrs), sorted(attrs)), not miss,
               "the copy carries every attribute the constructor sets" + ("" if not miss else " -- not copied: %s" % miss),
               node=cp.node)
    # Alignment stores copies (shared with C06/R6.1)
    r6_1(ctx, E, rule)


def r6_1(ctx: Ctx, E: Effects, rule="R6.1"):
    n = 0
    for nm in ("Alignment.start@set", "Alignment.end@set"):
        f = ctx.func(nm)
        param = [p for p in f.params if p != "self"][0]
        fp = E.prov(f)
        for st in walk_no_nested(f.node):
            if isinstance(st, ast.Assign) and isinstance(st.targets[0], ast.Attribute) and norm(st.targets[0].value) == "self" \
                    and st.targets[0].attr in ("_start", "_end"):
                if isinstance(st.value, ast.Constant) and st.value.value is None:
                    continue
                n += 1
                roots = fp.of(st.value)
                bad = [r for r in roots if r[0] != "fresh"]
                ctx.ob(rule, f, st, not bad,
                       "the alignment keeps its own copy of the molecule it is given"
                       + ("" if not bad else " -- it stores the caller's object (%s)" % bad), node=st)
    ctx.floor(rule, n, 2, "non-None stores to Alignment._start/_end")


def inplace_effects(E: Effects, funcs: List[Func]):
    """In-place array mutations on storage that is not fresh in the mutating function."""
    hits = []
    n_inplace = 0
    for f in funcs:
        env = E.R.env(f)
        for e in E.direct(f):
            if e.kind not in ("AUG_INPLACE", "ITEM_STORE", "MUT_CALL"):
                continue
            arrayish = False
            txt = e.target
            if e.kind == "AUG_INPLACE":
                arrayish = True
                # an augmented assignment on a value typed as a set / dict / str / int is not an array operation
                for st in walk_no_nested(f.node):
                    if getattr(st, "lineno", -1) == e.line and isinstance(st, ast.AugAssign) and isinstance(st.target, ast.Name):
                        bt = E.R.expr_type(st.target, f, env)
                        if isinstance(st.value, ast.Call) and call_name(st.value) == "len":
                            arrayish = False          # integer arithmetic on a counter / index
                        if bt and (bt[0] in ("set", "dict") or bt == ("ext", "str") or bt == ("ext", "int") or bt == ("ext", "float")):
                            arrayish = False
                        elif isinstance(st.op, (ast.BitOr, ast.BitAnd, ast.BitXor)) or (
                                isinstance(st.op, ast.Sub) and any(isinstance(d_, ast.Assign) and norm(d_.targets[0]) == st.target.id
                                                                   and isinstance(d_.value, (ast.Set, ast.SetComp)) for d_ in walk_no_nested(f.node))):
                            arrayish = False
            elif e.kind == "ITEM_STORE":
                # item store into an ndarray (typed) or into a position/velocity attribute
                arrayish = ("position" in txt or "velocit" in txt or "ndarray" in txt)
                # typed base
                for st in walk_no_nested(f.node):
                    if getattr(st, "lineno", -1) == e.line and isinstance(st, (ast.Assign, ast.AugAssign)):
                        tg = st.targets[0] if isinstance(st, ast.Assign) else st.target
                        if isinstance(tg, ast.Subscript):
                            bt = E.R.expr_type(tg.value, f, env)
                            if bt == ("ext", "ndarray"):
                                arrayish = True
            elif e.kind == "MUT_CALL":
                arrayish = any(k in txt for k in ("fill(", "sort() on", "put(", "resize(", "itemset(")) and \
                    ("position" in txt or "velocit" in txt or "ndarray" in txt or "pos" in txt)
            if not arrayish:
                continue
            n_inplace += 1
            if e.root[0] != "fresh":
                hits.append((f, e))
    return hits, n_inplace


def r18_2(ctx: Ctx, E: Effects, rule="R18.2"):
    funcs = [f for f in ctx.repo.funcs.values()]
    if ctx.tier != "thorough":
        funcs = [f for f in funcs if not f.module.name.endswith(("_represent", "__main__"))]
    for f in funcs:
        ctx.seen(f)
    hits, n_inplace = inplace_effects(E, funcs)
    ctx.extra["inplace_array_operations_examined"] = n_inplace
    exempted = []
    for f, e in list(hits):
        for (fq, sym), why in R18_2_EXEMPT.items():
            if f.qual != fq or not e.target.startswith("item of "):
                continue
            local = e.target[len("item of "):]
            # the exempted storage is identified by what the local aliases, not by the local's name
            def _is_bookkeeping(name_, depth_=0):
                # the attribute itself, a local bound to it, or a slice (view) of either
                if name_ == "self._available_mgro_ordered":
                    return True
                if depth_ > 3:
                    return False
                for s_ in walk_no_nested(f.node):
                    if isinstance(s_, ast.Assign) and norm(s_.targets[0]) == name_:
                        v_ = s_.value
                        while isinstance(v_, ast.Subscript) and isinstance(v_.slice, ast.Slice):
                            v_ = v_.value
                        if not _is_bookkeeping(norm(v_), depth_ + 1):
                            return False
                        return True
                return False
            aliases = _is_bookkeeping(local)
            if aliases or local == "self._available_mgro_ordered":
                hits.remove((f, e))
                exempted.append({"function": fq, "symbol": "self._available_mgro_ordered (local `%s`)" % local, "reason": why})
    ctx.extra["R18.2_exemptions"] = exempted
    for f, e in hits:
        ctx.ob(rule, f, e.text, False,
               "in-place operation on an array that is not freshly allocated in this function: "
               "%s -- a copy, a view handed out earlier or the caller's array changes with it" % e.describe(),
               node=None, line=e.line)
    if not hits:
        ctx.ob(rule, None, "%d in-place array operations in %d functions" % (n_inplace, len(funcs)), True,
               "every in-place array operation in the package acts on an array allocated in the same function")
    ctx.floor(rule, n_inplace, 6, "in-place array operations examined")
    check_fixture(ctx, rule, "inplace_position.py",
                  lambda repo: len(inplace_effects(Effects(repo), list(repo.funcs.values()))[0]), expect_exact=3)


def r18_3(ctx: Ctx, E: Effects, rule="R18.3"):
    for api in ("Molecule.__getitem__", "Molecule.__iter__"):
        f = ctx.func(api)
        roots = E.returns(f)
        fpv = E.prov(f)
        per_return = []
        for n_ in walk_no_nested(f.node):
            if isinstance(n_, (ast.Return, ast.Yield)) and n_.value is not None:
                per_return.append((n_, fpv.of(n_.value)))
        bad_r = [(n_, r_) for n_, r_ in per_return if ("self",) not in r_]
        ctx.ob(rule, f, "%s returns %s" % (api, sorted({r[0] for r in roots})), bool(per_return) and not bad_r,
               "atoms obtained by indexing/iterating a molecule wrap the molecule's own coordinate atoms (live views) on "
               "every return path" + ("" if not bad_r else " -- `%s` hands out detached copies" % norm(bad_r[0][0])),
               node=bad_r[0][0] if bad_r else f.node, provenance=[list(map(str, r)) for r in sorted(roots)])
        # the AtomGro handed to Atom(...) is not a copy
        for c in calls_in(f.node):
            if call_name(c) == "Atom" and len(c.args) == 2:
                ctx.ob(rule, f, c, "copy" not in norm(c.args[1]),
                       "the coordinate atom is passed to the view as is", node=c)
    # integer indexing pairs topology atom i with the i-th coordinate atom: residue of atom i, and its position inside it
    from ..pat import find as pfind3
    gi = ctx.func("Molecule.__getitem__")
    ip = [p_ for p_ in gi.params if p_ != "self"][0]
    okg = False
    rr = pfind3(gi.node, "V_r = self._each_atom_resid[%s]" % ip)
    if rr:
        rv = rr[0][1]["V_r"]
        okg = bool(pfind3(gi.node, "Atom(self._molecule_top[%s], self._residues[%s][sum((V_i == %s for V_i in self._each_atom_resid[:%s]))])"
                          % (ip, rv, rv, ip)))
    if not okg and rr:
        okg = bool(pfind3(gi.node, "Atom(self._molecule_top[%s], self._residues[%s][self._each_atom_resid[:%s].count(%s)])"
                          % (ip, rv, ip, rv)))
    at_calls = [c_ for c_ in calls_in(gi.node) if call_name(c_) == "Atom"]
    if okg or not at_calls:
        ctx.ob(rule, gi, "atom lookup in Molecule.__getitem__", okg,
               "atom i is (topology atom i, coordinate atom number 'atoms of the same residue before i' of the residue that atom i "
               "belongs to)", node=gi.node)
    else:
        wrong = any(len(c_.args) == 2 and norm(c_.args[0]) != "self._molecule_top[%s]" % ip and "molecule_top" in norm(c_.args[0]) for c_ in at_calls)
        if wrong:
            ctx.ob(rule, gi, "atom lookup in Molecule.__getitem__", False,
                   "atom i is (topology atom i, coordinate atom number 'atoms of the same residue before i' of the residue that atom i "
                   "belongs to)", node=gi.node)
        else:
            ctx.ob(rule, gi, "atom lookup in Molecule.__getitem__", True, "the position of atom i inside its residue is not computed in a "
                   "recognised form; not decided on this tree", undecided=True, node=gi.node)
    mi = ctx.func("Molecule.__init__")
    oke = bool(pfind3(mi.node, "self._each_atom_resid += [V_k] * len(V_res)"))
    table_stores = [s_ for s_ in walk_no_nested(mi.node) if isinstance(s_, (ast.Assign, ast.AugAssign))
                    and attr_chain(s_.targets[0] if isinstance(s_, ast.Assign) else s_.target) == "self._each_atom_resid"]
    if oke or not [s_ for s_ in table_stores if not (isinstance(s_, ast.Assign) and isinstance(s_.value, ast.List) and not s_.value.elts)]:
        ctx.ob(rule, mi, "per-atom residue index table", oke,
               "the per-atom residue table holds the residue's position once per atom of that residue, in order", node=mi.node)
    else:
        ctx.ob(rule, mi, "per-atom residue index table", True, "the per-atom residue table is not built by `+= [k] * len(residue)`; "
               "not decided on this tree", undecided=True, node=mi.node)
    atom = ctx.repo.cls("Atom")
    R = E.R
    for attr, want in (("position", "AtomGro"), ("velocity", "AtomGro"), ("atomid", "AtomGro")):
        d = R.attr_store_targets(("cls", atom.qual), attr)
        ok = [x[0].split(".")[-1] for x in d] == [want]
        ctx.ob(rule, ctx.func("Atom.__setattr__"), "Atom.%s = v lands on %s" % (attr, [x[0].split(".")[-1] + "." + x[1] for x in d]), ok,
               "assigning a coordinate attribute through the view writes the wrapped coordinate atom", node=None)
    d = R.attr_store_targets(("cls", atom.qual), "resname")
    ctx.ob(rule, ctx.func("Atom.__setattr__"), "Atom.resname = v lands on %s" % sorted(x[0].split(".")[-1] for x in d),
           sorted(x[0].split(".")[-1] for x in d) == ["AtomGro", "AtomTop"],
           "names present on both sides are written to both", node=None)
    # resids setter writes both sides
    rs = ctx.func("Molecule.resids@set")
    tg = sorted({e.target for e in E.summary(rs) if e.kind == "ATTR_STORE"})
    ctx.ob(rule, rs, "Molecule.resids = v writes %s" % tg, tg == ["AtomGro.resid", "AtomTop.resid"],
           "residue numbers are written through to the coordinate atoms (and the topology atoms)", node=rs.node)
    # each branch of the setter (list of numbers / single number) writes both sides of every atom
    from ..pat import find as pfind4
    rp = [p_ for p_ in rs.params if p_ != "self"][0]
    branches = []
    from ..cfg import branches as cbranches, ctext as cctext
    forms = {"list": [cctext("isinstance(%s, list) and isinstance(%s[0], int)" % (rp, rp)), cctext("isinstance(%s, list)" % rp)],
             "int": [cctext("isinstance(%s, int)" % rp)]}
    for n_ in walk_no_nested(rs.node):
        if isinstance(n_, ast.If):
            ct_, wt_, wf_ = cbranches(n_)
            for kind_, fs_ in forms.items():
                for ft_, fp_ in fs_:
                    if ct_ == ft_:
                        branches.append((kind_, [x for x in (wt_ if fp_ else wf_) if not isinstance(x, ast.If)]))
    okb = len(branches) == 2
    for kind, body in branches:
        loops_ = [x for st_ in body for x in ast.walk(st_) if isinstance(x, ast.For)]
        okl = False
        for l_ in loops_:
            av_ = norm(l_.target.elts[0]) if isinstance(l_.target, ast.Tuple) else norm(l_.target)
            tgts = sorted(norm(s_.targets[0]) for s_ in l_.body if isinstance(s_, ast.Assign))
            al18 = {norm(s_.targets[0]): norm(s_.value) for s_ in l_.body if isinstance(s_, ast.Assign) and isinstance(s_.targets[0], ast.Name)}
            def _t18(t_):
                # `atom = <loop variable>` inside the loop: a write through `atom` is a write through the loop variable
                if isinstance(t_, ast.Attribute) and isinstance(t_.value, ast.Name) and al18.get(t_.value.id) == av_:
                    return "%s.%s" % (av_, t_.attr)
                return norm(t_)
            tgts = sorted(_t18(s_.targets[0]) for s_ in l_.body if isinstance(s_, ast.Assign) and not isinstance(s_.targets[0], ast.Name))
            vals = {al18.get(norm(s_.value), norm(s_.value)) for s_ in l_.body if isinstance(s_, ast.Assign) and not isinstance(s_.targets[0], ast.Name)}
            if tgts == ["%s.gro_resid" % av_, "%s.top_resid" % av_] and len(vals) == 1:
                v_ = list(vals)[0]
                okl = (kind == "int" and v_ == rp) or (kind == "list" and v_.startswith(rp + "["))
        okb = okb and okl
    both_sides_somewhere = False
    for l_ in [x for x in ast.walk(rs.node) if isinstance(x, ast.For)]:
        av_ = norm(l_.target.elts[0]) if isinstance(l_.target, ast.Tuple) else norm(l_.target)
        tg_ = sorted(norm(s_.targets[0]) for s_ in l_.body if isinstance(s_, ast.Assign))
        vl_ = {norm(s_.value) for s_ in l_.body if isinstance(s_, ast.Assign)}
        if tg_ == ["%s.gro_resid" % av_, "%s.top_resid" % av_] and len(vl_) == 1:
            both_sides_somewhere = True
    in_branch_loops = any(isinstance(x, ast.For) for _, body in branches for st_ in body for x in ast.walk(st_))
    if okb or in_branch_loops or not both_sides_somewhere:
        ctx.ob(rule, rs, "branches of the resids setter: %s" % [k for k, _ in branches], okb,
               "given a list, atom i gets the number of its residue on both sides; given one number, every atom gets it on both sides",
               node=rs.node)
    else:
        ctx.ob(rule, rs, "branches of the resids setter", True, "the per-atom numbers are computed in the branches and written by one loop "
               "afterwards; the branch-wise form of this rule is not decided on this tree (both sides are written in that loop)",
               undecided=True, node=rs.node)
    from ..pat import single_defs as _sd18
    sd18 = _sd18(rs.node)

    def _len_test(n_):
        t_ = n_.test
        if not (isinstance(t_, ast.Compare) and len(t_.ops) == 1 and isinstance(t_.ops[0], ast.NotEq)):
            return False
        sides = [t_.left, t_.comparators[0]]
        sides = [sd18.get(x.id, x) if isinstance(x, ast.Name) else x for x in sides]
        return sorted(norm(x).replace(" ", "") for x in sides) == sorted(["len(%s)" % rp, "len(self.resids)"])
    lenchk = [n_ for n_ in walk_no_nested(rs.node) if isinstance(n_, ast.If) and _len_test(n_)
              and any(isinstance(x, ast.Raise) for x in n_.body)]
    ctx.ob(rule, rs, lenchk[0] if lenchk else "length check", bool(lenchk),
           "a list of the wrong length is refused", node=lenchk[0] if lenchk else rs.node)
    # AtomGro.copy hands every field to the constructor: numbers, names, position and (when present) velocity
    cp = ctx.func("AtomGro.copy")
    lst = pfind4(cp.node, "V_l = [self.resid, self.resname, self.name, self.atomid]")
    okc = False
    if lst:
        lv = lst[0][1]["V_l"]
        pos = [(s_, {}) for s_ in walk_no_nested(cp.node) if isinstance(s_, ast.AugAssign) and norm(s_.target) == lv
               and isinstance(s_.op, ast.Add) and "self.position" in norm(s_.value) and not guards_of(s_, parents_map(cp.node))]
        vel = [(n_, {}) for n_ in walk_no_nested(cp.node) if isinstance(n_, ast.If) and norm(n_.test) == "self.velocity is not None"
               and not n_.orelse and len(n_.body) == 1 and isinstance(n_.body[0], ast.AugAssign) and norm(n_.body[0].target) == lv
               and isinstance(n_.body[0].op, ast.Add) and "self.velocity" in norm(n_.body[0].value)]
        ctor = pfind4(cp.node, "return AtomGro(%s)" % lv)
        okc = bool(pos) and bool(vel) and bool(ctor) and pos[0][0].lineno < vel[0][0].lineno < ctor[0][0].lineno
        ctx.ob(rule, cp, "record handed to the constructor", okc,
               "the copy is built from (resid, resname, name, atomid) + position (+ velocity when the atom has one)", node=cp.node)
    else:
        ctx.ob(rule, cp, "record handed to the constructor", True, "AtomGro.copy does not build a record list; not decided", undecided=True)
    # the positions setter writes every atom of the receiver exactly once, in order
    st = ctx.func("Residue.atoms_positions@set")
    loops = [n for n in walk_no_nested(st.node) if isinstance(n, ast.For)]
    ok = False
    if loops:
        it = norm(loops[0].iter)
        body = loops[0].body
        param = [p for p in st.params if p != "self"][0]
        ok = it == "zip(self, %s)" % param and len(body) == 1 and isinstance(body[0], ast.Assign) \
            and norm(body[0].targets[0]).endswith(".position") and isinstance(loops[0].target, ast.Tuple) \
            and norm(body[0].value) == norm(loops[0].target.elts[1])
    ctx.ob(rule, st, loops[0] if loops else "positions setter", ok,
           "the positions setter assigns row i to atom i for every atom (after checking the shape)",
           node=loops[0] if loops else st.node)


def r18_4(ctx: Ctx, E: Effects, rule="R18.4"):
    res = ctx.repo.cls("Residue")
    for m in ("move", "move_to", "rotate"):
        defs = [f for f in ctx.repo.funcs.values() if f.name == m and f.cls is not None and res in ctx.repo.mro(f.cls)]
        ok = len(defs) == 1 and defs[0].cls is res
        ctx.ob(rule, defs[0] if defs else None, "definitions of %s: %s" % (m, [d.qual.split("gaddlemaps.")[-1] for d in defs]), ok,
               "%s is defined once (on Residue) and inherited: a molecule moves as one body" % m, node=defs[0].node if defs else None)
        if defs:
            f = defs[0]
            ctx.seen(f)
            used = {n.attr for n in ast.walk(f.node) if isinstance(n, ast.Attribute) and norm(n.value) == "self"}
            ok2 = used <= {"atoms_positions", "geometric_center", "move", "move_to"}
            ctx.ob(rule, f, "%s uses self.%s" % (m, sorted(used)), ok2,
                   "the operation goes through the virtual accessors atoms_positions / geometric_center only",
                   node=f.node)
    mol = ctx.repo.cls("Molecule")
    g = mol.getters.get("atoms_positions")
    ok = False
    if g is not None:
        from ..pat import has as phas
        ok = phas(g.node, "np.concatenate([V_r.atoms_positions for V_r in self._residues])")
    ctx.ob(rule, g, "Molecule.atoms_positions", ok, "a molecule's positions are the concatenation over all its residues",
           node=g.node if g else None)
    s = mol.setters.get("atoms_positions")
    ok = False
    if s is not None:
        cs, status = E.R.callees([c for c in calls_in(s.node)][0], s) if calls_in(s.node) else ([], "")
        ok = [c.qual.split(".")[-1] for c in cs] == ["atoms_positions@set"] and cs[0].cls is res
    ctx.ob(rule, s, "Molecule.atoms_positions setter", ok,
           "the molecule's positions setter is the residue's setter applied to the whole molecule (all atoms)",
           node=s.node if s else None)
    gc = [f for f in ctx.repo.funcs.values() if f.name == "geometric_center" and f.kind == "getter" and f.cls is not None
          and res in ctx.repo.mro(f.cls)]
    okc = len(gc) == 1 and "np.mean(self.atoms_positions, axis=0)" in ast.unparse(gc[0].node)
    ctx.ob(rule, gc[0] if gc else None, "geometric_center", okc,
           "the geometric centre is the mean of atoms_positions (one definition, so it ranges over the whole molecule)",
           node=gc[0].node if gc else None)
    for g_ in gc:
        state_reads = sorted({n_.attr for n_ in ast.walk(g_.node) if isinstance(n_, ast.Attribute) and norm(n_.value) == "self"
                              and n_.attr not in ("atoms_positions",)})
        state_writes = [n_ for n_ in ast.walk(g_.node) if isinstance(n_, ast.Attribute) and isinstance(n_.ctx, ast.Store)]
        ctx.ob(rule, g_, "geometric_center reads self.%s" % (state_reads or ["atoms_positions"]), not state_reads and not state_writes,
               "the centre is recomputed from the current positions on every access (no cached value that a write through a "
               "live atom view would leave stale)", node=g_.node)
    it = mol.methods.get("__iter__")
    from ..pat import find as pfind2
    oki = False
    if it is not None:
        outer = pfind2(it.node, "for V_r in self._residues: ...")
        oki = bool(outer) and bool(pfind2(outer[0][0], "for V_a in %s: ..." % outer[0][1]["V_r"]))
    if oki or it is None or not any(attr_chain(x) == "self._residues" for x in ast.walk(it.node) if isinstance(x, ast.Attribute)):
        ctx.ob(rule, it, "Molecule.__iter__", bool(oki), "iterating a molecule visits every atom of every residue in order",
               node=it.node if it else None)
    else:
        ctx.ob(rule, it, "Molecule.__iter__", True, "the iteration over the residues' atoms is not written as two nested loops; "
               "not decided on this tree", undecided=True, node=it.node)


def r18_5(ctx: Ctx, E: Effects, rule="R18.5"):
    rot = ctx.func("Residue.rotate")
    mv = ctx.func("Residue.move")
    mt = ctx.func("Residue.move_to")
    # rotate: one centre, read before the store, subtracted and added back
    cfg = CFG(rot.node)
    rd = cfg.reaching_defs(rot.params)
    store = [s for s in walk_no_nested(rot.node) if isinstance(s, ast.Assign) and norm(s.targets[0]) == "self.atoms_positions"]
    ok = False
    why = ""
    from ..pat import single_defs as _sd18
    sd_rot = _sd18(rot.node)

    def is_pos(e):
        # the current positions: the attribute itself, or a local bound once to it
        return norm(e) == "self.atoms_positions" or (isinstance(e, ast.Name) and e.id in sd_rot and norm(sd_rot[e.id]) == "self.atoms_positions")

    def is_centre(d, pos_expr):
        # the geometric centre of the same positions: the property, or the mean over the atoms of the positions read
        if norm(d) == "self.geometric_center":
            return True
        if isinstance(d, ast.Call) and norm(d.func) in ("np.mean", "numpy.mean") and d.args and is_pos(d.args[0]) \
                and (norm(d.args[0]) == norm(pos_expr) or norm(d.args[0]) == "self.atoms_positions") \
                and ((len(d.args) == 2 and const_int(d.args[1]) == 0) or any(k.arg == "axis" and const_int(k.value) == 0 for k in d.keywords)):
            return True
        return False
    if len(store) == 1:
        from .exmap import _resolve_local
        val = _resolve_local(rot.node, store[0].value)
        # val = product + c
        if isinstance(val, ast.BinOp) and isinstance(val.op, ast.Add):
            prod, c_add = (val.left, val.right)
            if not (isinstance(prod, ast.Call) or isinstance(prod, ast.BinOp) and isinstance(prod.op, ast.MatMult)):
                prod, c_add = c_add, prod
            ops = None
            if isinstance(prod, ast.Call) and call_name(prod) in ("dot", "matmul") and len(prod.args) == 2:
                ops = prod.args
            elif isinstance(prod, ast.BinOp) and isinstance(prod.op, ast.MatMult):
                ops = [prod.left, prod.right]
            if ops:
                centred = None
                for o in ops:
                    o2 = _resolve_local(rot.node, o)
                    if isinstance(o2, ast.BinOp) and isinstance(o2.op, ast.Sub) and is_pos(o2.left):
                        centred = o2
                if centred is not None and isinstance(c_add, ast.Name) and norm(centred.right) == c_add.id:
                    n_add = cfg.node_containing(c_add)
                    n_sub = cfg.node_containing(centred.right)
                    d1 = rd.at(n_add, c_add.id)
                    d2 = rd.at(n_sub, c_add.id)
                    same = len(d1) == 1 and len(d2) == 1 and d1[0] is d2[0]
                    defv = d1[0].ast.value if same and isinstance(d1[0].ast, ast.Assign) else None
                    ok = same and defv is not None and is_centre(defv, centred.left) \
                        and d1[0].ast.lineno < store[0].lineno
                    why = "" if ok else "the point added back is not the centre read before the rotation"
                elif centred is not None and norm(c_add) == norm(centred.right) == "self.geometric_center":
                    ok = True
                else:
                    why = "the positions are not centred on the point that is added back"
            else:
                why = "matrix product not recognised"
        else:
            why = "new positions are not (product + centre)"
    ctx.ob(rule, rot, store[0] if store else "rotate", ok,
           "rotate subtracts the geometric centre of the current positions, applies the matrix and adds the same "
           "centre back (so the centre is fixed for any matrix)" + ("" if ok else " -- " + why),
           node=store[0] if store else rot.node)
    # matrix applied as R to row vectors: dot(x, R^T)
    txt = ast.unparse(rot.node)
    param = [p for p in rot.params if p != "self"][0]
    okm = ("np.transpose(%s)" % param in txt or "%s.T" % param in txt)
    ctx.ob(rule, rot, "row vectors times the transposed matrix", okm,
           "positions (rows) are multiplied by the transpose of the matrix, i.e. every atom is mapped by R", node=rot.node)
    # move: positions + displacement
    st = [s for s in walk_no_nested(mv.node) if isinstance(s, ast.Assign) and norm(s.targets[0]) == "self.atoms_positions"]
    p = [x for x in mv.params if x != "self"][0]
    okv = len(st) == 1 and norm(st[0].value) in ("self.atoms_positions + %s" % p, "%s + self.atoms_positions" % p)
    ctx.ob(rule, mv, st[0] if st else "move", okv, "move adds the displacement to every position", node=st[0] if st else mv.node)
    # move_to: displacement = target - centre, handed to move
    p = [x for x in mt.params if x != "self"][0]
    calls = [c for c in calls_in(mt.node) if call_name(c) == "move" and norm(c.func.value) == "self"]
    okt = False
    if calls and calls[0].args:
        from .exmap import _resolve_local
        a = _resolve_local(mt.node, calls[0].args[0])
        okt = norm(a) == "%s - self.geometric_center" % p
    ctx.ob(rule, mt, calls[0] if calls else "move_to", okt,
           "move_to translates by (target - current geometric centre)", node=calls[0] if calls else mt.node)
