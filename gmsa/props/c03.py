"""C03 - exchange map is local and shape-preserving under deformation.

  R3.1 dependency footprint: on the call path the only coordinates read from the argument are the anchor's
       position and the positions of its two frame neighbours
  R3.2 norms / intra-anchor distances scale by s: orthonormal frame on every path (R1.1), transpose pair (R1.2),
       single multiplicative scale (R1.3)
  R3.3 the frame neighbours are the two lowest-numbered bonded atoms (R1.4); frames recomputed per call (R2.1)
  R3.4 the recorded anchor and the frame of the stored coordinates come from one selection of the nearest anchor
       (not argmin for one table and an `== minimum` mask for the other: they disagree on exact ties)
"""
from ..core import Ctx
from . import frames, exmap

SPEC = {
    "explanation": (
        "Locality is a dependency statement: every coordinate-bearing attribute read (position, "
        "atoms_positions, geometric_center, x/y/z, distance_to) in the methods reachable from "
        "ExchangeMap.__call__ is enumerated and must be the anchor's position or a frame neighbour's position "
        "(neighbour = molecule[i] with i from the anchor's closest_atoms()); any other read, or a whole-body "
        "move/rotate of the result, makes a mapped atom depend on other reference atoms and is reported.  Shape "
        "preservation (|x - a| = s |p - a| and mutual distances of atoms sharing an anchor) follows from the "
        "orthonormal frame, the transpose pair and the single scale factor, checked as in C01.  The 1e-12 "
        "tolerance is not decided."),
    "exhaustive": True,
    "trusted_base": ["attribute reads are the only way coordinates of the argument enter the computation "
                     "(the methods on the call path take no other coordinate input)"],
    "assumptions": ["exact arithmetic"],
}


def run(ctx: Ctx):
    ctx.attempt("R3.1", lambda: exmap.r3_1(ctx))
    ctx.attempt("R3.4", lambda: exmap.r3_4(ctx))
    ctx.attempt("R1.1", lambda: frames.orthonormal(ctx, "R1.1"))
    ctx.attempt("R1.2", lambda: exmap.r1_2(ctx))
    ctx.attempt("R1.3", lambda: exmap.r1_3(ctx))
    ctx.attempt("R1.4", lambda: exmap.r1_4(ctx))
    ctx.attempt("R2.1", lambda: exmap.r2_1(ctx))
